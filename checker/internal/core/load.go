// Package core holds the repository-independent engines of scicheck: loading,
// no-return summaries, the expanded interprocedural CFG, event dataflow, the
// scenario (abstract-interpretation) engine, symbolic value expressions,
// and obligation/evidence reporting.
package core

import (
	"fmt"
	"go/token"
	"go/types"
	"os"
	"path/filepath"
	"sort"
	"strings"

	"golang.org/x/tools/go/callgraph"
	"golang.org/x/tools/go/callgraph/cha"
	"golang.org/x/tools/go/callgraph/vta"
	"golang.org/x/tools/go/packages"
	"golang.org/x/tools/go/ssa"
	"golang.org/x/tools/go/ssa/ssautil"
)

const ModPath = "github.com/scipipe/scipipe"

// Library package import paths (rules speak only about these).
var LibPkgs = []string{ModPath, ModPath + "/components", ModPath + "/cmd/scipipe"}

type Prog struct {
	funcTables map[*ssa.Global]map[string]*ssa.Function
	Dir        string
	Fset       *token.FileSet
	Pkgs       []*packages.Package
	SSA        *ssa.Program
	SSAPkgs    map[string]*ssa.Package
	AllFuncs   map[*ssa.Function]bool
	LibFuncs   []*ssa.Function // every function (incl. closures, methods) whose source is in a library package
	CHA        *callgraph.Graph
	VTA        *callgraph.Graph
	NoRet      map[*ssa.Function]bool
	NPkgs      int
	Ignored    []string
	cgMode     string

	constGlobals map[*ssa.Global]*ssa.Const
}

// Load type-checks and builds SSA for every package under dir (the repository's
// current working tree).  Any type error or missing library package is an
// infrastructure failure, not a verdict.
func Load(dir string) (*Prog, error) { return load(dir, true) }

// LoadPlain loads an arbitrary module directory (used for the positive-control package).
func LoadPlain(dir string) (*Prog, error) { return load(dir, false) }

func load(dir string, lib bool) (*Prog, error) {
	env := append(os.Environ(), "GOFLAGS=-mod=mod", "GOPROXY=off", "GOSUMDB=off", "GOTOOLCHAIN=local", "GOWORK=off")
	fset := token.NewFileSet()
	cfg := &packages.Config{Mode: packages.LoadAllSyntax, Dir: dir, Fset: fset, Env: env, Tests: false}
	pkgs, err := packages.Load(cfg, "./...")
	if err != nil {
		return nil, fmt.Errorf("packages.Load: %v", err)
	}
	if len(pkgs) == 0 {
		return nil, fmt.Errorf("no packages loaded from %s", dir)
	}
	var errs []string
	packages.Visit(pkgs, nil, func(p *packages.Package) {
		for _, e := range p.Errors {
			errs = append(errs, e.Error())
		}
	})
	if len(errs) > 0 {
		sort.Strings(errs)
		if len(errs) > 10 {
			errs = errs[:10]
		}
		return nil, fmt.Errorf("the tree does not type-check:\n  %s", strings.Join(errs, "\n  "))
	}
	p := &Prog{Dir: dir, Fset: fset, Pkgs: pkgs, SSAPkgs: map[string]*ssa.Package{}, NPkgs: len(pkgs)}
	for _, pk := range pkgs {
		for _, f := range pk.IgnoredFiles {
			p.Ignored = append(p.Ignored, f)
		}
	}
	prog, spkgs := ssautil.AllPackages(pkgs, ssa.InstantiateGenerics)
	prog.Build()
	p.SSA = prog
	for i, sp := range spkgs {
		if sp != nil {
			p.SSAPkgs[pkgs[i].PkgPath] = sp
		}
	}
	if !lib {
		p.AllFuncs = ssautil.AllFunctions(prog)
		for fn := range p.AllFuncs {
			if fn.Blocks != nil && fn.Pkg != nil && p.SSAPkgs[fn.Pkg.Pkg.Path()] != nil {
				p.LibFuncs = append(p.LibFuncs, fn)
			}
		}
		for fn := range p.AllFuncs {
			if fn.Blocks != nil && fn.Parent() != nil {
				top := fn
				for top.Parent() != nil {
					top = top.Parent()
				}
				if top.Pkg != nil && p.SSAPkgs[top.Pkg.Pkg.Path()] != nil {
					p.LibFuncs = append(p.LibFuncs, fn)
				}
			}
		}
		p.NoRet = map[*ssa.Function]bool{}
		return p, nil
	}
	for _, lp := range LibPkgs {
		if p.SSAPkgs[lp] == nil {
			return nil, fmt.Errorf("library package %s not found under %s", lp, dir)
		}
	}
	for _, f := range p.Ignored {
		rel, _ := filepath.Rel(dir, f)
		if strings.HasSuffix(f, ".go") && !strings.HasPrefix(rel, "examples") && !strings.HasSuffix(f, "_test.go") {
			return nil, fmt.Errorf("library file %s is excluded by a build constraint; coverage would be silently lost", rel)
		}
	}
	p.AllFuncs = ssautil.AllFunctions(prog)
	for fn := range p.AllFuncs {
		if p.IsLib(fn) && fn.Blocks != nil {
			p.LibFuncs = append(p.LibFuncs, fn)
		}
	}
	sort.Slice(p.LibFuncs, func(i, j int) bool {
		a, b := p.LibFuncs[i], p.LibFuncs[j]
		if a.Pos() != b.Pos() {
			return a.Pos() < b.Pos()
		}
		return a.String() < b.String()
	})
	p.CHA = cha.CallGraph(prog)
	p.VTA = vta.CallGraph(p.AllFuncs, p.CHA)
	p.computeNoRet()
	return p, nil
}

// IsLib reports whether fn's source is in one of the three library packages
// (closures and methods included), test files excluded by construction (Tests:false).
func (p *Prog) IsLib(fn *ssa.Function) bool {
	if fn == nil {
		return false
	}
	for fn.Parent() != nil {
		fn = fn.Parent()
	}
	pk := fn.Pkg
	if pk == nil {
		if fn.Origin() != nil {
			pk = fn.Origin().Pkg
		}
		if pk == nil {
			// wrappers/thunks: attribute by receiver object
			if fn.Object() != nil && fn.Object().Pkg() != nil {
				return isLibPath(fn.Object().Pkg().Path())
			}
			return false
		}
	}
	return isLibPath(pk.Pkg.Path())
}

func isLibPath(path string) bool {
	for _, lp := range LibPkgs {
		if path == lp {
			return true
		}
	}
	return false
}

// IsRepo reports whether fn belongs to the module (library or examples).
func (p *Prog) IsRepo(fn *ssa.Function) bool {
	for fn != nil && fn.Parent() != nil {
		fn = fn.Parent()
	}
	if fn == nil {
		return false
	}
	if fn.Pkg == nil {
		// synthetic wrappers (bound-method closures, method-expression thunks, promoted-method wrappers) belong to
		// the package of the method they wrap
		if fn.Synthetic != "" && fn.Object() != nil && fn.Object().Pkg() != nil {
			return strings.HasPrefix(fn.Object().Pkg().Path(), ModPath)
		}
		return false
	}
	return strings.HasPrefix(fn.Pkg.Pkg.Path(), ModPath)
}

func pkgAlias(a string) string {
	switch a {
	case "", "scipipe":
		return LibPkgs[0]
	case "components":
		return LibPkgs[1]
	case "cmd", "main":
		return LibPkgs[2]
	}
	return a
}

// Func resolves "pkg:Name" or "pkg:Type.Method" (pointer or value receiver) to a
// source function; pkg is "scipipe", "components" or "cmd".  nil if absent.
func (p *Prog) Func(spec string) *ssa.Function {
	pkg, name := "scipipe", spec
	if i := strings.Index(spec, ":"); i >= 0 {
		pkg, name = spec[:i], spec[i+1:]
	}
	sp := p.SSAPkgs[pkgAlias(pkg)]
	if sp == nil {
		return nil
	}
	if i := strings.Index(name, "."); i >= 0 {
		tn, mn := name[:i], name[i+1:]
		t := sp.Type(tn)
		if t == nil {
			return nil
		}
		nt := t.Type()
		for _, T := range []types.Type{types.NewPointer(nt), nt} {
			ms := p.SSA.MethodSets.MethodSet(T)
			if sel := ms.Lookup(sp.Pkg, mn); sel != nil {
				fn := p.SSA.MethodValue(sel)
				// unwrap promoted-method wrappers to the declared function when it is declared on this type
				return fn
			}
		}
		return nil
	}
	return sp.Func(name)
}

// DeclaredMethod returns the method named mn declared directly on named type tn (not promoted).
func (p *Prog) DeclaredMethod(pkg, tn, mn string) *ssa.Function {
	sp := p.SSAPkgs[pkgAlias(pkg)]
	if sp == nil || sp.Type(tn) == nil {
		return nil
	}
	named, _ := sp.Type(tn).Type().(*types.Named)
	if named == nil {
		return nil
	}
	for i := 0; i < named.NumMethods(); i++ {
		m := named.Method(i)
		if m.Name() == mn {
			return p.SSA.FuncValue(m)
		}
	}
	return nil
}

func (p *Prog) Named(pkg, tn string) *types.Named {
	sp := p.SSAPkgs[pkgAlias(pkg)]
	if sp == nil || sp.Type(tn) == nil {
		return nil
	}
	n, _ := sp.Type(tn).Type().(*types.Named)
	return n
}

// FieldVar returns the *types.Var of field fname of struct type pkg.tn (embedded fields searched one level).
func (p *Prog) FieldVar(pkg, tn, fname string) *types.Var {
	n := p.Named(pkg, tn)
	if n == nil {
		return nil
	}
	st, _ := n.Underlying().(*types.Struct)
	if st == nil {
		return nil
	}
	for i := 0; i < st.NumFields(); i++ {
		if st.Field(i).Name() == fname {
			return st.Field(i)
		}
	}
	return nil
}

// Pos renders a position relative to the repository root.
func (p *Prog) Pos(pos token.Pos) string {
	if !pos.IsValid() {
		return "?"
	}
	ps := p.Fset.Position(pos)
	rel, err := filepath.Rel(p.Dir, ps.Filename)
	if err != nil || strings.HasPrefix(rel, "..") {
		rel = ps.Filename
	}
	return fmt.Sprintf("%s:%d", rel, ps.Line)
}

// InstrPos finds a usable position for an instruction (falls back to operands / block neighbours).
func (p *Prog) InstrPos(in ssa.Instruction) string {
	if in == nil {
		return "?"
	}
	if in.Pos().IsValid() {
		return p.Pos(in.Pos())
	}
	if v, ok := in.(ssa.Value); ok {
		_ = v
	}
	for _, op := range in.Operands(nil) {
		if *op != nil && (*op).Pos().IsValid() {
			return p.Pos((*op).Pos())
		}
	}
	b := in.Block()
	for _, i2 := range b.Instrs {
		if i2.Pos().IsValid() {
			return p.Pos(i2.Pos())
		}
	}
	return p.Pos(in.Parent().Pos())
}

// FuncName is a stable, readable name: (*T).M, pkg.F, F$1 for closures; package path shortened.
func FuncName(fn *ssa.Function) string {
	if fn == nil {
		return "<nil>"
	}
	s := fn.String()
	s = strings.ReplaceAll(s, ModPath+"/components.", "components.")
	s = strings.ReplaceAll(s, ModPath+"/cmd/scipipe.", "cmd.")
	s = strings.ReplaceAll(s, ModPath+".", "")
	return s
}

// CalleeName returns pkgpath.Name or (recvtype).Name for a static callee, "" when dynamic.
func CalleeName(c *ssa.CallCommon) string {
	if c == nil {
		return ""
	}
	if f := c.StaticCallee(); f != nil {
		return f.String()
	}
	if b, ok := c.Value.(*ssa.Builtin); ok {
		return "builtin." + b.Name()
	}
	if c.IsInvoke() {
		return "invoke:" + c.Method.FullName()
	}
	return ""
}

// UseCG selects the call graph used by who-may-call rules ("vta" default, "cha" in the thorough cross-check).
func (p *Prog) CG() *callgraph.Graph {
	if p.cgMode == "cha" {
		return p.CHA
	}
	return p.VTA
}
func (p *Prog) SetCG(mode string) { p.cgMode = mode }

// Callers returns the call-graph callers of fn (functions), deduplicated.
func (p *Prog) Callers(fn *ssa.Function) []*ssa.Function {
	n := p.CG().Nodes[fn]
	if n == nil {
		return nil
	}
	seen := map[*ssa.Function]bool{}
	var out []*ssa.Function
	for _, e := range n.In {
		if !seen[e.Caller.Func] {
			seen[e.Caller.Func] = true
			out = append(out, e.Caller.Func)
		}
	}
	sort.Slice(out, func(i, j int) bool { return out[i].String() < out[j].String() })
	return out
}

// Callees returns call-graph callees of a call site.
func (p *Prog) CalleesOf(site ssa.CallInstruction) []*ssa.Function {
	n := p.CG().Nodes[site.Parent()]
	if n == nil {
		return nil
	}
	var out []*ssa.Function
	seen := map[*ssa.Function]bool{}
	for _, e := range n.Out {
		if e.Site == site && !seen[e.Callee.Func] {
			seen[e.Callee.Func] = true
			out = append(out, e.Callee.Func)
		}
	}
	sort.Slice(out, func(i, j int) bool { return out[i].String() < out[j].String() })
	return out
}

// Reachable returns the set of functions reachable from roots in the selected call graph
// (following go and defer edges too).
func (p *Prog) Reachable(roots ...*ssa.Function) map[*ssa.Function]bool {
	seen := map[*ssa.Function]bool{}
	var work []*ssa.Function
	for _, r := range roots {
		if r != nil && !seen[r] {
			seen[r] = true
			work = append(work, r)
		}
	}
	for len(work) > 0 {
		f := work[len(work)-1]
		work = work[:len(work)-1]
		n := p.CG().Nodes[f]
		if n == nil {
			continue
		}
		for _, e := range n.Out {
			if !seen[e.Callee.Func] {
				seen[e.Callee.Func] = true
				work = append(work, e.Callee.Func)
			}
		}
	}
	return seen
}

// ConstGlobal returns the constant a package-level variable is initialised with when no
// other store to it exists anywhere in the loaded program ("effectively constant").
func (p *Prog) ConstGlobal(g *ssa.Global) *ssa.Const {
	if p.constGlobals == nil {
		p.constGlobals = map[*ssa.Global]*ssa.Const{}
		stores := map[*ssa.Global][]*ssa.Store{}
		for fn := range p.AllFuncs {
			for _, b := range fn.Blocks {
				for _, in := range b.Instrs {
					if st, ok := in.(*ssa.Store); ok {
						if gg, ok := st.Addr.(*ssa.Global); ok {
							stores[gg] = append(stores[gg], st)
						}
					}
				}
			}
		}
		for gg, sts := range stores {
			if len(sts) == 1 && sts[0].Parent().Name() == "init" {
				if c, ok := sts[0].Val.(*ssa.Const); ok {
					p.constGlobals[gg] = c
				}
			}
		}
	}
	return p.constGlobals[g]
}
