package core

import (
	"go/types"

	"golang.org/x/tools/go/ssa"
)

// noRetSeeds: functions that never return to their caller.
var noRetSeeds = map[string]bool{
	"os.Exit": true, "log.Fatal": true, "log.Fatalf": true, "log.Fatalln": true,
	"(*log.Logger).Fatal": true, "(*log.Logger).Fatalf": true, "(*log.Logger).Fatalln": true,
	"runtime.Goexit": true, "log.Panic": true, "log.Panicf": true, "log.Panicln": true,
	"(*log.Logger).Panic": true, "(*log.Logger).Panicf": true, "(*log.Logger).Panicln": true,
}

// IsNoRetSeed reports whether a static callee is one of the modelled process/goroutine terminators.
func IsNoRetSeed(fn *ssa.Function) bool { return fn != nil && noRetSeeds[fn.String()] }

// CallNeverReturns: the instruction is a call (not go/defer) that cannot return.
func (p *Prog) CallNeverReturns(in ssa.Instruction) bool {
	switch c := in.(type) {
	case *ssa.Call:
		if b, ok := c.Call.Value.(*ssa.Builtin); ok && b.Name() == "panic" {
			return true
		}
		if f := c.Call.StaticCallee(); f != nil {
			return IsNoRetSeed(f) || p.NoRet[f]
		}
	case *ssa.Panic:
		return true
	}
	return false
}

// computeNoRet: a function is no-return when no Return instruction is reachable from
// its entry after cutting every block at its first never-returning call (fixpoint).
func (p *Prog) computeNoRet() {
	p.NoRet = map[*ssa.Function]bool{}
	var fns []*ssa.Function
	for fn := range p.AllFuncs {
		if fn.Blocks != nil && p.IsRepo(fn) {
			fns = append(fns, fn)
		}
	}
	for changed := true; changed; {
		changed = false
		for _, fn := range fns {
			if p.NoRet[fn] {
				continue
			}
			if !p.returnReachable(fn) {
				p.NoRet[fn] = true
				changed = true
			}
		}
	}
}

func (p *Prog) returnReachable(fn *ssa.Function) bool {
	seen := map[*ssa.BasicBlock]bool{}
	work := []*ssa.BasicBlock{fn.Blocks[0]}
	seen[fn.Blocks[0]] = true
	for len(work) > 0 {
		b := work[len(work)-1]
		work = work[:len(work)-1]
		cut := false
		for _, in := range b.Instrs {
			if p.CallNeverReturns(in) {
				cut = true
				break
			}
			if _, ok := in.(*ssa.Return); ok {
				return true
			}
		}
		if cut {
			continue
		}
		for _, s := range b.Succs {
			if !seen[s] {
				seen[s] = true
				work = append(work, s)
			}
		}
	}
	return false
}

// ExitCodes returns the constant arguments of os.Exit calls reachable (statically) from fn's
// never-returning paths, and whether every terminator on those paths is os.Exit with a constant.
// Used by C09: a Fail* function must end the process with a non-zero status.
func (p *Prog) ExitCodes(fn *ssa.Function, seen map[*ssa.Function]bool) (codes []int64, allExit bool) {
	if seen == nil {
		seen = map[*ssa.Function]bool{}
	}
	if seen[fn] {
		return nil, true
	}
	seen[fn] = true
	allExit = true
	reach := map[*ssa.BasicBlock]bool{fn.Blocks[0]: true}
	work := []*ssa.BasicBlock{fn.Blocks[0]}
	for len(work) > 0 {
		b := work[len(work)-1]
		work = work[:len(work)-1]
		cut := false
		for _, in := range b.Instrs {
			if !p.CallNeverReturns(in) {
				continue
			}
			cut = true
			c, ok := in.(*ssa.Call)
			if !ok {
				allExit = false // panic instruction
				break
			}
			f := c.Call.StaticCallee()
			switch {
			case f != nil && f.String() == "os.Exit":
				if k, ok := c.Call.Args[0].(*ssa.Const); ok && k.Value != nil {
					codes = append(codes, k.Int64())
				} else {
					allExit = false
				}
			case f != nil && p.NoRet[f] && f.Blocks != nil:
				cs, ok := p.ExitCodes(f, seen)
				codes = append(codes, cs...)
				allExit = allExit && ok
			case f != nil && (f.String() == "log.Fatal" || f.String() == "log.Fatalf" || f.String() == "log.Fatalln" ||
				f.String() == "(*log.Logger).Fatal" || f.String() == "(*log.Logger).Fatalf" || f.String() == "(*log.Logger).Fatalln"):
				codes = append(codes, 1) // documented: log.Fatal* call os.Exit(1)
			default:
				allExit = false
			}
			break
		}
		if cut {
			continue
		}
		for _, s := range b.Succs {
			if !reach[s] {
				reach[s] = true
				work = append(work, s)
			}
		}
	}
	return codes, allExit
}

// isErrorType reports whether t is the predeclared error interface.
func isErrorType(t types.Type) bool {
	return types.Identical(t, types.Universe.Lookup("error").Type())
}
