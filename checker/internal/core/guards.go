package core

import "golang.org/x/tools/go/ssa"

// Guard is a branch condition that dominates a node of an expanded CFG: the node is only reached when Cond
// evaluated to Pol.
type Guard struct {
	Cond *Sym
	Pol  bool
	If   *ssa.If
}

// Guards returns the branch conditions under which n is reached: the conditions that dominate n's block in
// its own function (an If whose one successor, entered only from it, dominates the block), then those of the
// call site in the calling context, and so on up to the root. Conditions are symbolised with sy (so a
// predicate helper is looked through when sy expands it).
func (g *XG) Guards(n *Node, sy *Symbolizer) []Guard {
	var out []Guard
	for c, in := n.Ctx, n.Instr; c != nil && in != nil; {
		b := in.Block()
		for d := b; d != nil; d = d.Idom() {
			id := d.Idom()
			if id == nil {
				break
			}
			iff, ok := id.Instrs[len(id.Instrs)-1].(*ssa.If)
			if !ok {
				continue
			}
			switch {
			case id.Succs[0].Dominates(b) && len(id.Succs[0].Preds) == 1:
				out = append(out, Guard{sy.InCtx(c, iff.Cond), true, iff})
			case id.Succs[1].Dominates(b) && len(id.Succs[1].Preds) == 1:
				out = append(out, Guard{sy.InCtx(c, iff.Cond), false, iff})
			}
		}
		if c.CallNode == nil || c.Parent == nil {
			break
		}
		in = c.CallNode.Instr
		c = c.Parent
	}
	return out
}

// GuardString renders guards for reports ("a && !b").
func GuardString(gs []Guard) string {
	s := ""
	for i, x := range gs {
		if i > 0 {
			s += " && "
		}
		if !x.Pol {
			s += "!"
		}
		s += x.Cond.String()
	}
	return s
}

// Linear interprets an integer expression as a*len(x) + b (over len of anything, integer constants, + and -,
// and hex.EncodedLen of such an expression without len).
func (y *Sym) Linear() (a, b int64, ok bool) {
	switch {
	case y.Op == "int":
		var v int64
		neg := false
		for i, ch := range y.Lit {
			if i == 0 && ch == '-' {
				neg = true
				continue
			}
			if ch < '0' || ch > '9' {
				return 0, 0, false
			}
			v = v*10 + int64(ch-'0')
		}
		if neg {
			v = -v
		}
		return 0, v, true
	case y.Op == "call" && y.Name == "builtin.len":
		return 1, 0, true
	case y.Op == "call" && y.Name == "encoding/hex.EncodedLen" && len(y.Args) == 1:
		if a1, b1, ok := y.Args[0].Linear(); ok && a1 == 0 {
			return 0, 2 * b1, true
		}
	case y.Op == "call" && y.Name == "convert" && len(y.Args) == 1:
		return y.Args[0].Linear()
	case y.Op == "call" && (y.Name == "op+" || y.Name == "op-") && len(y.Args) == 2:
		a1, b1, ok1 := y.Args[0].Linear()
		a2, b2, ok2 := y.Args[1].Linear()
		if ok1 && ok2 {
			if y.Name == "op+" {
				return a1 + a2, b1 + b2, true
			}
			return a1 - a2, b1 - b2, true
		}
	case y.Op == "phi" && len(y.Args) > 0:
		a0, b0, ok0 := y.Args[0].Linear()
		if !ok0 {
			return 0, 0, false
		}
		for _, z := range y.Args[1:] {
			a1, b1, ok1 := z.Linear()
			if !ok1 || a1 != a0 || b1 != b0 {
				return 0, 0, false
			}
		}
		return a0, b0, true
	}
	return 0, 0, false
}

// LenBound interprets a guard as a bound on a length L: the guard holds exactly when L > c (Over=true) or
// when L <= c (Over=false). ok=false when the condition is not a comparison of linear length expressions.
func (gd Guard) LenBound() (c int64, over bool, ok bool) {
	y, pol := gd.Cond, gd.Pol
	for y.Op == "call" && y.Name == "op!" && len(y.Args) == 1 {
		y, pol = y.Args[0], !pol
	}
	for y.Op == "phi" && len(y.Args) == 1 {
		y = y.Args[0]
	}
	if y.Op != "call" || len(y.Args) != 2 {
		return 0, false, false
	}
	op := y.Name
	switch op {
	case "op>", "op>=", "op<", "op<=":
	default:
		return 0, false, false
	}
	a1, b1, ok1 := y.Args[0].Linear()
	a2, b2, ok2 := y.Args[1].Linear()
	if !ok1 || !ok2 {
		return 0, false, false
	}
	// a1*L + b1 OP a2*L + b2  ⇔  a*L OP k
	a, k := a1-a2, b2-b1
	if a < 0 {
		a, k = -a, -k
		switch op {
		case "op>":
			op = "op<"
		case "op>=":
			op = "op<="
		case "op<":
			op = "op>"
		case "op<=":
			op = "op>="
		}
	}
	if a != 1 {
		return 0, false, false
	}
	switch op {
	case "op>": // L > k
		c, over = k, true
	case "op>=": // L >= k ⇔ L > k-1
		c, over = k-1, true
	case "op<=": // L <= k
		c, over = k, false
	case "op<": // L < k ⇔ L <= k-1
		c, over = k-1, false
	}
	if !pol {
		over = !over
	}
	return c, over, true
}
