package core

import (
	"fmt"
	"go/constant"
	"go/types"
	"sort"
	"strings"

	"golang.org/x/tools/go/ssa"
)

// ----------------------------------------------------------------------------
// E-XCFG: expanded (context-cloned), no-return-pruned interprocedural CFG.
// One node per executed SSA instruction (phis excluded) per calling context.
// ----------------------------------------------------------------------------

type NodeKind int

const (
	KInstr     NodeKind = iota // ordinary instruction (including opaque calls, go, defer registration)
	KCall                      // call whose callee body is inlined: Succs[0] is the callee's entry
	KAfter                     // landing node after an inlined call / higher-order call (binds the result)
	KExit                      // never-returning call or panic: no successors
	KRootRet                   // return of the root function: normal termination of the analysed entry
	KRet                       // return of an inlined callee
	KHOHead                    // synthetic head of a callback invoked 0..n times by a modelled higher-order function
	KDeferSkip                 // synthetic: a conditionally registered defer may not run
)

type Ctx struct {
	ID       int
	Fn       *ssa.Function
	Parent   *Ctx
	CallNode *Node
	Depth    int
	Callback bool // body of a callback of a modelled higher-order function (parameters unbound)
}

func (c *Ctx) Path() string {
	var parts []string
	for x := c; x != nil; x = x.Parent {
		parts = append(parts, FuncName(x.Fn))
	}
	for i, j := 0, len(parts)-1; i < j; i, j = i+1, j-1 {
		parts[i], parts[j] = parts[j], parts[i]
	}
	return strings.Join(parts, " > ")
}

// Has reports whether fn is on the context chain.
func (c *Ctx) Has(fn *ssa.Function) bool {
	for x := c; x != nil; x = x.Parent {
		if x.Fn == fn {
			return true
		}
	}
	return false
}

type Node struct {
	ID          int
	Kind        NodeKind
	Ctx         *Ctx
	Instr       ssa.Instruction
	Succs       []*Node
	Preds       []*Node
	Call        *ssa.CallCommon
	Callee      *ssa.Function
	Inl         *Ctx
	CallNode    *Node
	Deferred    bool // executes a deferred call (at the function's RunDefers)
	IsGo        bool
	Recursive   bool // call not expanded because the callee is already on the context chain
	Unmodelled  bool // function value handed to an unmodelled callee
	ResolvedDyn bool // dynamic call through a parameter, resolved to a function literal in this context
	// table dispatch: a call through a function taken out of a constant table (package-level map with constant
	// string keys, filled once by the package initialiser): one inlined context per entry; DispatchKey is the
	// lookup key, Dispatch[i] belongs to Succs[i]
	DispatchKey ssa.Value
	Dispatch    []DispatchTarget
	First       bool // first node of its basic block
}

func (n *Node) String() string {
	if n.Instr == nil {
		return fmt.Sprintf("n%d<%d>", n.ID, n.Kind)
	}
	return fmt.Sprintf("n%d %s", n.ID, n.Instr.String())
}

// DispatchTarget: one entry of a constant function table.
type DispatchTarget struct {
	Key string
	Ctx *Ctx
}

type XG struct {
	P     *Prog
	Root  *Ctx
	Entry *Node
	Nodes []*Node
	Ctxs  []*Ctx
	opts  XGOpts
	nid   int
	err   error

	byInstr map[instrKey]*Node
}

type instrKey struct {
	c  *Ctx
	in ssa.Instruction
}

type XGOpts struct {
	// NoInline: callees kept opaque (treated as a single event node).
	NoInline func(fn *ssa.Function) bool
	MaxNodes int
	// InlineGo: the body of a goroutine started with a static callee / literal is expanded at the go statement.
	InlineGo bool
}

// higher-order stdlib functions whose function argument is invoked synchronously 0..n times
var hoModel = map[string]int{ // callee -> index of the function-typed argument
	"path/filepath.Walk":    1,
	"path/filepath.WalkDir": 1,
	"(*sync.Once).Do":       1,
}

// higher-order functions whose callback has no property-relevant effect (comparators)
var hoPure = map[string]bool{
	"sort.Slice": true, "sort.SliceStable": true, "sort.Search": true, "strings.Map": true,
	"strings.FieldsFunc": true, "strings.IndexFunc": true, "strings.TrimFunc": true,
}

func (p *Prog) BuildXG(fn *ssa.Function, opts XGOpts) (*XG, error) {
	if fn == nil || fn.Blocks == nil {
		return nil, fmt.Errorf("BuildXG: no source for entry function")
	}
	if opts.MaxNodes == 0 {
		opts.MaxNodes = 400000
	}
	g := &XG{P: p, opts: opts}
	g.Root = g.newCtx(fn, nil, nil)
	entry, _ := g.instantiate(g.Root)
	if g.err != nil {
		return nil, g.err
	}
	g.Entry = entry
	// prune unreachable nodes, compute preds
	seen := map[*Node]bool{entry: true}
	work := []*Node{entry}
	for len(work) > 0 {
		n := work[len(work)-1]
		work = work[:len(work)-1]
		for _, s := range n.Succs {
			if !seen[s] {
				seen[s] = true
				work = append(work, s)
			}
		}
	}
	var keep []*Node
	for _, n := range g.Nodes {
		if seen[n] {
			keep = append(keep, n)
		}
	}
	g.Nodes = keep
	for _, n := range g.Nodes {
		for _, s := range n.Succs {
			s.Preds = append(s.Preds, n)
		}
	}
	return g, nil
}

func (g *XG) newCtx(fn *ssa.Function, parent *Ctx, call *Node) *Ctx {
	c := &Ctx{ID: len(g.Ctxs), Fn: fn, Parent: parent, CallNode: call}
	if parent != nil {
		c.Depth = parent.Depth + 1
	}
	g.Ctxs = append(g.Ctxs, c)
	return c
}

func (g *XG) newNode(k NodeKind, ctx *Ctx, in ssa.Instruction) *Node {
	n := &Node{ID: g.nid, Kind: k, Ctx: ctx, Instr: in}
	g.nid++
	g.Nodes = append(g.Nodes, n)
	if len(g.Nodes) > g.opts.MaxNodes && g.err == nil {
		g.err = fmt.Errorf("expanded CFG exceeds %d nodes", g.opts.MaxNodes)
	}
	return n
}

func (g *XG) inlinable(ctx *Ctx, callee *ssa.Function) bool {
	if callee == nil || callee.Blocks == nil || !g.P.IsRepo(callee) {
		return false
	}
	if ctx.Depth >= 24 || g.err != nil {
		return false
	}
	if g.opts.NoInline != nil && g.opts.NoInline(callee) {
		return false
	}
	return true
}

// instantiate clones fn's CFG in context ctx; returns the entry node and the return nodes.
func (g *XG) instantiate(ctx *Ctx) (entry *Node, rets []*Node) {
	fn := ctx.Fn
	first := map[*ssa.BasicBlock]*Node{}
	last := map[*ssa.BasicBlock]*Node{} // the terminator node, when the block's end is reachable
	for _, b := range fn.Blocks {
		if b == fn.Recover {
			continue
		}
		var head, tail *Node
		add := func(h, t *Node) bool { // returns false when control cannot continue
			if head == nil {
				head = h
				h.First = true
			} else {
				tail.Succs = append(tail.Succs, h)
			}
			tail = t
			return t != nil
		}
		alive := true
		for _, in := range b.Instrs {
			if !alive {
				break
			}
			switch in := in.(type) {
			case *ssa.Phi, *ssa.DebugRef:
				continue
			case *ssa.Call:
				h, t := g.call(ctx, in, in.Common(), false)
				alive = add(h, t)
			case *ssa.RunDefers:
				n := g.newNode(KInstr, ctx, in)
				alive = add(n, n)
				var defers []*ssa.Defer
				for _, b2 := range fn.Blocks {
					for _, i2 := range b2.Instrs {
						if d, ok := i2.(*ssa.Defer); ok {
							defers = append(defers, d)
						}
					}
				}
				for i := len(defers) - 1; i >= 0 && alive; i-- {
					d := defers[i]
					h, t := g.call(ctx, d, d.Common(), true)
					if d.Block() != b && !d.Block().Dominates(b) {
						// conditionally registered: may be skipped
						skip := g.newNode(KDeferSkip, ctx, in)
						join := g.newNode(KDeferSkip, ctx, in)
						skip.Succs = []*Node{h, join}
						if t != nil {
							t.Succs = append(t.Succs, join)
						}
						alive = add(skip, join)
					} else {
						alive = add(h, t)
					}
				}
			case *ssa.Go:
				if g.opts.InlineGo {
					// the goroutine's body is analysed as if it ran at the go statement (used by rules that ask
					// what a function does "by itself or in goroutines it starts", never for ordering claims)
					h, t := g.call(ctx, in, in.Common(), false)
					h.IsGo = true
					alive = add(h, t)
					continue
				}
				n := g.newNode(KInstr, ctx, in)
				n.IsGo = true
				n.Call = in.Common()
				n.Callee = in.Common().StaticCallee()
				alive = add(n, n)
			case *ssa.Defer:
				n := g.newNode(KInstr, ctx, in)
				alive = add(n, n)
			case *ssa.Return:
				k := KRet
				if ctx.Parent == nil {
					k = KRootRet
				}
				n := g.newNode(k, ctx, in)
				add(n, n)
				rets = append(rets, n)
				alive = false
				last[b] = nil
			case *ssa.Panic:
				n := g.newNode(KExit, ctx, in)
				add(n, nil)
				alive = false
			case *ssa.If, *ssa.Jump:
				n := g.newNode(KInstr, ctx, in)
				add(n, n)
				last[b] = n
				alive = false
			default:
				n := g.newNode(KInstr, ctx, in)
				alive = add(n, n)
			}
		}
		if head != nil {
			first[b] = head
		}
	}
	for b, n := range last {
		if n == nil {
			continue
		}
		for _, s := range b.Succs {
			if f := first[s]; f != nil {
				n.Succs = append(n.Succs, f)
			} else if g.err == nil {
				g.err = fmt.Errorf("internal: block without nodes in %s", fn)
			}
		}
	}
	return first[fn.Blocks[0]], rets
}

// resolveFuncValue: the function a function-typed value denotes in calling context ctx, when it is a parameter
// whose argument at the call site of this context is a function literal / named function (followed upwards
// through at most a few contexts).
func resolveFuncValue(ctx *Ctx, v ssa.Value, depth int) *ssa.Function {
	if depth > 4 || ctx == nil {
		return nil
	}
	if f := funcArg(v); f != nil {
		return f
	}
	pa, ok := v.(*ssa.Parameter)
	if !ok || ctx.Callback || ctx.CallNode == nil || ctx.CallNode.Call == nil || ctx.Parent == nil {
		return nil
	}
	for i, p := range ctx.Fn.Params {
		if p == pa && i < len(ctx.CallNode.Call.Args) {
			return resolveFuncValue(ctx.Parent, ctx.CallNode.Call.Args[i], depth+1)
		}
	}
	return nil
}

// funcArg resolves a function-typed operand to a source function when it is a closure or a named function.
func funcArg(v ssa.Value) *ssa.Function {
	switch v := v.(type) {
	case *ssa.MakeClosure:
		if f, ok := v.Fn.(*ssa.Function); ok {
			return f
		}
	case *ssa.Function:
		return v
	case *ssa.ChangeType:
		return funcArg(v.X)
	case *ssa.Call:
		if f, _ := FactoryClosure(v); f != nil {
			return f
		}
	}
	return nil
}

// FactoryClosure: v is a call of a function of the program whose every return hands back a closure over one
// and the same function literal ("func mover(dir string) filepath.WalkFunc { return func(...) {...} }"):
// that function literal and the MakeClosure that creates it (nil, nil otherwise).
func FactoryClosure(v ssa.Value) (*ssa.Function, *ssa.MakeClosure) {
	call, ok := v.(*ssa.Call)
	if !ok {
		return nil, nil
	}
	fac := call.Call.StaticCallee()
	if fac == nil || fac.Blocks == nil {
		return nil, nil
	}
	var fn *ssa.Function
	var mk *ssa.MakeClosure
	for _, b := range fac.Blocks {
		for _, in := range b.Instrs {
			rt, ok := in.(*ssa.Return)
			if !ok {
				continue
			}
			if len(rt.Results) != 1 {
				return nil, nil
			}
			r := rt.Results[0]
			for {
				if ct, ok := r.(*ssa.ChangeType); ok {
					r = ct.X
					continue
				}
				break
			}
			switch x := r.(type) {
			case *ssa.MakeClosure:
				f, _ := x.Fn.(*ssa.Function)
				if f == nil || (fn != nil && fn != f) {
					return nil, nil
				}
				fn, mk = f, x
			case *ssa.Function:
				if fn != nil && fn != x {
					return nil, nil
				}
				fn = x
			default:
				return nil, nil
			}
		}
	}
	return fn, mk
}

func hasFuncTypedArg(c *ssa.CallCommon) bool {
	for _, a := range c.Args {
		if _, ok := a.Type().Underlying().(*types.Signature); ok {
			return true
		}
	}
	return false
}

func (g *XG) call(ctx *Ctx, in ssa.Instruction, c *ssa.CallCommon, deferred bool) (head, tail *Node) {
	n := g.newNode(KInstr, ctx, in)
	n.Call = c
	n.Deferred = deferred
	callee := c.StaticCallee()
	n.Callee = callee
	if b, ok := c.Value.(*ssa.Builtin); ok && b.Name() == "panic" {
		n.Kind = KExit
		return n, nil
	}
	if callee == nil && !c.IsInvoke() {
		// a call through a function-typed parameter: in this calling context the argument may be a known function
		// literal ("audited(what, func() {...})" calling do()): then the literal is what runs
		if f := resolveFuncValue(ctx, c.Value, 0); f != nil && f.Blocks != nil && g.P.IsRepo(f) {
			callee = f
			n.Callee = f
			n.ResolvedDyn = true
		}
	}
	if callee == nil && !c.IsInvoke() {
		if key, tab := g.P.tableLookup(c.Value); tab != nil && g.err == nil && ctx.Depth < 24 {
			// dispatch through a constant function table
			var keys []string
			for k := range tab {
				keys = append(keys, k)
			}
			sort.Strings(keys)
			after := g.newNode(KAfter, ctx, in)
			after.CallNode = n
			n.Kind = KCall
			n.DispatchKey = key
			any := false
			for _, k := range keys {
				f := tab[k]
				if f == nil || f.Blocks == nil || ctx.Has(f) {
					continue
				}
				cctx := g.newCtx(f, ctx, n)
				e, rets := g.instantiate(cctx)
				n.Succs = append(n.Succs, e)
				n.Dispatch = append(n.Dispatch, DispatchTarget{k, cctx})
				for _, r := range rets {
					r.Succs = []*Node{after}
					r.CallNode = n
					any = true
				}
			}
			if len(n.Dispatch) > 0 {
				if n.Inl == nil {
					n.Inl = n.Dispatch[0].Ctx
				}
				if !any {
					return n, nil
				}
				return n, after
			}
			n.Kind = KInstr
		} else if fs := returnedFuncs(c.Value); len(fs) > 0 && g.err == nil && ctx.Depth < 24 {
			// a call of a function value that a function of the module returned ("descr, run := t.payload(); run()"):
			// any of the function literals that callee can return may run
			after := g.newNode(KAfter, ctx, in)
			after.CallNode = n
			n.Kind = KCall
			any := false
			for _, f := range fs {
				if f.Blocks == nil || ctx.Has(f) {
					continue
				}
				cctx := g.newCtx(f, ctx, n)
				e, rets := g.instantiate(cctx)
				n.Succs = append(n.Succs, e)
				n.Dispatch = append(n.Dispatch, DispatchTarget{"", cctx})
				for _, r := range rets {
					r.Succs = []*Node{after}
					r.CallNode = n
					any = true
				}
			}
			if len(n.Dispatch) > 0 {
				n.Inl = n.Dispatch[0].Ctx
				if !any {
					return n, nil
				}
				return n, after
			}
			n.Kind = KInstr
		}
	}
	if callee == nil {
		return n, n
	}
	if IsNoRetSeed(callee) || g.P.NoRet[callee] {
		n.Kind = KExit
		return n, nil
	}
	name := callee.String()
	if idx, ok := hoModel[name]; ok {
		args := c.Args
		if c.IsInvoke() {
			idx--
		}
		var cb *ssa.Function
		if idx < len(args) {
			cb = funcArg(args[idx])
		}
		if cb != nil && cb.Blocks != nil && !ctx.Has(cb) {
			hd := g.newNode(KHOHead, ctx, in)
			after := g.newNode(KAfter, ctx, in)
			after.CallNode = n
			cctx := g.newCtx(cb, ctx, n)
			cctx.Callback = true
			e, rets := g.instantiate(cctx)
			n.Succs = []*Node{hd}
			hd.Succs = []*Node{e, after}
			for _, r := range rets {
				r.Succs = []*Node{hd}
				r.CallNode = n
			}
			return n, after
		}
		n.Unmodelled = true
		return n, n
	}
	if !g.P.IsRepo(callee) && hasFuncTypedArg(c) && !hoPure[name] && !strings.HasPrefix(name, "fmt.") && !strings.HasPrefix(name, "(*log.Logger)") {
		// a function value handed to an unmodelled external callee
		for _, a := range c.Args {
			if f := funcArg(a); f != nil && g.P.IsRepo(f) {
				n.Unmodelled = true
			}
		}
	}
	if ctx.Has(callee) {
		n.Recursive = true
		return n, n
	}
	if !g.inlinable(ctx, callee) {
		return n, n
	}
	n.Kind = KCall
	cctx := g.newCtx(callee, ctx, n)
	n.Inl = cctx
	e, rets := g.instantiate(cctx)
	n.Succs = []*Node{e}
	if len(rets) == 0 {
		return n, nil
	}
	after := g.newNode(KAfter, ctx, in)
	after.CallNode = n
	for _, r := range rets {
		r.Succs = []*Node{after}
		r.CallNode = n
	}
	return n, after
}

// ----------------------------------------------------------------------------
// Node predicates used by the rules.
// ----------------------------------------------------------------------------

// IsCallTo reports whether n executes a call (plain, deferred-at-exit) to one of the named
// static callees (ssa.Function.String() names, e.g. "os.Rename", "(*os/exec.Cmd).CombinedOutput").
func (n *Node) IsCallTo(names ...string) bool {
	if n.Call == nil || n.IsGo || n.Kind == KAfter || n.Kind == KHOHead {
		return false
	}
	if _, isDefer := n.Instr.(*ssa.Defer); isDefer && !n.Deferred {
		return false // registration only
	}
	if n.Callee == nil {
		return false
	}
	s := n.Callee.String()
	for _, nm := range names {
		if s == nm {
			return true
		}
	}
	return false
}

// IsCallToFn: n executes a call to exactly fn (inlined or not).
func (n *Node) IsCallToFn(fn *ssa.Function) bool {
	if n.Call == nil || n.IsGo || n.Kind == KAfter || n.Kind == KHOHead || fn == nil {
		return false
	}
	if _, isDefer := n.Instr.(*ssa.Defer); isDefer && !n.Deferred {
		return false
	}
	return n.Callee == fn
}

// IsBuiltin: call of the named builtin (close, delete, len, cap, append, panic ...).
func (n *Node) IsBuiltin(name string) bool {
	if n.Call == nil || n.IsGo {
		return false
	}
	if _, isDefer := n.Instr.(*ssa.Defer); isDefer && !n.Deferred {
		return false
	}
	b, ok := n.Call.Value.(*ssa.Builtin)
	return ok && b.Name() == name
}

// IsDynCall: a call through a function value or interface method that is not statically resolved.
func (n *Node) IsDynCall() bool {
	if n.Call == nil || n.IsGo || n.Kind == KAfter || n.Kind == KHOHead {
		return false
	}
	if _, isDefer := n.Instr.(*ssa.Defer); isDefer && !n.Deferred {
		return false
	}
	if _, ok := n.Call.Value.(*ssa.Builtin); ok {
		return false
	}
	return n.Callee == nil
}

// Where renders file:line plus the calling context of the node.
func (g *XG) Where(n *Node) string {
	pos := "?"
	if n.Instr != nil {
		pos = g.P.InstrPos(n.Instr)
	}
	return fmt.Sprintf("%s [%s]", pos, n.Ctx.Path())
}

// Select returns the nodes satisfying pred, in deterministic order.
func (g *XG) Select(pred func(*Node) bool) []*Node {
	var out []*Node
	for _, n := range g.Nodes {
		if pred(n) {
			out = append(out, n)
		}
	}
	sort.Slice(out, func(i, j int) bool { return out[i].ID < out[j].ID })
	return out
}

// FuncsInlined lists the functions that appear as contexts.
func (g *XG) FuncsInlined() []string {
	seen := map[string]bool{}
	for _, c := range g.Ctxs {
		seen[FuncName(c.Fn)] = true
	}
	var out []string
	for k := range seen {
		out = append(out, k)
	}
	sort.Strings(out)
	return out
}

// tableLookup: v is a function value read out of a constant function table - Lookup(load(G), key) (possibly the
// first component of a comma-ok lookup) where G is a package-level map of the module that is created and filled
// once, with constant string keys and function values, by its package initialiser and never updated elsewhere.
// Returns the key operand and the table.
func (p *Prog) tableLookup(v ssa.Value) (ssa.Value, map[string]*ssa.Function) {
	if ex, ok := v.(*ssa.Extract); ok && ex.Index == 0 {
		v = ex.Tuple
	}
	lk, ok := v.(*ssa.Lookup)
	if !ok {
		return nil, nil
	}
	ld, ok := lk.X.(*ssa.UnOp)
	if !ok {
		return nil, nil
	}
	g, ok := ld.X.(*ssa.Global)
	if !ok {
		return nil, nil
	}
	if tab := p.ConstFuncTable(g); tab != nil {
		return lk.Index, tab
	}
	return nil, nil
}

// ConstFuncTable returns the constant function table held by global g (see tableLookup), or nil.
func (p *Prog) ConstFuncTable(g *ssa.Global) map[string]*ssa.Function {
	if p.funcTables == nil {
		p.funcTables = map[*ssa.Global]map[string]*ssa.Function{}
		// all stores to globals and all map updates on loads of globals, program-wide
		stores := map[*ssa.Global][]*ssa.Store{}
		type upd struct {
			mu *ssa.MapUpdate
			fn *ssa.Function
		}
		updates := map[ssa.Value][]upd{} // keyed by the map value
		for fn := range p.AllFuncs {
			for _, b := range fn.Blocks {
				for _, in := range b.Instrs {
					switch x := in.(type) {
					case *ssa.Store:
						if gg, ok := x.Addr.(*ssa.Global); ok {
							stores[gg] = append(stores[gg], x)
						}
					case *ssa.MapUpdate:
						updates[x.Map] = append(updates[x.Map], upd{x, fn})
					}
				}
			}
		}
		for gg, sts := range stores {
			if gg.Pkg == nil || !strings.HasPrefix(gg.Pkg.Pkg.Path(), ModPath) || len(sts) != 1 || sts[0].Parent().Name() != "init" {
				continue
			}
			mm, ok := sts[0].Val.(*ssa.MakeMap)
			if !ok {
				continue
			}
			tab := map[string]*ssa.Function{}
			okTab := true
			for _, u := range updates[mm] {
				k, isK := u.mu.Key.(*ssa.Const)
				if !isK || k.Value == nil || k.Value.Kind() != constant.String {
					okTab = false
					break
				}
				f := funcArg(u.mu.Value)
				if f == nil {
					okTab = false
					break
				}
				tab[constant.StringVal(k.Value)] = f
			}
			// never updated through a load of the global elsewhere
			for m, us := range updates {
				if ld, ok := m.(*ssa.UnOp); ok && ld.X == ssa.Value(gg) && len(us) > 0 {
					okTab = false
				}
			}
			if okTab && len(tab) > 0 {
				p.funcTables[gg] = tab
			}
		}
	}
	return p.funcTables[g]
}

// returnedFuncs: v is (a component of) the result of a static call of a module function all of whose returns
// deliver, in that position, a function literal or named function: those functions.
func returnedFuncs(v ssa.Value) []*ssa.Function {
	// a function-typed field of a struct value that a module function returned ("p := t.payload(); p.run()")
	if src, fld, ok := structFieldOf(v); ok {
		return returnedStructFieldFuncs(src, fld)
	}
	// a local function variable assigned one of several literals ("run := func(){A}; if c { run = func(){B} }; run()")
	if ph, ok := v.(*ssa.Phi); ok {
		var out []*ssa.Function
		seen := map[*ssa.Function]bool{}
		for _, ev := range ph.Edges {
			f := funcArg(ev)
			if f == nil {
				return nil
			}
			if !seen[f] {
				seen[f] = true
				out = append(out, f)
			}
		}
		return out
	}
	idx := -1
	if ex, ok := v.(*ssa.Extract); ok {
		idx = ex.Index
		v = ex.Tuple
	}
	call, ok := v.(*ssa.Call)
	if !ok {
		return nil
	}
	fac := call.Call.StaticCallee()
	if fac == nil || fac.Blocks == nil {
		return nil
	}
	var out []*ssa.Function
	seen := map[*ssa.Function]bool{}
	for _, b := range fac.Blocks {
		for _, in := range b.Instrs {
			rt, ok := in.(*ssa.Return)
			if !ok {
				continue
			}
			pos := idx
			if pos < 0 {
				if len(rt.Results) != 1 {
					return nil
				}
				pos = 0
			}
			if pos >= len(rt.Results) {
				return nil
			}
			f := funcArg(rt.Results[pos])
			if f == nil {
				// a named result spilled to a cell, or anything else: give up (the call stays opaque)
				return nil
			}
			if !seen[f] {
				seen[f] = true
				out = append(out, f)
			}
		}
	}
	return out
}

// structFieldOf: v reads field fld of a struct value src - directly (Field) or through a local variable that
// holds a copy of it (load of FieldAddr of an Alloc with exactly one whole-struct store).
func structFieldOf(v ssa.Value) (src ssa.Value, fld int, ok bool) {
	switch x := v.(type) {
	case *ssa.Field:
		return x.X, x.Field, true
	case *ssa.UnOp:
		fa, isFA := x.X.(*ssa.FieldAddr)
		if !isFA {
			return nil, 0, false
		}
		al, isAl := fa.X.(*ssa.Alloc)
		if !isAl || al.Referrers() == nil {
			return nil, 0, false
		}
		var whole []ssa.Value
		for _, r := range *al.Referrers() {
			if st, ok := r.(*ssa.Store); ok && st.Addr == ssa.Value(al) {
				whole = append(whole, st.Val)
			}
		}
		if len(whole) == 1 {
			return whole[0], fa.Field, true
		}
	}
	return nil, 0, false
}

// returnedStructFieldFuncs: src is the struct result of a static call of a module function; the function
// literals stored into field fld of the struct literals that callee returns.
func returnedStructFieldFuncs(src ssa.Value, fld int) []*ssa.Function {
	call, ok := src.(*ssa.Call)
	if !ok {
		return nil
	}
	fac := call.Call.StaticCallee()
	if fac == nil || fac.Blocks == nil {
		return nil
	}
	var out []*ssa.Function
	seen := map[*ssa.Function]bool{}
	for _, b := range fac.Blocks {
		for _, in := range b.Instrs {
			rt, ok := in.(*ssa.Return)
			if !ok {
				continue
			}
			if len(rt.Results) != 1 {
				return nil
			}
			ld, ok := rt.Results[0].(*ssa.UnOp)
			if !ok {
				return nil
			}
			al, ok := ld.X.(*ssa.Alloc)
			if !ok || al.Referrers() == nil {
				return nil
			}
			var f *ssa.Function
			n := 0
			for _, r := range *al.Referrers() {
				fa, ok := r.(*ssa.FieldAddr)
				if !ok || fa.Field != fld || fa.Referrers() == nil {
					continue
				}
				for _, rr := range *fa.Referrers() {
					if st, ok := rr.(*ssa.Store); ok && st.Addr == ssa.Value(fa) {
						n++
						f = funcArg(st.Val)
					}
				}
			}
			if n != 1 || f == nil {
				return nil
			}
			if !seen[f] {
				seen[f] = true
				out = append(out, f)
			}
		}
	}
	return out
}
