package core

import (
	"encoding/json"
	"fmt"
	"os"
	"path/filepath"
	"sort"
	"strings"
	"time"
)

type Status string

const (
	Discharged Status = "discharged"
	Violated   Status = "violated"
	Undecided  Status = "undecided"
)

// Obligation is one rule instance.  Key = <property>.<rule>@<construct>; never contains a line number.
type Obligation struct {
	Key    string `json:"key"`
	Desc   string `json:"rule"`
	Status Status `json:"verdict"`
	Where  string `json:"where,omitempty"`
	Detail string `json:"detail,omitempty"`
	Sites  int    `json:"sites"`
	Known  string `json:"known_finding,omitempty"`
}

type Report struct {
	Prop        string
	Tier        string
	Seed        int64
	Obls        []*Obligation
	Analysed    map[string]interface{}
	Explanation string
	NotDecided  string
	Assumptions []string
	Trusted     []string
	Notes       []string
	Infra       []string // infrastructure failures (exit 2)
	start       time.Time
	byKey       map[string]*Obligation
}

func NewReport(prop, tier string, seed int64) *Report {
	return &Report{Prop: prop, Tier: tier, Seed: seed, Analysed: map[string]interface{}{}, start: time.Now(), byKey: map[string]*Obligation{}}
}

// Ob opens (or returns) the obligation <prop>.<rule>@<construct>.  A fresh obligation is
// Undecided with zero sites until a verdict is recorded, so a rule that matches nothing never passes.
func (r *Report) Ob(rule, construct, desc string) *Obligation {
	key := fmt.Sprintf("%s.%s@%s", r.Prop, rule, construct)
	if o := r.byKey[key]; o != nil {
		return o
	}
	o := &Obligation{Key: key, Desc: desc, Status: Undecided, Detail: "no site matched this rule (anchor unresolved or idiom not recognised)"}
	r.byKey[key] = o
	r.Obls = append(r.Obls, o)
	return o
}

// OK records a discharged site; a violated/undecided verdict recorded earlier is kept.
func (o *Obligation) OK(where, detail string) *Obligation {
	o.Sites++
	if o.Status == Undecided && o.Sites == 1 {
		o.Status, o.Where, o.Detail = Discharged, where, detail
	} else if o.Status == Discharged && detail != "" && len(o.Detail) < 600 {
		o.Detail += "; " + detail
	}
	return o
}

func (o *Obligation) Fail(where, detail string) *Obligation {
	o.Sites++
	if o.Status != Violated {
		o.Status, o.Where, o.Detail = Violated, where, detail
	} else {
		o.Detail += " || " + where + ": " + detail
	}
	return o
}

func (o *Obligation) Unknown(where, detail string) *Obligation {
	o.Sites++
	if o.Status != Violated {
		if o.Status == Undecided && o.Sites > 1 {
			o.Detail += " || " + where + ": " + detail
		} else {
			o.Status, o.Where, o.Detail = Undecided, where, detail
		}
	}
	return o
}

// Check is a convenience: OK when cond holds, Fail otherwise.
func (o *Obligation) Check(cond bool, where, okDetail, failDetail string) *Obligation {
	if cond {
		return o.OK(where, okDetail)
	}
	return o.Fail(where, failDetail)
}

// ---------------------------------------------------------------------------

type KnownFinding struct {
	Property string `json:"property"`
	Key      string `json:"key"`
	Status   string `json:"status"` // "known" or "fixed"
	ID       string `json:"id"`
	What     string `json:"what"`
	Input    string `json:"failing_input"`
	Commit   string `json:"commit,omitempty"`
	Line     string `json:"line,omitempty"` // for fixed entries: "fixed: property=<id> <commit> <what failed>"
}

type KnownFile struct {
	Comment  string         `json:"comment"`
	Findings []KnownFinding `json:"findings"`
}

func LoadKnown(path string) (*KnownFile, error) {
	b, err := os.ReadFile(path)
	if err != nil {
		return nil, err
	}
	var k KnownFile
	if err := json.Unmarshal(b, &k); err != nil {
		return nil, err
	}
	return &k, nil
}

// Finish prints verdict lines, writes the evidence file and returns the process exit code.
func (r *Report) Finish(verifDir string, known *KnownFile, cmdline string) int {
	sort.SliceStable(r.Obls, func(i, j int) bool { return r.Obls[i].Key < r.Obls[j].Key })
	knownKeys := map[string]KnownFinding{}
	if known != nil {
		for _, k := range known.Findings {
			if k.Status == "known" && k.Property == r.Prop {
				knownKeys[k.Key] = k
			}
		}
	}
	nViol, nDis, nKnown, distinct := 0, 0, 0, 0
	var violLines []string
	replayDir := filepath.Join(verifDir, "evidence", "replay")
	for _, o := range r.Obls {
		if o.Sites > 0 {
			distinct++
		}
		switch o.Status {
		case Discharged:
			nDis++
		default:
			if k, ok := knownKeys[o.Key]; ok && o.Status == Violated {
				o.Known = k.ID
				nKnown++
				fmt.Printf("KNOWN-FINDING: property=%s %s %s (%s) failing input: %s\n", r.Prop, o.Key, k.What, o.Where, k.Input)
				continue
			}
			nViol++
			tag := "VIOLATED"
			if o.Status == Undecided {
				tag = "UNDECIDED"
			}
			fmt.Printf("%s %s\n    rule: %s\n    at:   %s\n    why:  %s\n", tag, o.Key, o.Desc, o.Where, o.Detail)
			os.MkdirAll(replayDir, 0o755)
			rp := filepath.Join(replayDir, fmt.Sprintf("%s-%d.json", r.Prop, nViol))
			rb, _ := json.MarshalIndent(map[string]interface{}{
				"property": r.Prop, "obligation": o, "how_to_rerun": fmt.Sprintf("%s/bin/scicheck -replay %s", verifDir, rp),
				"note": "static finding: the construct named in 'where' of /repo's current tree violates the rule; re-evaluated against the current tree on replay",
			}, "", " ")
			os.WriteFile(rp, rb, 0o644)
			violLines = append(violLines, fmt.Sprintf("VIOLATION property=%s replay=%s", r.Prop, rp))
		}
	}
	for _, l := range violLines {
		fmt.Println(l)
	}
	// evidence
	samples := make([]interface{}, 0, len(r.Obls))
	for _, o := range r.Obls {
		samples = append(samples, o)
	}
	expl := r.Explanation
	if r.NotDecided != "" {
		expl += " NOT DECIDED by this check: " + r.NotDecided
	}
	cov := map[string]interface{}{
		"explanation":             expl,
		"obligations":             len(r.Obls),
		"discharged":              nDis,
		"evaluations":             len(r.Obls),
		"distinct_nontrivial":     distinct,
		"rule":                    "one case = one obligation <property>.<rule>@<construct>; non-trivial = the rule matched at least one site in /repo's current source (a rule with zero sites is reported, never passed)",
		"samples":                 samples,
		"analysed":                r.Analysed,
		"known_findings_reported": nKnown,
		"checker_cmd":             cmdline,
		"trusted_base":            r.Trusted,
		"notes":                   r.Notes,
		"exhaustive":              false,
	}
	ev := map[string]interface{}{
		"property_id": r.Prop, "tier": r.Tier, "seed": r.Seed, "level": "other",
		"coverage": cov, "assumptions": r.Assumptions,
		"wall_s": time.Since(r.start).Seconds(), "violations": nViol,
	}
	eb, _ := json.MarshalIndent(ev, "", " ")
	os.MkdirAll(filepath.Join(verifDir, "evidence"), 0o755)
	if err := os.WriteFile(filepath.Join(verifDir, "evidence", r.Prop+".json"), eb, 0o644); err != nil {
		fmt.Fprintf(os.Stderr, "cannot write evidence: %v\n", err)
		return 2
	}
	if len(r.Infra) > 0 {
		fmt.Printf("INFRASTRUCTURE FAILURE (no verdict) property=%s: %s\n", r.Prop, strings.Join(r.Infra, "; "))
		return 2
	}
	fmt.Printf("%s %s: obligations=%d discharged=%d known-findings=%d violations=%d (%.1fs)\n", r.Prop, r.Tier, len(r.Obls), nDis, nKnown, nViol, time.Since(r.start).Seconds())
	if nViol > 0 {
		return 1
	}
	return 0
}
