package core

import (
	"fmt"
	"go/token"
	"sort"

	"golang.org/x/tools/go/ssa"
)

// ----------------------------------------------------------------------------
// Loop shape helpers (per function, on the no-return-pruned CFG).
// ----------------------------------------------------------------------------

type Loop struct {
	Fn     *ssa.Function
	Header *ssa.BasicBlock
	Blocks map[*ssa.BasicBlock]bool
}

func reaches(from, to *ssa.BasicBlock, within func(*ssa.BasicBlock) bool) bool {
	seen := map[*ssa.BasicBlock]bool{from: true}
	work := []*ssa.BasicBlock{from}
	for len(work) > 0 {
		b := work[len(work)-1]
		work = work[:len(work)-1]
		for _, s := range b.Succs {
			if s == to {
				return true
			}
			if !seen[s] && (within == nil || within(s)) {
				seen[s] = true
				work = append(work, s)
			}
		}
	}
	return false
}

// naturalLoop returns the natural loop with header h (nil if h has no back edge).
func naturalLoop(h *ssa.BasicBlock) *Loop {
	l := &Loop{Fn: h.Parent(), Header: h, Blocks: map[*ssa.BasicBlock]bool{h: true}}
	var work []*ssa.BasicBlock
	for _, p := range h.Preds {
		if h.Dominates(p) {
			if !l.Blocks[p] {
				l.Blocks[p] = true
				work = append(work, p)
			}
		}
	}
	if len(work) == 0 {
		// self loop?
		self := false
		for _, p := range h.Preds {
			if p == h {
				self = true
			}
		}
		if !self {
			return nil
		}
	}
	for len(work) > 0 {
		b := work[len(work)-1]
		work = work[:len(work)-1]
		for _, p := range b.Preds {
			if !l.Blocks[p] && h.Dominates(p) {
				l.Blocks[p] = true
				work = append(work, p)
			}
		}
	}
	return l
}

// InnermostLoop returns the innermost natural loop containing instruction in (nil if none).
func InnermostLoop(in ssa.Instruction) *Loop {
	b := in.Block()
	var best *Loop
	for _, h := range b.Parent().Blocks {
		if !h.Dominates(b) {
			continue
		}
		l := naturalLoop(h)
		if l == nil || !l.Blocks[b] {
			continue
		}
		if best == nil || best.Header.Dominates(h) {
			best = l
		}
	}
	return best
}

// LoopsOf returns all natural loops containing in, innermost first.
func LoopsOf(in ssa.Instruction) []*Loop {
	b := in.Block()
	var out []*Loop
	for _, h := range b.Parent().Blocks {
		if h.Dominates(b) {
			if l := naturalLoop(h); l != nil && l.Blocks[b] {
				out = append(out, l)
			}
		}
	}
	// innermost first: header dominated by more headers
	for i := 0; i < len(out); i++ {
		for j := i + 1; j < len(out); j++ {
			if out[i].Header.Dominates(out[j].Header) && out[i] != out[j] {
				out[i], out[j] = out[j], out[i]
			}
		}
	}
	return out
}

// deadEnd: no Return of the function (and no block of the loop) is reachable from b
// once blocks are cut at their first never-returning call.
func (p *Prog) deadEnd(b *ssa.BasicBlock, l *Loop) bool {
	seen := map[*ssa.BasicBlock]bool{b: true}
	work := []*ssa.BasicBlock{b}
	for len(work) > 0 {
		x := work[len(work)-1]
		work = work[:len(work)-1]
		if l != nil && l.Blocks[x] {
			return false
		}
		cut := false
		for _, in := range x.Instrs {
			if p.CallNeverReturns(in) {
				cut = true
				break
			}
			if _, ok := in.(*ssa.Return); ok {
				return false
			}
		}
		if cut {
			continue
		}
		for _, s := range x.Succs {
			if !seen[s] {
				seen[s] = true
				work = append(work, s)
			}
		}
	}
	return true
}

// EarlyExits lists the edges that leave loop l from a block other than its header and do not
// end in a never-returning call: break, return or goto out of the loop body.
func (p *Prog) EarlyExits(l *Loop) []string {
	var out []string
	for b := range l.Blocks {
		for _, s := range b.Succs {
			if l.Blocks[s] {
				continue
			}
			if b == l.Header {
				continue
			}
			if p.deadEnd(s, l) {
				continue
			}
			pos := "?"
			if len(b.Instrs) > 0 {
				pos = p.InstrPos(b.Instrs[len(b.Instrs)-1])
			}
			out = append(out, fmt.Sprintf("edge out of the loop body at %s (block %d -> %d)", pos, b.Index, s.Index))
		}
		// a return inside the loop body
		for _, in := range b.Instrs {
			if _, ok := in.(*ssa.Return); ok {
				out = append(out, fmt.Sprintf("return inside the loop body at %s", p.InstrPos(in)))
			}
		}
	}
	return out
}

// HeaderExitIsExhaustion: the header's only branch is the range/counted-loop continuation test
// (ok-flag of a Next, or an index comparison against len/const); returns a description.
func HeaderTest(l *Loop) (kind string, iff *ssa.If) {
	h := l.Header
	if len(h.Instrs) == 0 {
		return "", nil
	}
	iff, ok := h.Instrs[len(h.Instrs)-1].(*ssa.If)
	if !ok {
		return "none", nil
	}
	switch c := iff.Cond.(type) {
	case *ssa.Extract:
		if _, ok := c.Tuple.(*ssa.Next); ok && c.Index == 0 {
			return "range", iff
		}
	case *ssa.BinOp:
		if c.Op == token.LSS || c.Op == token.LEQ || c.Op == token.GTR || c.Op == token.GEQ || c.Op == token.NEQ {
			return "counted", iff
		}
	}
	return "other", iff
}

// OncePerIteration: block-level check that instruction in is executed on every iteration of loop l
// that runs to the next iteration: its block dominates every latch (source of a back edge).
func OncePerIteration(l *Loop, in ssa.Instruction) bool {
	b := in.Block()
	for _, p := range l.Header.Preds {
		if l.Blocks[p] && !b.Dominates(p) {
			return false
		}
	}
	// and not nested in an inner loop
	for _, h := range l.Fn.Blocks {
		if h != l.Header && l.Blocks[h] {
			if il := naturalLoop(h); il != nil && il.Blocks[b] && l.Header.Dominates(h) {
				return false
			}
		}
	}
	return true
}

// CountedLoopBound recognises the counted loops that run exactly n times for a loop-invariant n -
// `for i := 0; i < n; i++`, `for i := 1; i <= n; i++`, `for r := n; r > 0; r--`, `for r := n; r >= 1; r--`
// (and the mirrored comparisons) - around op, where op runs exactly once per iteration and nothing leaves
// the loop early; it returns n.  why explains a failure.
func (p *Prog) CountedLoopBound(op ssa.Instruction) (bound ssa.Value, why string) {
	l := InnermostLoop(op)
	if l == nil {
		return nil, "not inside a loop"
	}
	kind, iff := HeaderTest(l)
	if kind != "counted" {
		return nil, "the enclosing loop is not a counted loop (header test kind: " + kind + ")"
	}
	cmp := iff.Cond.(*ssa.BinOp)
	// normalise to  idx OP other
	var idx *ssa.Phi
	var other ssa.Value
	opTok := cmp.Op
	if ph, ok := cmp.X.(*ssa.Phi); ok && ph.Block() == l.Header {
		idx, other = ph, cmp.Y
	} else if ph, ok := cmp.Y.(*ssa.Phi); ok && ph.Block() == l.Header {
		idx, other = ph, cmp.X
		switch opTok {
		case token.LSS:
			opTok = token.GTR
		case token.GTR:
			opTok = token.LSS
		case token.LEQ:
			opTok = token.GEQ
		case token.GEQ:
			opTok = token.LEQ
		}
	}
	if idx == nil {
		return nil, "loop index is not a header phi"
	}
	switch {
	case l.Blocks[l.Header.Succs[0]] && !l.Blocks[l.Header.Succs[1]]:
		// `for idx OP bound { ... }`: the body is entered when the test holds
	case !l.Blocks[l.Header.Succs[0]] && l.Blocks[l.Header.Succs[1]]:
		// `for { if idx OP bound { break }; ... }`: the body is entered when the test fails
		switch opTok {
		case token.LSS:
			opTok = token.GEQ
		case token.GEQ:
			opTok = token.LSS
		case token.GTR:
			opTok = token.LEQ
		case token.LEQ:
			opTok = token.GTR
		default:
			return nil, "loop test not recognised"
		}
	default:
		return nil, "the loop test does not separate the loop body from the exit"
	}
	var init ssa.Value
	step := int64(0)
	for i, e := range idx.Edges {
		pred := l.Header.Preds[i]
		if l.Blocks[pred] {
			inc, ok := e.(*ssa.BinOp)
			if !ok || inc.X != ssa.Value(idx) {
				return nil, "loop index is not stepped by a constant"
			}
			k, ok := inc.Y.(*ssa.Const)
			if !ok || k.Value == nil {
				return nil, "loop index step is not a constant"
			}
			switch inc.Op {
			case token.ADD:
				step = k.Int64()
			case token.SUB:
				step = -k.Int64()
			default:
				return nil, "loop index is not stepped by +1/-1"
			}
		} else {
			init = e
		}
	}
	constOf := func(v ssa.Value) (int64, bool) {
		k, ok := v.(*ssa.Const)
		if !ok || k.Value == nil {
			return 0, false
		}
		return k.Int64(), true
	}
	ic, initConst := constOf(init)
	oc, otherConst := constOf(other)
	switch {
	case step == 1 && initConst && !otherConst && ((opTok == token.LSS && ic == 0) || (opTok == token.LEQ && ic == 1)):
		bound = other
	case step == -1 && !initConst && otherConst && ((opTok == token.GTR && oc == 0) || (opTok == token.GEQ && oc == 1)):
		bound = init
	default:
		return nil, "the loop does not run exactly n times for a loop-invariant n (init/step/test not one of the recognised counted forms)"
	}
	if bi, ok := bound.(ssa.Instruction); ok && l.Blocks[bi.Block()] {
		return nil, "loop bound is recomputed inside the loop"
	}
	if ex := p.EarlyExits(l); len(ex) > 0 {
		return nil, "loop can be left early: " + ex[0]
	}
	if !OncePerIteration(l, op) {
		return nil, "the operation is not executed on every iteration"
	}
	return bound, ""
}

// ----------------------------------------------------------------------------
// Loops along the calling-context chain of the expanded CFG: an action that was
// extracted into a helper is still "inside" the loop that calls the helper.
// ----------------------------------------------------------------------------

type LoopAt struct {
	L  *Loop
	At *Node // the node, in the loop's own function context, that is the action or the call (chain) containing it
}

// EnclLoops lists the loops around n, nearest first: the loops of n's own function around n, then the loops
// around the call site of n's function in its caller, and so on up to the root (callbacks of modelled
// higher-order functions and deferred calls end the chain at their call site's function like ordinary calls).
func (g *XG) EnclLoops(n *Node) []LoopAt {
	var out []LoopAt
	for x := n; x != nil; x = x.Ctx.CallNode {
		if x.Instr != nil {
			for _, l := range LoopsOf(x.Instr) {
				out = append(out, LoopAt{l, x})
			}
		}
		if x.Ctx.Parent == nil {
			break
		}
	}
	return out
}

// NodeOf returns the expanded-CFG node of instruction in within context c (nil if pruned).
func (g *XG) NodeOf(c *Ctx, in ssa.Instruction) *Node {
	if g.byInstr == nil {
		g.byInstr = map[instrKey]*Node{}
		for _, n := range g.Nodes {
			if n.Instr != nil && (n.Kind == KInstr || n.Kind == KCall || n.Kind == KExit || n.Kind == KRet || n.Kind == KRootRet) && !n.Deferred {
				k := instrKey{n.Ctx, n.Instr}
				if _, dup := g.byInstr[k]; !dup {
					g.byInstr[k] = n
				}
			}
		}
	}
	return g.byInstr[instrKey{c, in}]
}

// FirstNodeOf returns the first node of block b in context c.
func (g *XG) FirstNodeOf(c *Ctx, b *ssa.BasicBlock) *Node {
	for _, in := range b.Instrs {
		if _, isPhi := in.(*ssa.Phi); isPhi {
			continue
		}
		if n := g.NodeOf(c, in); n != nil {
			return n
		}
		// an inlined call has kind KCall and is registered; a pruned instruction ends the block
	}
	return nil
}

// LoopTest returns the node that computes the loop's continuation condition (the `ok` of a range step or the
// index comparison) and the boolean value of that condition for which the loop body is entered.
func (g *XG) LoopTest(la LoopAt) (test *Node, enter bool, ok bool) {
	_, iff := HeaderTest(la.L)
	if iff == nil {
		return nil, false, false
	}
	ci, isInstr := iff.Cond.(ssa.Instruction)
	if !isInstr {
		return nil, false, false
	}
	h := la.L.Header
	enter = la.L.Blocks[h.Succs[0]] && !(la.L.Blocks[h.Succs[1]] && h.Succs[1] != h)
	if !la.L.Blocks[h.Succs[0]] && la.L.Blocks[h.Succs[1]] {
		enter = false
	}
	n := g.NodeOf(la.At.Ctx, ci)
	if n == nil {
		return nil, false, false
	}
	return n, enter, true
}

// LoopExitNodes returns the nodes entered when the loop is left through its header test.
func (g *XG) LoopExitNodes(la LoopAt) []*Node {
	_, iff := HeaderTest(la.L)
	if iff == nil {
		return nil
	}
	ifn := g.NodeOf(la.At.Ctx, iff)
	if ifn == nil || len(ifn.Succs) != 2 {
		return nil
	}
	var out []*Node
	for i, s := range iff.Block().Succs {
		if !la.L.Blocks[s] {
			out = append(out, ifn.Succs[i])
		}
	}
	return out
}

// ExitEdge is an edge that leaves a loop from a block other than through the header test.
type ExitEdge struct {
	From, To *ssa.BasicBlock
}

// EarlyExitEdges lists the edges leaving loop l from its body (not the header's own test) that do not
// structurally end in a never-returning call.
func (p *Prog) EarlyExitEdges(l *Loop) []ExitEdge {
	var out []ExitEdge
	for b := range l.Blocks {
		for _, s := range b.Succs {
			if l.Blocks[s] || b == l.Header {
				continue
			}
			if p.deadEnd(s, l) {
				continue
			}
			out = append(out, ExitEdge{b, s})
		}
	}
	sort.Slice(out, func(i, j int) bool {
		if out[i].From.Index != out[j].From.Index {
			return out[i].From.Index < out[j].From.Index
		}
		return out[i].To.Index < out[j].To.Index
	})
	return out
}

// ExitBlockOf returns the loops for which in's block is a direct exit target (entered from a loop
// block other than through the loop, and not itself part of the loop): an action placed there runs
// on the way out of the loop, i.e. at most once.
func ExitBlockOf(in ssa.Instruction) []*Loop {
	b := in.Block()
	var out []*Loop
	for _, h := range b.Parent().Blocks {
		if !h.Dominates(b) || h == b {
			continue
		}
		l := naturalLoop(h)
		if l == nil || l.Blocks[b] {
			continue
		}
		for _, p := range b.Preds {
			if l.Blocks[p] && p != h {
				out = append(out, l)
				break
			}
		}
	}
	return out
}
