package core

import (
	"fmt"
	"go/token"

	"golang.org/x/tools/go/ssa"
)

// ----------------------------------------------------------------------------
// Loop shape helpers (per function, on the no-return-pruned CFG).
// ----------------------------------------------------------------------------

type Loop struct {
	Fn     *ssa.Function
	Header *ssa.BasicBlock
	Blocks map[*ssa.BasicBlock]bool
}

func reaches(from, to *ssa.BasicBlock, within func(*ssa.BasicBlock) bool) bool {
	seen := map[*ssa.BasicBlock]bool{from: true}
	work := []*ssa.BasicBlock{from}
	for len(work) > 0 {
		b := work[len(work)-1]
		work = work[:len(work)-1]
		for _, s := range b.Succs {
			if s == to {
				return true
			}
			if !seen[s] && (within == nil || within(s)) {
				seen[s] = true
				work = append(work, s)
			}
		}
	}
	return false
}

// naturalLoop returns the natural loop with header h (nil if h has no back edge).
func naturalLoop(h *ssa.BasicBlock) *Loop {
	l := &Loop{Fn: h.Parent(), Header: h, Blocks: map[*ssa.BasicBlock]bool{h: true}}
	var work []*ssa.BasicBlock
	for _, p := range h.Preds {
		if h.Dominates(p) {
			if !l.Blocks[p] {
				l.Blocks[p] = true
				work = append(work, p)
			}
		}
	}
	if len(work) == 0 {
		// self loop?
		self := false
		for _, p := range h.Preds {
			if p == h {
				self = true
			}
		}
		if !self {
			return nil
		}
	}
	for len(work) > 0 {
		b := work[len(work)-1]
		work = work[:len(work)-1]
		for _, p := range b.Preds {
			if !l.Blocks[p] && h.Dominates(p) {
				l.Blocks[p] = true
				work = append(work, p)
			}
		}
	}
	return l
}

// InnermostLoop returns the innermost natural loop containing instruction in (nil if none).
func InnermostLoop(in ssa.Instruction) *Loop {
	b := in.Block()
	var best *Loop
	for _, h := range b.Parent().Blocks {
		if !h.Dominates(b) {
			continue
		}
		l := naturalLoop(h)
		if l == nil || !l.Blocks[b] {
			continue
		}
		if best == nil || best.Header.Dominates(h) {
			best = l
		}
	}
	return best
}

// LoopsOf returns all natural loops containing in, innermost first.
func LoopsOf(in ssa.Instruction) []*Loop {
	b := in.Block()
	var out []*Loop
	for _, h := range b.Parent().Blocks {
		if h.Dominates(b) {
			if l := naturalLoop(h); l != nil && l.Blocks[b] {
				out = append(out, l)
			}
		}
	}
	// innermost first: header dominated by more headers
	for i := 0; i < len(out); i++ {
		for j := i + 1; j < len(out); j++ {
			if out[i].Header.Dominates(out[j].Header) && out[i] != out[j] {
				out[i], out[j] = out[j], out[i]
			}
		}
	}
	return out
}

// deadEnd: no Return of the function (and no block of the loop) is reachable from b
// once blocks are cut at their first never-returning call.
func (p *Prog) deadEnd(b *ssa.BasicBlock, l *Loop) bool {
	seen := map[*ssa.BasicBlock]bool{b: true}
	work := []*ssa.BasicBlock{b}
	for len(work) > 0 {
		x := work[len(work)-1]
		work = work[:len(work)-1]
		if l != nil && l.Blocks[x] {
			return false
		}
		cut := false
		for _, in := range x.Instrs {
			if p.CallNeverReturns(in) {
				cut = true
				break
			}
			if _, ok := in.(*ssa.Return); ok {
				return false
			}
		}
		if cut {
			continue
		}
		for _, s := range x.Succs {
			if !seen[s] {
				seen[s] = true
				work = append(work, s)
			}
		}
	}
	return true
}

// EarlyExits lists the edges that leave loop l from a block other than its header and do not
// end in a never-returning call: break, return or goto out of the loop body.
func (p *Prog) EarlyExits(l *Loop) []string {
	var out []string
	for b := range l.Blocks {
		for _, s := range b.Succs {
			if l.Blocks[s] {
				continue
			}
			if b == l.Header {
				continue
			}
			if p.deadEnd(s, l) {
				continue
			}
			pos := "?"
			if len(b.Instrs) > 0 {
				pos = p.InstrPos(b.Instrs[len(b.Instrs)-1])
			}
			out = append(out, fmt.Sprintf("edge out of the loop body at %s (block %d -> %d)", pos, b.Index, s.Index))
		}
		// a return inside the loop body
		for _, in := range b.Instrs {
			if _, ok := in.(*ssa.Return); ok {
				out = append(out, fmt.Sprintf("return inside the loop body at %s", p.InstrPos(in)))
			}
		}
	}
	return out
}

// HeaderExitIsExhaustion: the header's only branch is the range/counted-loop continuation test
// (ok-flag of a Next, or an index comparison against len/const); returns a description.
func HeaderTest(l *Loop) (kind string, iff *ssa.If) {
	h := l.Header
	if len(h.Instrs) == 0 {
		return "", nil
	}
	iff, ok := h.Instrs[len(h.Instrs)-1].(*ssa.If)
	if !ok {
		return "none", nil
	}
	switch c := iff.Cond.(type) {
	case *ssa.Extract:
		if _, ok := c.Tuple.(*ssa.Next); ok && c.Index == 0 {
			return "range", iff
		}
	case *ssa.BinOp:
		if c.Op == token.LSS || c.Op == token.LEQ || c.Op == token.GTR || c.Op == token.GEQ || c.Op == token.NEQ {
			return "counted", iff
		}
	}
	return "other", iff
}

// OncePerIteration: block-level check that instruction in is executed on every iteration of loop l
// that runs to the next iteration: its block dominates every latch (source of a back edge).
func OncePerIteration(l *Loop, in ssa.Instruction) bool {
	b := in.Block()
	for _, p := range l.Header.Preds {
		if l.Blocks[p] && !b.Dominates(p) {
			return false
		}
	}
	// and not nested in an inner loop
	for _, h := range l.Fn.Blocks {
		if h != l.Header && l.Blocks[h] {
			if il := naturalLoop(h); il != nil && il.Blocks[b] && l.Header.Dominates(h) {
				return false
			}
		}
	}
	return true
}

// CountedLoopBound recognises `for i := 0; i < n; i++ { ... op ... }` around op, where op runs exactly
// once per iteration and nothing leaves the loop early; it returns n.  why explains a failure.
func (p *Prog) CountedLoopBound(op ssa.Instruction) (bound ssa.Value, why string) {
	l := InnermostLoop(op)
	if l == nil {
		return nil, "not inside a loop"
	}
	kind, iff := HeaderTest(l)
	if kind != "counted" {
		return nil, "the enclosing loop is not a counted loop (header test kind: " + kind + ")"
	}
	cmp := iff.Cond.(*ssa.BinOp)
	var idx *ssa.Phi
	switch cmp.Op {
	case token.LSS:
		idx, _ = cmp.X.(*ssa.Phi)
		bound = cmp.Y
	case token.GTR:
		idx, _ = cmp.Y.(*ssa.Phi)
		bound = cmp.X
	default:
		return nil, "loop condition is not a strict `i < n` comparison (" + cmp.Op.String() + ")"
	}
	if idx == nil || idx.Block() != l.Header {
		return nil, "loop index is not a header phi"
	}
	// the true branch must enter the loop
	if !l.Blocks[l.Header.Succs[0]] || l.Blocks[l.Header.Succs[1]] {
		return nil, "the `i < n` true edge does not enter the loop body"
	}
	for i, e := range idx.Edges {
		pred := l.Header.Preds[i]
		if l.Blocks[pred] {
			inc, ok := e.(*ssa.BinOp)
			if !ok || inc.Op != token.ADD || inc.X != ssa.Value(idx) {
				return nil, "loop index is not incremented by one per iteration"
			}
			if k, ok := inc.Y.(*ssa.Const); !ok || k.Int64() != 1 {
				return nil, "loop index step is not 1"
			}
		} else {
			if k, ok := e.(*ssa.Const); !ok || k.Value == nil || k.Int64() != 0 {
				return nil, "loop index does not start at 0"
			}
		}
	}
	if bi, ok := bound.(ssa.Instruction); ok && l.Blocks[bi.Block()] {
		return nil, "loop bound is recomputed inside the loop"
	}
	if ex := p.EarlyExits(l); len(ex) > 0 {
		return nil, "loop can be left early: " + ex[0]
	}
	if !OncePerIteration(l, op) {
		return nil, "the operation is not executed on every iteration"
	}
	return bound, ""
}

// ExitBlockOf returns the loops for which in's block is a direct exit target (entered from a loop
// block other than through the loop, and not itself part of the loop): an action placed there runs
// on the way out of the loop, i.e. at most once.
func ExitBlockOf(in ssa.Instruction) []*Loop {
	b := in.Block()
	var out []*Loop
	for _, h := range b.Parent().Blocks {
		if !h.Dominates(b) || h == b {
			continue
		}
		l := naturalLoop(h)
		if l == nil || l.Blocks[b] {
			continue
		}
		for _, p := range b.Preds {
			if l.Blocks[p] && p != h {
				out = append(out, l)
				break
			}
		}
	}
	return out
}
