package core

import (
	"fmt"
	"go/constant"
	"go/token"
	"go/types"
	"os"
	"sort"
	"strconv"
	"strings"

	"golang.org/x/tools/go/ssa"
)

// ----------------------------------------------------------------------------
// E-VF / E-TPL: symbolic value expressions.  A value is sliced backwards through
// phis, string concatenation, conversions, tuple extraction, memory cells of
// address-taken locals, calls (kept as call nodes, optionally expanded into the
// callee's return expression) and - upwards - through the calling contexts of the
// expanded CFG (a parameter is replaced by the argument at its call site).
// ----------------------------------------------------------------------------

type Sym struct {
	frame  *frame // for "func": the frame in which the closure value was created
	Op     string // lit int concat call field elem param global phi cycle opaque extract rangekey rangeval nil cell free
	Lit    string
	Name   string
	Args   []*Sym
	Val    ssa.Value
	Callee *ssa.Function
	Fn     *ssa.Function // function the value lives in
}

type frame struct {
	fn     *ssa.Function
	args   []*Sym // bindings of fn.Params (nil entry = unbound)
	free   []*Sym // bindings of fn.FreeVars
	parent *frame
}

type Symbolizer struct {
	P *Prog
	// Expand: expand calls to this repo function into its return expression(s).
	Expand   func(fn *ssa.Function) bool
	MaxDepth int
	active   map[string]bool
	depth    int
	globals  map[*ssa.Global][]*ssa.Store
}

func (p *Prog) NewSymbolizer(expand func(fn *ssa.Function) bool) *Symbolizer {
	return &Symbolizer{P: p, Expand: expand, MaxDepth: 8, active: map[string]bool{}}
}

// InCtx symbolises v as seen in context c of an expanded CFG (parameters resolved upwards).
func (s *Symbolizer) InCtx(c *Ctx, v ssa.Value) *Sym {
	return s.sym(s.frameOf(c), v)
}

// InFunc symbolises v inside fn with unbound parameters.
func (s *Symbolizer) InFunc(fn *ssa.Function, v ssa.Value) *Sym {
	return s.sym(&frame{fn: fn}, v)
}

func (s *Symbolizer) frameOf(c *Ctx) *frame {
	if c == nil {
		return nil
	}
	fr := &frame{fn: c.Fn}
	if c.Parent != nil && c.CallNode != nil && c.CallNode.Call != nil && !c.Callback {
		pf := s.frameOf(c.Parent)
		call := c.CallNode.Call
		for i := range c.Fn.Params {
			if i < len(call.Args) {
				fr.args = append(fr.args, s.sym(pf, call.Args[i]))
			} else {
				fr.args = append(fr.args, nil)
			}
		}
		if mc, ok := call.Value.(*ssa.MakeClosure); ok {
			for _, b := range mc.Bindings {
				fr.free = append(fr.free, s.sym(pf, b))
			}
		} else if ph, ok := call.Value.(*ssa.Phi); ok && len(c.Fn.FreeVars) > 0 {
			// a local function variable holding one of several literals: the literal that is this context's function
			for _, ev := range ph.Edges {
				if mc, ok := ev.(*ssa.MakeClosure); ok && mc.Fn == ssa.Value(c.Fn) {
					for _, b := range mc.Bindings {
						fr.free = append(fr.free, s.sym(pf, b))
					}
					break
				}
			}
		} else if len(c.Fn.FreeVars) > 0 {
			// a call through a function-typed parameter that the expanded CFG resolved to a closure created further
			// up (a bound method or literal passed as an argument): its free variables are bound where it was made
			v, fc := call.Value, c.Parent
			for depth := 0; depth < 5 && fc != nil; depth++ {
				if mc, ok := v.(*ssa.MakeClosure); ok {
					if mc.Fn == ssa.Value(c.Fn) {
						mf := s.frameOf(fc)
						for _, b := range mc.Bindings {
							fr.free = append(fr.free, s.sym(mf, b))
						}
					}
					break
				}
				pa, ok := v.(*ssa.Parameter)
				if !ok || fc.CallNode == nil || fc.CallNode.Call == nil || fc.Parent == nil {
					break
				}
				idx := -1
				for i, p := range fc.Fn.Params {
					if p == pa {
						idx = i
					}
				}
				if idx < 0 || idx >= len(fc.CallNode.Call.Args) {
					break
				}
				v, fc = fc.CallNode.Call.Args[idx], fc.Parent
			}
		}
		fr.parent = pf
	} else if c.Parent != nil && c.CallNode != nil && c.CallNode.Call != nil && c.Callback {
		// callback of a modelled higher-order function: parameters unbound, free variables bound by the
		// closure that was passed as an argument
		pf := s.frameOf(c.Parent)
		for _, a := range c.CallNode.Call.Args {
			if mc, ok := a.(*ssa.MakeClosure); ok && mc.Fn == ssa.Value(c.Fn) {
				for _, b := range mc.Bindings {
					fr.free = append(fr.free, s.sym(pf, b))
				}
			}
			// the closure comes out of a factory call: its free variables are bound inside the factory, whose
			// parameters are the arguments of that call
			if fn, mk := FactoryClosure(a); fn == c.Fn && mk != nil {
				fcall := a.(*ssa.Call)
				ff := &frame{fn: fcall.Call.StaticCallee(), parent: pf}
				for i := range ff.fn.Params {
					if i < len(fcall.Call.Args) {
						ff.args = append(ff.args, s.sym(pf, fcall.Call.Args[i]))
					} else {
						ff.args = append(ff.args, nil)
					}
				}
				for _, b := range mk.Bindings {
					fr.free = append(fr.free, s.sym(ff, b))
				}
			}
		}
		fr.parent = pf
	}
	return fr
}

// canonParamName: the printed name of an unbound parameter. A method receiver is printed by a fixed letter
// derived from its type (Task → t, Process → p, ...), whatever the source calls it, so that rules which speak
// about "the task's InIPs" ($t.InIPs) do not depend on the spelling of a receiver.
// ParamName is the exported form of canonParamName.
func ParamName(x *ssa.Parameter) string { return canonParamName(x) }

func canonParamName(x *ssa.Parameter) string {
	fn := x.Parent()
	if fn == nil || fn.Signature.Recv() == nil || len(fn.Params) == 0 || fn.Params[0] != x {
		return x.Name()
	}
	switch typeName(deref(x.Type())) {
	case "Task":
		return "t"
	case "Process", "BaseProcess", "Sink":
		return "p"
	case "FileIP", "BaseIP":
		return "ip"
	case "Workflow":
		return "wf"
	case "InPort", "OutPort":
		return "pt"
	case "InParamPort":
		return "pip"
	case "OutParamPort":
		return "pop"
	}
	return x.Name()
}

func lit(sv string) *Sym { return &Sym{Op: "lit", Lit: sv} }

func (s *Symbolizer) sym(fr *frame, v ssa.Value) *Sym {
	if v == nil {
		return &Sym{Op: "opaque", Name: "nil-value"}
	}
	key := fmt.Sprintf("%p/%p", fr, v)
	if s.active[key] {
		return &Sym{Op: "cycle", Val: v}
	}
	s.active[key] = true
	defer delete(s.active, key)
	out := s.sym1(fr, v)
	if out.Val == nil {
		out.Val = v
	}
	if out.Fn == nil && fr != nil {
		out.Fn = fr.fn
	}
	return out
}

func (s *Symbolizer) sym1(fr *frame, v ssa.Value) *Sym {
	switch x := v.(type) {
	case *ssa.Const:
		if x.Value == nil {
			return &Sym{Op: "nil"}
		}
		switch x.Value.Kind() {
		case constant.String:
			return lit(constant.StringVal(x.Value))
		case constant.Int:
			return &Sym{Op: "int", Lit: x.Value.ExactString()}
		case constant.Bool:
			return &Sym{Op: "int", Lit: x.Value.ExactString()}
		}
		return &Sym{Op: "int", Lit: x.Value.ExactString()}
	case *ssa.Parameter:
		for i, p := range fr.fn.Params {
			if p == x && i < len(fr.args) && fr.args[i] != nil {
				return fr.args[i]
			}
		}
		return &Sym{Op: "param", Name: canonParamName(x)}
	case *ssa.FreeVar:
		for i, f := range fr.fn.FreeVars {
			if f == x {
				if i < len(fr.free) && fr.free[i] != nil {
					return fr.free[i]
				}
				// find the MakeClosure in the parent
				if par := fr.fn.Parent(); par != nil {
					for _, b := range par.Blocks {
						for _, in := range b.Instrs {
							if mc, ok := in.(*ssa.MakeClosure); ok && mc.Fn == fr.fn && i < len(mc.Bindings) {
								pf := fr.parent
								if pf == nil || pf.fn != par {
									pf = &frame{fn: par}
								}
								return s.sym(pf, mc.Bindings[i])
							}
						}
					}
				}
			}
		}
		return &Sym{Op: "free", Name: x.Name()}
	case *ssa.Global:
		if k := s.P.ConstGlobal(x); k != nil {
			return s.sym(fr, k)
		}
		return &Sym{Op: "global", Name: x.Name()}
	case *ssa.Function:
		return &Sym{Op: "func", Name: FuncName(x), Callee: x}
	case *ssa.MakeClosure:
		f, _ := x.Fn.(*ssa.Function)
		return &Sym{Op: "func", Name: FuncName(f), Callee: f, frame: fr, Val: x}
	case *ssa.Phi:
		out := &Sym{Op: "phi"}
		for _, e := range x.Edges {
			out.Args = append(out.Args, s.sym(fr, e))
		}
		return out
	case *ssa.BinOp:
		l, r := s.sym(fr, x.X), s.sym(fr, x.Y)
		if x.Op == token.ADD {
			if b, ok := x.Type().Underlying().(*types.Basic); ok && b.Info()&types.IsString != 0 {
				return &Sym{Op: "concat", Args: []*Sym{l, r}}
			}
		}
		return &Sym{Op: "call", Name: "op" + x.Op.String(), Args: []*Sym{l, r}}
	case *ssa.UnOp:
		switch x.Op {
		case token.MUL:
			return s.load(fr, x.X)
		case token.ARROW:
			return &Sym{Op: "call", Name: "recv", Args: []*Sym{s.sym(fr, x.X)}}
		}
		return &Sym{Op: "call", Name: "op" + x.Op.String(), Args: []*Sym{s.sym(fr, x.X)}}
	case *ssa.Field:
		st := x.X.Type().Underlying().(*types.Struct)
		if base := s.sym(fr, x.X); base.Op == "structload" {
			if al, ok := base.Val.(*ssa.Alloc); ok {
				if v := s.fieldOfLocal(base.frame, al, x.Field); v != nil {
					return v
				}
			}
		}
		return &Sym{Op: "field", Name: typeName(x.X.Type()) + "." + st.Field(x.Field).Name(), Args: []*Sym{s.sym(fr, x.X)}}
	case *ssa.FieldAddr:
		st := deref(x.X.Type()).Underlying().(*types.Struct)
		return &Sym{Op: "fieldaddr", Name: typeName(deref(x.X.Type())) + "." + st.Field(x.Field).Name(), Args: []*Sym{s.sym(fr, x.X)}}
	case *ssa.IndexAddr:
		return &Sym{Op: "elemaddr", Args: []*Sym{s.sym(fr, x.X), s.sym(fr, x.Index)}}
	case *ssa.Index:
		return &Sym{Op: "elem", Args: []*Sym{s.sym(fr, x.X), s.sym(fr, x.Index)}}
	case *ssa.Lookup:
		return &Sym{Op: "elem", Args: []*Sym{s.sym(fr, x.X), s.sym(fr, x.Index)}}
	case *ssa.Extract:
		if nx, ok := x.Tuple.(*ssa.Next); ok {
			if rg, ok := nx.Iter.(*ssa.Range); ok {
				op := "rangekey"
				if x.Index == 2 {
					op = "rangeval"
				}
				if x.Index == 0 {
					op = "rangeok"
				}
				return &Sym{Op: op, Args: []*Sym{s.sym(fr, rg.X)}}
			}
		}
		if sel, ok := x.Tuple.(*ssa.Select); ok {
			if x.Index >= 2 {
				// received value of the (x.Index-2)th receive state
				k := 0
				for _, st := range sel.States {
					if st.Dir == types.RecvOnly {
						if k == x.Index-2 {
							return &Sym{Op: "call", Name: "recv", Args: []*Sym{s.sym(fr, st.Chan)}}
						}
						k++
					}
				}
			}
			return &Sym{Op: "call", Name: "select#" + strconv.Itoa(x.Index)}
		}
		t := s.sym(fr, x.Tuple)
		if t.Op == "tuple" && x.Index < len(t.Args) {
			return t.Args[x.Index]
		}
		if t.Op == "phi" { // alternatives of tuples
			out := &Sym{Op: "phi"}
			for _, a := range t.Args {
				if a.Op == "tuple" && x.Index < len(a.Args) {
					out.Args = append(out.Args, a.Args[x.Index])
				} else {
					out.Args = append(out.Args, &Sym{Op: "extract", Lit: strconv.Itoa(x.Index), Args: []*Sym{a}})
				}
			}
			return out
		}
		return &Sym{Op: "extract", Lit: strconv.Itoa(x.Index), Args: []*Sym{t}}
	case *ssa.MakeInterface:
		return s.sym(fr, x.X)
	case *ssa.ChangeInterface:
		return s.sym(fr, x.X)
	case *ssa.ChangeType:
		return s.sym(fr, x.X)
	case *ssa.Convert:
		return &Sym{Op: "call", Name: "convert", Args: []*Sym{s.sym(fr, x.X)}}
	case *ssa.Slice:
		if al, ok := x.X.(*ssa.Alloc); ok && x.Low == nil && x.High == nil {
			if _, isArr := deref(al.Type()).Underlying().(*types.Array); isArr {
				probe := &Sym{Op: "call", Name: "slice", Val: x}
				if el := s.variadic(fr, []*Sym{probe}); el != nil {
					return &Sym{Op: "list", Args: el}
				}
			}
		}
		out := &Sym{Op: "call", Name: "slice", Args: []*Sym{s.sym(fr, x.X)}}
		for _, b := range []ssa.Value{x.Low, x.High} {
			if b != nil {
				out.Args = append(out.Args, s.sym(fr, b))
			} else {
				out.Args = append(out.Args, &Sym{Op: "nil"})
			}
		}
		return out
	case *ssa.Alloc:
		return &Sym{Op: "alloc", Name: x.Comment}
	case *ssa.MakeMap:
		return &Sym{Op: "call", Name: "makemap"}
	case *ssa.MakeSlice:
		if k, ok := x.Len.(*ssa.Const); ok && k.Value != nil && k.Int64() == 0 {
			return &Sym{Op: "list"} // make([]T, 0, n): the empty list
		}
		return &Sym{Op: "call", Name: "makeslice"}
	case *ssa.MakeChan:
		return &Sym{Op: "call", Name: "makechan", Args: []*Sym{s.sym(fr, x.Size)}}
	case *ssa.TypeAssert:
		return s.sym(fr, x.X)
	case *ssa.Call:
		return s.call(fr, x)
	}
	return &Sym{Op: "opaque", Name: fmt.Sprintf("%T", v)}
}

func typeName(t types.Type) string {
	t = deref(t)
	if n, ok := t.(*types.Named); ok {
		return n.Obj().Name()
	}
	return t.String()
}

// load symbolises *addr.
func (s *Symbolizer) load(fr *frame, addr ssa.Value) *Sym {
	switch a := addr.(type) {
	case *ssa.FieldAddr:
		st := deref(a.X.Type()).Underlying().(*types.Struct)
		base := s.sym(fr, a.X)
		if base.Op == "alloc" {
			// a struct allocated locally (composite literal): the field's value is what was stored into it
			if al, ok := base.Val.(*ssa.Alloc); ok {
				if v := s.fieldOfLocal(fr, al, a.Field); v != nil {
					return v
				}
			}
		}
		return &Sym{Op: "field", Name: typeName(a.X.Type()) + "." + st.Field(a.Field).Name(), Args: []*Sym{base}}
	case *ssa.IndexAddr:
		return &Sym{Op: "elem", Args: []*Sym{s.sym(fr, a.X), s.sym(fr, a.Index)}}
	case *ssa.Global:
		if v := s.globalInit(a); v != nil {
			return v
		}
		return s.sym(fr, a)
	case *ssa.Alloc:
		if _, isStruct := deref(a.Type()).Underlying().(*types.Struct); isStruct {
			if v := s.structLoad(fr, a); v != nil {
				return v
			}
		}
		return s.cell(fr, a, a.Parent())
	case *ssa.FreeVar:
		b := s.sym(fr, a)
		if b.Op == "alloc" {
			if al, ok := b.Val.(*ssa.Alloc); ok {
				pf := fr.parent
				if pf == nil || pf.fn != al.Parent() {
					pf = &frame{fn: al.Parent()}
				}
				return s.cell(pf, al, al.Parent())
			}
		}
		return &Sym{Op: "call", Name: "deref", Args: []*Sym{b}}
	}
	return &Sym{Op: "call", Name: "deref", Args: []*Sym{s.sym(fr, addr)}}
}

// globalInit: the value of a package-level variable of the analysed module that is stored exactly once in the
// whole program, by its package initialiser (a "constant" such as a compiled regular expression): the
// symbolic form of that initial value. nil when the variable is assigned anywhere else or not initialised.
func (s *Symbolizer) globalInit(g *ssa.Global) *Sym {
	if g.Pkg == nil || !strings.HasPrefix(g.Pkg.Pkg.Path(), ModPath) {
		return nil
	}
	if s.globals == nil {
		s.globals = map[*ssa.Global][]*ssa.Store{}
		for fn := range s.P.AllFuncs {
			for _, b := range fn.Blocks {
				for _, in := range b.Instrs {
					if st, ok := in.(*ssa.Store); ok {
						if gg, ok := st.Addr.(*ssa.Global); ok {
							s.globals[gg] = append(s.globals[gg], st)
						}
					}
				}
			}
		}
	}
	sts := s.globals[g]
	if len(sts) != 1 || sts[0].Parent().Name() != "init" || sts[0].Parent().Pkg != g.Pkg {
		return nil
	}
	key := "global:" + g.String()
	if s.active[key] {
		return nil
	}
	s.active[key] = true
	defer delete(s.active, key)
	return s.sym(&frame{fn: sts[0].Parent()}, sts[0].Val)
}

// cell: the values stored into an address-taken local (in its function and the closures nested in it).
func (s *Symbolizer) cell(fr *frame, al *ssa.Alloc, owner *ssa.Function) *Sym {
	out := &Sym{Op: "phi", Name: "cell:" + al.Comment}
	var visit func(fn *ssa.Function, f *frame)
	visit = func(fn *ssa.Function, f *frame) {
		for _, b := range fn.Blocks {
			for _, in := range b.Instrs {
				st, ok := in.(*ssa.Store)
				if !ok {
					continue
				}
				hit := st.Addr == ssa.Value(al)
				if fv, ok := st.Addr.(*ssa.FreeVar); ok && !hit {
					// free variable bound to this alloc?
					for i, v := range fn.FreeVars {
						if v == fv {
							for _, pb := range fn.Parent().Blocks {
								for _, pin := range pb.Instrs {
									if mc, ok := pin.(*ssa.MakeClosure); ok && mc.Fn == fn && i < len(mc.Bindings) && mc.Bindings[i] == ssa.Value(al) {
										hit = true
									}
								}
							}
						}
					}
				}
				if hit {
					out.Args = append(out.Args, s.sym(f, st.Val))
				}
			}
		}
		for _, an := range fn.AnonFuncs {
			visit(an, &frame{fn: an, parent: f})
		}
	}
	if fr == nil || fr.fn != owner {
		fr = &frame{fn: owner}
	}
	visit(owner, fr)
	if len(out.Args) == 1 {
		return out.Args[0]
	}
	if len(out.Args) == 0 {
		return &Sym{Op: "opaque", Name: "uninitialised-cell"}
	}
	return out
}

func (s *Symbolizer) call(fr *frame, c *ssa.Call) *Sym {
	cc := c.Common()
	var args []*Sym
	for _, a := range cc.Args {
		args = append(args, s.sym(fr, a))
	}
	if b, ok := cc.Value.(*ssa.Builtin); ok {
		return &Sym{Op: "call", Name: "builtin." + b.Name(), Args: args}
	}
	f := cc.StaticCallee()
	if f == nil {
		if cc.IsInvoke() {
			recv := s.sym(fr, cc.Value)
			return &Sym{Op: "call", Name: "invoke:" + cc.Method.Name(), Args: append([]*Sym{recv}, args...)}
		}
		fv := s.sym(fr, cc.Value)
		if fv.Op == "func" && fv.Val != nil {
			if m, recv := s.boundMethod(fv.frame, fv.Val); m != nil {
				return &Sym{Op: "call", Name: FuncName(m), Args: append([]*Sym{recv}, args...), Callee: m}
			}
			if fv.Callee != nil && len(fv.Callee.FreeVars) == 0 {
				return &Sym{Op: "call", Name: FuncName(fv.Callee), Args: args, Callee: fv.Callee}
			}
		}
		return &Sym{Op: "call", Name: "dyn", Args: append([]*Sym{fv}, args...)}
	}
	name := f.String()
	switch name {
	case "fmt.Sprintf":
		if len(args) >= 1 && args[0].Op == "lit" {
			if parts, ok := sprintfParts(args[0].Lit, s.variadic(fr, args[1:])); ok {
				return &Sym{Op: "concat", Args: parts}
			}
		}
	case "strings.Join":
		if len(args) == 2 && args[0].Op == "list" && args[1].Op == "lit" {
			out := &Sym{Op: "concat", Name: "join"}
			for i, p := range args[0].Args {
				if i > 0 && args[1].Lit != "" {
					out.Args = append(out.Args, lit(args[1].Lit))
				}
				out.Args = append(out.Args, p)
			}
			return out
		}
	case "path/filepath.Join":
		parts := s.variadic(fr, args)
		if parts != nil {
			out := &Sym{Op: "concat", Name: "pathjoin"}
			for i, p := range parts {
				if i > 0 {
					out.Args = append(out.Args, lit("/"))
				}
				out.Args = append(out.Args, p)
			}
			return out
		}
	}
	out := &Sym{Op: "call", Name: FuncName(f), Args: args, Callee: f}
	if s.Expand != nil && f.Blocks != nil && s.P.IsRepo(f) && s.Expand(f) && s.depth < s.MaxDepth {
		s.depth++
		nf := &frame{fn: f, args: args, parent: fr}
		if mc, ok := cc.Value.(*ssa.MakeClosure); ok {
			for _, b := range mc.Bindings {
				nf.free = append(nf.free, s.sym(fr, b))
			}
		}
		var alts []*Sym
		for _, b := range f.Blocks {
			if len(b.Instrs) == 0 {
				continue
			}
			if r, ok := b.Instrs[len(b.Instrs)-1].(*ssa.Return); ok {
				if len(r.Results) == 1 {
					alts = append(alts, s.sym(nf, r.Results[0]))
				} else {
					t := &Sym{Op: "tuple"}
					for _, rv := range r.Results {
						t.Args = append(t.Args, s.sym(nf, rv))
					}
					alts = append(alts, t)
				}
			}
		}
		s.depth--
		// a callee is looked through only when its result is expressible: a result assembled through element
		// stores into a made slice/map or other untracked memory would silently lose the arguments
		lossy := false
		given := map[*Sym]bool{}
		for _, a := range args {
			given[a] = true
		}
		for _, a := range nf.free {
			given[a] = true
		}
		var chk func(z *Sym, d int)
		chk = func(z *Sym, d int) {
			if z == nil || given[z] || lossy || d > 40 {
				return // what the caller passed in is the caller's business
			}
			if z.Op == "opaque" || (z.Op == "call" && (z.Name == "makeslice" || z.Name == "makemap")) {
				lossy = true
				return
			}
			for _, x := range z.Args {
				chk(x, d+1)
			}
		}
		for _, a := range alts {
			chk(a, 0)
		}
		if lossy && os.Getenv("SYM_DEBUG") != "" {
			for _, a := range alts {
				fmt.Fprintln(os.Stderr, "SYM lossy:", FuncName(f), a.String())
			}
		}
		if !lossy {
			if len(alts) == 1 {
				return alts[0]
			}
			if len(alts) > 1 {
				return &Sym{Op: "phi", Name: "returns:" + FuncName(f), Args: alts}
			}
		}
	}
	return out
}

// variadic unpacks the symbolic form of a variadic argument slice built by the compiler
// (a slice of a fresh array whose elements are stored one by one); nil when not recognisable.
func (s *Symbolizer) variadic(fr *frame, args []*Sym) []*Sym {
	if len(args) == 0 {
		return []*Sym{}
	}
	if len(args) > 1 {
		return args
	}
	a := args[0]
	if a.Op == "nil" {
		return []*Sym{}
	}
	sl, ok := a.Val.(*ssa.Slice)
	if !ok {
		return nil
	}
	al, ok := sl.X.(*ssa.Alloc)
	if !ok {
		return nil
	}
	arr, ok := deref(al.Type()).Underlying().(*types.Array)
	if !ok {
		return nil
	}
	n := int(arr.Len())
	if fr == nil || fr.fn != al.Parent() {
		fr = &frame{fn: al.Parent()}
	}
	// each element i is written by Store(IndexAddr(al, const i), v)
	out := make([]*Sym, n)
	for _, ref := range *al.Referrers() {
		ia, ok := ref.(*ssa.IndexAddr)
		if !ok {
			continue
		}
		k, ok := ia.Index.(*ssa.Const)
		if !ok {
			return nil
		}
		idx := int(k.Int64())
		for _, r2 := range *ia.Referrers() {
			if st, ok := r2.(*ssa.Store); ok && st.Addr == ssa.Value(ia) && idx < n {
				out[idx] = s.sym(fr, st.Val)
			}
		}
	}
	for _, o := range out {
		if o == nil {
			return nil
		}
	}
	return out
}

// sprintfParts splits a constant format into literal chunks and argument holes.
func sprintfParts(format string, args []*Sym) ([]*Sym, bool) {
	if args == nil {
		return nil, false
	}
	var parts []*Sym
	ai := 0
	var cur strings.Builder
	for i := 0; i < len(format); i++ {
		ch := format[i]
		if ch != '%' {
			cur.WriteByte(ch)
			continue
		}
		if i+1 < len(format) && format[i+1] == '%' {
			cur.WriteByte('%')
			i++
			continue
		}
		j := i + 1
		for j < len(format) && strings.IndexByte("+-# 0123456789.", format[j]) >= 0 {
			j++
		}
		if j >= len(format) || ai >= len(args) {
			return nil, false
		}
		if cur.Len() > 0 {
			parts = append(parts, lit(cur.String()))
			cur.Reset()
		}
		if format[j] == 'x' || format[j] == 'X' {
			// hexadecimal rendering of the argument (of its bytes, for a string or byte slice)
			parts = append(parts, &Sym{Op: "call", Name: "fmt%x", Args: []*Sym{args[ai]}})
		} else {
			parts = append(parts, args[ai])
		}
		ai++
		i = j
	}
	if cur.Len() > 0 {
		parts = append(parts, lit(cur.String()))
	}
	return parts, true
}

// ---------------------------------------------------------------------------

// Flat returns the flattened concatenation parts (adjacent literals merged).
func (y *Sym) Flat() []*Sym {
	var out []*Sym
	var rec func(z *Sym)
	rec = func(z *Sym) {
		if z.Op == "concat" {
			for _, a := range z.Args {
				rec(a)
			}
			return
		}
		if z.Op == "lit" && len(out) > 0 && out[len(out)-1].Op == "lit" {
			out[len(out)-1] = lit(out[len(out)-1].Lit + z.Lit)
			return
		}
		out = append(out, z)
	}
	rec(y)
	return out
}

// Template renders the flattened form with literals verbatim and holes as ⟨...⟩.
func (y *Sym) Template() string {
	var b strings.Builder
	for _, p := range y.Flat() {
		if p.Op == "lit" {
			b.WriteString(p.Lit)
		} else {
			b.WriteString("⟨" + p.String() + "⟩")
		}
	}
	return b.String()
}

func (y *Sym) String() string {
	if y == nil {
		return "<none>"
	}
	switch y.Op {
	case "lit":
		return strconv.Quote(y.Lit)
	case "int":
		return y.Lit
	case "nil":
		return "nil"
	case "param":
		return "$" + y.Name
	case "free":
		return "^" + y.Name
	case "global":
		return "@" + y.Name
	case "func":
		return "func:" + y.Name
	case "alloc":
		return "&" + y.Name
	case "structload":
		return "*&" + y.Name
	case "cycle":
		return "↺"
	case "opaque":
		return "?" + y.Name
	case "concat":
		var ps []string
		for _, a := range y.Flat() {
			ps = append(ps, a.String())
		}
		return strings.Join(ps, "+")
	case "field", "fieldaddr":
		pre := ""
		if y.Op == "fieldaddr" {
			pre = "&"
		}
		fname := y.Name[strings.LastIndex(y.Name, ".")+1:]
		return pre + y.Args[0].String() + "." + fname
	case "elem", "elemaddr":
		return y.Args[0].String() + "[" + y.Args[1].String() + "]"
	case "rangekey":
		return "key∈" + y.Args[0].String()
	case "rangeval":
		return "val∈" + y.Args[0].String()
	case "rangeok":
		return "more∈" + y.Args[0].String()
	case "extract":
		return y.Args[0].String() + "#" + y.Lit
	case "tuple":
		var ps []string
		for _, a := range y.Args {
			ps = append(ps, a.String())
		}
		return "(" + strings.Join(ps, ", ") + ")"
	case "list":
		var ps []string
		for _, a := range y.Args {
			ps = append(ps, a.String())
		}
		return "[" + strings.Join(ps, ", ") + "]"
	case "phi":
		var ps []string
		seen := map[string]bool{}
		for _, a := range y.Args {
			t := a.String()
			if !seen[t] {
				seen[t] = true
				ps = append(ps, t)
			}
		}
		sort.Strings(ps)
		return "φ(" + strings.Join(ps, " | ") + ")"
	case "call":
		var ps []string
		for _, a := range y.Args {
			ps = append(ps, a.String())
		}
		return y.Name + "(" + strings.Join(ps, ", ") + ")"
	}
	return "?" + y.Op
}

// Walk visits y and all sub-expressions.
func (y *Sym) Walk(f func(*Sym) bool) {
	if y == nil || !f(y) {
		return
	}
	for _, a := range y.Args {
		a.Walk(f)
	}
}

// Calls returns the set of callee names appearing anywhere in the expression.
func (y *Sym) Calls() map[string]bool {
	out := map[string]bool{}
	y.Walk(func(z *Sym) bool {
		if z.Op == "call" {
			out[z.Name] = true
		}
		return true
	})
	return out
}

// Fields returns the set of Type.field names loaded anywhere in the expression.
func (y *Sym) Fields() map[string]bool {
	out := map[string]bool{}
	y.Walk(func(z *Sym) bool {
		if z.Op == "field" {
			out[z.Name] = true
		}
		return true
	})
	return out
}

// HasOpaque reports whether some part of the expression could not be symbolised.
func (y *Sym) HasOpaque() bool {
	bad := false
	y.Walk(func(z *Sym) bool {
		if z.Op == "opaque" {
			bad = true
		}
		return !bad
	})
	return bad
}

// fieldOfLocal: the value stored into field idx of a locally allocated struct (nil when it is not a single
// direct store in the allocating function).
func (s *Symbolizer) fieldOfLocal(fr *frame, al *ssa.Alloc, idx int) *Sym {
	owner := al.Parent()
	of := fr
	for of != nil && of.fn != owner {
		of = of.parent
	}
	if of == nil {
		of = &frame{fn: owner}
	}
	var found *Sym
	n := 0
	for _, b := range owner.Blocks {
		for _, in := range b.Instrs {
			st, ok := in.(*ssa.Store)
			if !ok {
				continue
			}
			fa, ok := st.Addr.(*ssa.FieldAddr)
			if !ok || fa.X != ssa.Value(al) || fa.Field != idx {
				continue
			}
			switch ut := st.Val.Type().Underlying().(type) {
			case *types.Basic:
			case *types.Struct:
				// a value type of another package (time.Time, ...): copied, never aliased
				if nt, ok := st.Val.Type().(*types.Named); !ok || nt.Obj().Pkg() == nil || strings.HasPrefix(nt.Obj().Pkg().Path(), ModPath) {
					return nil
				}
				_ = ut
			default:
				return nil // only immutable scalar fields (strings, numbers, foreign value structs) are looked through
			}
			n++
			found = s.sym(of, st.Val)
		}
	}
	if n == 1 {
		return found
	}
	if n == 0 {
		// the local is a copy of another local struct (a struct passed by value): look the field up there
		if src := s.structLoad(of, al); src != nil && src.Op == "structload" {
			if al2, ok := src.Val.(*ssa.Alloc); ok && al2 != al {
				return s.fieldOfLocal(src.frame, al2, idx)
			}
		}
	}
	return nil
}

// structLoad: the value of a local struct variable as a whole. A struct that is only ever written field by
// field is denoted by itself ("structload" of its Alloc, remembering the frame); a local that is initialised
// by exactly one whole-struct store of such a value (a by-value parameter spilled to the stack, a copy) denotes
// the struct it was copied from. nil otherwise.
func (s *Symbolizer) structLoad(fr *frame, al *ssa.Alloc) *Sym {
	owner := al.Parent()
	of := fr
	for of != nil && of.fn != owner {
		of = of.parent
	}
	if of == nil {
		of = &frame{fn: owner}
	}
	var whole []*ssa.Store
	for _, b := range owner.Blocks {
		for _, in := range b.Instrs {
			if st, ok := in.(*ssa.Store); ok && st.Addr == ssa.Value(al) {
				whole = append(whole, st)
			}
		}
	}
	switch len(whole) {
	case 0:
		return &Sym{Op: "structload", Name: al.Comment, Val: al, frame: of, Fn: owner}
	case 1:
		key := fmt.Sprintf("structload/%p/%p", of, al)
		if s.active[key] {
			return nil
		}
		s.active[key] = true
		defer delete(s.active, key)
		if v := s.sym(of, whole[0].Val); v != nil && v.Op == "structload" {
			return v
		}
	}
	return nil
}

// boundMethod: a function value that is a bound-method closure (x.M) resolves to the method and its receiver.
func (s *Symbolizer) boundMethod(fr *frame, v ssa.Value) (*ssa.Function, *Sym) {
	mc, ok := v.(*ssa.MakeClosure)
	if !ok {
		return nil, nil
	}
	f, ok := mc.Fn.(*ssa.Function)
	if !ok || len(mc.Bindings) != 1 || !strings.HasSuffix(f.Name(), "$bound") {
		return nil, nil
	}
	obj, ok := f.Object().(*types.Func)
	if !ok {
		return nil, nil
	}
	m := s.P.SSA.FuncValue(obj)
	if m == nil {
		return nil, nil
	}
	return m, s.sym(fr, mc.Bindings[0])
}

// DeepAlts distributes choice phis (phis without a loop-carried argument) wherever they occur in the expression
// - e.g. Path(φ(list | m[k])[i]) gives Path(list[i]) and Path(m[k][i]) - and returns the alternatives (at most
// limit). Loop-carried phis (induction variables) are left in place.
func (y *Sym) DeepAlts(limit int) []*Sym {
	if y == nil {
		return nil
	}
	if y.Op == "phi" {
		carried := false
		for _, a := range y.Args {
			if a.Op == "cycle" {
				carried = true
			}
		}
		if !carried {
			var out []*Sym
			for _, a := range y.Args {
				out = append(out, a.DeepAlts(limit)...)
				if len(out) >= limit {
					return out[:limit]
				}
			}
			return out
		}
		return []*Sym{y}
	}
	if len(y.Args) == 0 {
		return []*Sym{y}
	}
	if (y.Op == "rangeval" || y.Op == "elem") && y.Args[0].Op == "list" && len(y.Args[0].Args) > 0 {
		// an element of a literal list: any of the listed values
		var out []*Sym
		for _, a := range y.Args[0].Args {
			out = append(out, a.DeepAlts(limit)...)
			if len(out) >= limit {
				return out[:limit]
			}
		}
		return out
	}
	outs := [][]*Sym{{}}
	for _, a := range y.Args {
		as := a.DeepAlts(limit)
		if len(as) == 0 {
			as = []*Sym{a}
		}
		var next [][]*Sym
		for _, o := range outs {
			for _, x := range as {
				next = append(next, append(append([]*Sym{}, o...), x))
				if len(next) >= limit {
					break
				}
			}
			if len(next) >= limit {
				break
			}
		}
		outs = next
	}
	var res []*Sym
	for _, args := range outs {
		c := *y
		c.Args = args
		res = append(res, &c)
	}
	return res
}

// Alts distributes phi nodes that occur at the top level or directly inside concatenations and returns the
// phi-free alternatives (at most limit; cycles are dropped).
func (y *Sym) Alts(limit int) []*Sym {
	switch y.Op {
	case "phi":
		var out []*Sym
		for _, a := range y.Args {
			if a.Op == "cycle" {
				continue
			}
			out = append(out, a.Alts(limit)...)
			if len(out) > limit {
				return out[:limit]
			}
		}
		return out
	case "concat":
		outs := []*Sym{{Op: "concat", Name: y.Name}}
		for _, a := range y.Args {
			as := a.Alts(limit)
			if len(as) == 0 {
				as = []*Sym{a}
			}
			var next []*Sym
			for _, o := range outs {
				for _, x := range as {
					n := &Sym{Op: "concat", Name: o.Name, Args: append(append([]*Sym{}, o.Args...), x)}
					next = append(next, n)
					if len(next) > limit {
						break
					}
				}
			}
			outs = next
		}
		return outs
	}
	return []*Sym{y}
}
