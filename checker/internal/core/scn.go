package core

import (
	"fmt"
	"go/constant"
	"go/token"
	"go/types"
	"os"
	"strings"

	"golang.org/x/tools/go/ssa"
)

// ----------------------------------------------------------------------------
// E-SCN: scenario engine.  Dense, flow-sensitive abstract interpretation over the
// expanded CFG, started at a chosen node with an assumed abstract result for that
// node's instruction ("this os.Stat returned a nil error").  Branches decided by the
// assumption are pruned.  The first execution of the start instruction (phase 0) is
// kept apart from later re-executions of the same instruction in a loop (phase 1,
// result unknown), which makes monotone-flag loops come out exactly.
// ----------------------------------------------------------------------------

var scnDebug = os.Getenv("SCN_DEBUG")

type avKind uint8

const (
	avTop avKind = iota
	avBool
	avInt
	avStr // S is the exact value (Exact) or a known prefix
	avRef // nil-ness of pointer/interface/map/slice/func/chan values; errors carry a class
	avTuple
	avPtr    // pointer to a local allocation (identity: context + Alloc)
	avFAddr  // address of field I of such an allocation
	avSlice  // a slice of which only the length is known: I exact, or a lower bound when Lo
	avStruct // the value of such an allocation as a whole (a struct passed or copied by value): its fields are the cells of PC/PA
)

type ErrClass uint8

const (
	ErrAny ErrClass = iota
	ErrNotExist
	ErrOther
)

type AV struct {
	K     avKind
	B     bool
	I     int64
	S     string
	Exact bool
	Lo    bool // avInt: I is a lower bound (the value is >= I), not the exact value
	Nil   bool // avRef: true = definitely nil, false = definitely non-nil
	E     ErrClass
	T     []AV
	PC    *Ctx       // avPtr / avFAddr
	PA    *ssa.Alloc // avPtr / avFAddr
}

var Top = AV{}

func BoolAV(b bool) AV       { return AV{K: avBool, B: b} }
func NilAV() AV              { return AV{K: avRef, Nil: true} }
func NonNilAV(e ErrClass) AV { return AV{K: avRef, Nil: false, E: e} }
func TupleAV(xs ...AV) AV    { return AV{K: avTuple, T: xs} }
func StrAV(s string) AV      { return AV{K: avStr, S: s, Exact: true} }
func PrefixAV(s string) AV   { return AV{K: avStr, S: s} }
func IntAV(i int64) AV       { return AV{K: avInt, I: i} }
func IntGE(i int64) AV       { return AV{K: avInt, I: i, Lo: true} }
func (a AV) IsTop() bool     { return a.K == avTop }
func (a AV) IsTrue() bool    { return a.K == avBool && a.B }
func (a AV) IsFalse() bool   { return a.K == avBool && !a.B }

func (a AV) equal(b AV) bool {
	if a.K != b.K {
		return false
	}
	switch a.K {
	case avBool:
		return a.B == b.B
	case avInt, avSlice:
		return a.I == b.I && a.Lo == b.Lo
	case avStr:
		return a.S == b.S && a.Exact == b.Exact
	case avRef:
		return a.Nil == b.Nil && a.E == b.E
	case avPtr, avStruct:
		return a.PC == b.PC && a.PA == b.PA
	case avFAddr:
		return a.PC == b.PC && a.PA == b.PA && a.I == b.I
	case avTuple:
		if len(a.T) != len(b.T) {
			return false
		}
		for i := range a.T {
			if !a.T[i].equal(b.T[i]) {
				return false
			}
		}
	}
	return true
}

func joinAV(a, b AV) AV {
	if a.equal(b) {
		return a
	}
	if a.K != b.K {
		return Top
	}
	switch a.K {
	case avInt:
		// different integers: all that is kept is a lower bound (a counter that only grows keeps ">= n")
		lo := a.I
		if b.I < lo {
			lo = b.I
		}
		return IntGE(lo)
	case avSlice:
		lo := a.I
		if b.I < lo {
			lo = b.I
		}
		return AV{K: avSlice, I: lo, Lo: true}
	case avStr:
		// common prefix
		n := 0
		for n < len(a.S) && n < len(b.S) && a.S[n] == b.S[n] {
			n++
		}
		if n == 0 {
			return Top
		}
		return AV{K: avStr, S: a.S[:n]}
	case avRef:
		if a.Nil == b.Nil {
			return AV{K: avRef, Nil: a.Nil, E: ErrAny}
		}
	case avTuple:
		if len(a.T) == len(b.T) {
			t := make([]AV, len(a.T))
			for i := range t {
				t[i] = joinAV(a.T[i], b.T[i])
			}
			return AV{K: avTuple, T: t}
		}
	}
	return Top
}

type vkey struct {
	c    *Ctx
	v    ssa.Value
	cell bool // the content of the memory cell allocated by v (an *ssa.Alloc), not the pointer
	fld  int  // 0 = the cell itself; i+1 = field i of the struct allocated by v
}

type env map[vkey]AV

func (e env) clone() env {
	o := make(env, len(e)+4)
	for k, v := range e {
		o[k] = v
	}
	return o
}

// joinInto joins src into *dst (absent = Top); reports change.
func joinInto(dst *env, src env) bool {
	if *dst == nil {
		*dst = src.clone()
		return true
	}
	changed := false
	for k, v := range *dst {
		sv, ok := src[k]
		if !ok {
			delete(*dst, k)
			changed = true
			continue
		}
		j := joinAV(v, sv)
		if v.K == avSlice && v.Lo && j.K == avSlice && j.I < v.I {
			if j.I >= 1 {
				j = AV{K: avSlice, I: 1, Lo: true}
			} else {
				j = AV{K: avSlice, I: 0, Lo: true}
			}
		}
		if v.K == avInt && v.Lo && j.K == avInt && j.I < v.I {
			// widening with thresholds 1 and 0: a lower bound that sinks (a down-counting loop, or a state fed from
			// several partitions) jumps to the next threshold below, and is given up below 0
			switch {
			case j.I >= 1:
				j = IntGE(1)
			case j.I >= 0:
				j = IntGE(0)
			default:
				j = Top
			}
		}
		if !j.equal(v) {
			changed = true
			if j.IsTop() {
				delete(*dst, k)
			} else {
				(*dst)[k] = j
			}
		}
	}
	return changed
}

// Scenario describes the assumption under which the program is explored.
type Scenario struct {
	Start  *Node // analysis begins just after this node's instruction
	Result AV    // assumed abstract result of Start's instruction (first execution only)
	// AtEntry: no assumption on Start; it is executed normally (used to explore "what happens from here on").
	AtEntry bool
	// FieldLoad gives an assumed abstract value for every load of a struct field (nil = unknown).
	FieldLoad func(f *types.Var) (AV, bool)
	// CallResult gives an assumed abstract result for opaque calls (all executions).
	CallResult func(n *Node) (AV, bool)
	// InstrResult gives an assumed abstract result for non-call instructions (map lookups, receives ...; all executions).
	InstrResult func(n *Node) (AV, bool)
	// Marker (optional, with Start = the entry and AtEntry): an operation that, on any one of its executions, may
	// deliver MarkerResult; the states after that are kept in a separate phase (ScnResult.ReachesAfterMarker), so
	// "what can happen once this call has returned X, whatever happened before" is answered with the full
	// history from the entry (e.g. a counter initialised before a loop).
	Marker       *Node
	MarkerResult AV
}

type pnode struct {
	n    *Node
	ph   uint8
	part uint8 // trace partition: class (1 nil/true, 2 non-nil/false) of the last error/bool value returned by an inlined call
}

type ScnResult struct {
	G        *XG
	Reach    map[pnode]bool
	edges    map[pnode][]pnode
	startKey pnode
	marker   *Node
}

// Run explores the expanded CFG under the scenario.
func (g *XG) Run(sc Scenario) *ScnResult {
	res := &ScnResult{G: g, Reach: map[pnode]bool{}, edges: map[pnode][]pnode{}, marker: sc.Marker}
	in := map[pnode]env{}
	start := pnode{sc.Start, 0, 0}
	res.startKey = start
	res.Reach[start] = true
	it := &interp{g: g, sc: sc}
	var work []pnode
	inWork := map[pnode]bool{}
	push := func(p pnode) {
		if !inWork[p] {
			inWork[p] = true
			work = append(work, p)
		}
	}
	flow := func(from pnode, to *Node, e env) {
		ph := from.ph
		if to == sc.Start && sc.Marker == nil {
			ph = 1
		}
		if sc.Marker != nil && to == sc.Marker && from.ph >= 1 {
			ph = 2 // a later execution of the marked operation (no assumption): kept apart from the assumed one
		}
		part := from.part
		if from.n.Kind == KRet && to.Kind == KAfter {
			if c := it.returnClass(from.n, e); c != 0 {
				part = c
			}
		}
		tp := pnode{to, ph, part}
		e2 := it.edge(from.n, to, e)
		if scnDebug != "" && sc.Marker != nil && to.First && to.Instr != nil && strings.Contains(g.P.InstrPos(to.Instr), scnDebug) {
			ints := ""
			for k, v := range e2 {
				if v.K == avInt {
					ints += fmt.Sprintf(" %s=%d/%v", k.v.Name(), v.I, v.Lo)
				}
			}
			fmt.Fprintf(os.Stderr, "SCN flow %s -> %s ph=%d part=%d ints:%s\n", g.Where(from.n), g.Where(to), ph, part, ints)
		}
		old := in[tp]
		first := old == nil
		ch := joinInto(&old, e2)
		in[tp] = old
		res.edges[from] = appendUnique(res.edges[from], tp)
		if first || ch || !res.Reach[tp] {
			res.Reach[tp] = true
			push(tp)
		}
	}
	// seed: out-state of the start node (or, with AtEntry, the start node itself is executed normally)
	e0 := env{}
	if sc.AtEntry {
		it.transfer(sc.Start, e0)
	} else if v, ok := sc.Start.Instr.(ssa.Value); ok && !sc.Result.IsTop() {
		e0[vkey{c: sc.Start.Ctx, v: v}] = sc.Result
	}
	for _, s := range it.feasible(sc.Start, e0) {
		flow(start, s.to, s.env)
	}
	steps := 0
	for len(work) > 0 {
		p := work[len(work)-1]
		work = work[:len(work)-1]
		inWork[p] = false
		steps++
		if steps > 2000000 {
			break
		}
		e := in[p].clone()
		it.transfer(p.n, e)
		if scnDebug != "" && sc.Marker != nil {
			if iff, ok := p.n.Instr.(*ssa.If); ok && strings.Contains(g.P.InstrPos(iff), scnDebug) {
				fmt.Fprintf(os.Stderr, "SCN if %s ph=%d part=%d cond=%+v\n", g.Where(p.n), p.ph, p.part, it.val(p.n.Ctx, iff.Cond, e))
			}
		}
		if sc.Marker != nil && p.n == sc.Marker && p.ph == 0 {
			// the marked operation: on any of its executions it may deliver the assumed result; from then on the
			// exploration is in phase 1 (states that passed the marker with that result are kept apart from those
			// that did not)
			e1 := e.clone()
			if v, ok := p.n.Instr.(ssa.Value); ok && !sc.MarkerResult.IsTop() {
				e1[vkey{c: p.n.Ctx, v: v}] = sc.MarkerResult
			}
			p1 := pnode{p.n, 1, p.part}
			for _, s := range it.feasible(p.n, e1) {
				flow(p1, s.to, s.env)
			}
			res.edges[p] = appendUnique(res.edges[p], p1)
			res.Reach[p1] = true
		}
		for _, s := range it.feasible(p.n, e) {
			flow(p, s.to, s.env)
		}
	}
	return res
}

// ReachesAvoidingAfterMarker: like ReachesAvoiding, starting where the marked operation delivered the assumed result.
func (r *ScnResult) ReachesAvoidingAfterMarker(target, avoid func(*Node) bool) *Node {
	seen := map[pnode]bool{}
	var work []pnode
	for p := range r.Reach {
		if p.ph == 1 && r.marker != nil && p.n == r.marker {
			seen[p] = true
			work = append(work, p)
		}
	}
	for len(work) > 0 {
		p := work[len(work)-1]
		work = work[:len(work)-1]
		for _, s := range r.edges[p] {
			if seen[s] || s.ph < 1 {
				continue
			}
			seen[s] = true
			if avoid != nil && avoid(s.n) {
				continue
			}
			if target(s.n) {
				return s.n
			}
			work = append(work, s)
		}
	}
	return nil
}

// MarkerRepeats: the marked operation can be executed again after it has been executed once.
func (r *ScnResult) MarkerRepeats() bool {
	for p := range r.Reach {
		if p.ph == 2 && p.n == r.marker {
			return true
		}
	}
	return false
}

// ReachesAfterMarker: some node satisfying pred is reachable after the marked operation delivered the assumed
// result (Scenario.Marker).
func (r *ScnResult) ReachesAfterMarker(pred func(*Node) bool) *Node {
	for p := range r.Reach {
		if p.ph >= 1 && pred(p.n) {
			return p.n
		}
	}
	return nil
}

func appendUnique(xs []pnode, x pnode) []pnode {
	for _, y := range xs {
		if y == x {
			return xs
		}
	}
	return append(xs, x)
}

// Reaches reports whether some node satisfying pred is reachable under the scenario
// (the start node's own first execution is not counted).
func (r *ScnResult) Reaches(pred func(*Node) bool) *Node {
	for p := range r.Reach {
		if p == r.startKey {
			continue
		}
		if pred(p.n) {
			return p.n
		}
	}
	return nil
}

// ReachesAvoiding: is a node satisfying target reachable from the start along feasible edges
// without passing through a node satisfying avoid?  Returns a witness node or nil.
func (r *ScnResult) ReachesAvoiding(target, avoid func(*Node) bool) *Node {
	seen := map[pnode]bool{r.startKey: true}
	work := []pnode{r.startKey}
	for len(work) > 0 {
		p := work[len(work)-1]
		work = work[:len(work)-1]
		for _, s := range r.edges[p] {
			if seen[s] {
				continue
			}
			seen[s] = true
			if avoid != nil && avoid(s.n) {
				continue
			}
			if target(s.n) {
				return s.n
			}
			work = append(work, s)
		}
	}
	return nil
}

// NormalReturn reports whether the root function can return normally under the scenario.
func (r *ScnResult) NormalReturn() *Node {
	return r.Reaches(func(n *Node) bool { return n.Kind == KRootRet })
}

// ---------------------------------------------------------------------------

type interp struct {
	g  *XG
	sc Scenario
}

type succEnv struct {
	to  *Node
	env env
}

func (it *interp) val(c *Ctx, v ssa.Value, e env) AV {
	switch v := v.(type) {
	case *ssa.Const:
		return constAV(v)
	case *ssa.Alloc:
		if a, ok := e[vkey{c: c, v: v}]; ok {
			return a
		}
		if _, isStruct := deref(v.Type()).Underlying().(*types.Struct); isStruct && trackableStruct(v) {
			return AV{K: avPtr, PC: c, PA: v}
		}
		return NonNilAV(ErrOther)
	case *ssa.Function, *ssa.MakeClosure, *ssa.MakeMap, *ssa.MakeSlice, *ssa.MakeChan,
		*ssa.FieldAddr, *ssa.IndexAddr, *ssa.Global, *ssa.MakeInterface:
		if a, ok := e[vkey{c: c, v: v}]; ok {
			return a
		}
		return NonNilAV(ErrOther)
	}
	if a, ok := e[vkey{c: c, v: v}]; ok {
		return a
	}
	return Top
}

func constAV(c *ssa.Const) AV {
	if c.Value == nil {
		switch c.Type().Underlying().(type) {
		case *types.Pointer, *types.Interface, *types.Map, *types.Slice, *types.Signature, *types.Chan:
			return NilAV()
		}
		return Top
	}
	switch c.Value.Kind() {
	case constant.Bool:
		return BoolAV(constant.BoolVal(c.Value))
	case constant.Int:
		if i, ok := constant.Int64Val(c.Value); ok {
			return IntAV(i)
		}
	case constant.String:
		return StrAV(constant.StringVal(c.Value))
	}
	return Top
}

// transfer evaluates node n in environment e (in place).
func (it *interp) transfer(n *Node, e env) {
	if n.Instr == nil || n.Kind == KAfter || n.Kind == KHOHead || n.Kind == KDeferSkip {
		return
	}
	if st, isStore := n.Instr.(*ssa.Store); isStore {
		if fa := it.val(n.Ctx, st.Addr, e); fa.K == avFAddr {
			a := it.val(n.Ctx, st.Val, e)
			k := vkey{c: fa.PC, v: fa.PA, cell: true, fld: int(fa.I) + 1}
			if a.IsTop() {
				delete(e, k)
			} else {
				e[k] = a
			}
			return
		}
		if dst := it.val(n.Ctx, st.Addr, e); dst.K == avPtr {
			// a whole struct copied into a tracked local (by-value parameter spilled to the stack, plain copy)
			if src := it.val(n.Ctx, st.Val, e); src.K == avStruct {
				if stt, ok := deref(dst.PA.Type()).Underlying().(*types.Struct); ok {
					for i := 0; i < stt.NumFields(); i++ {
						dk := vkey{c: dst.PC, v: dst.PA, cell: true, fld: i + 1}
						if a, ok := e[vkey{c: src.PC, v: src.PA, cell: true, fld: i + 1}]; ok {
							e[dk] = a
						} else {
							delete(e, dk)
						}
					}
				}
				return
			}
		}
		if c, al := it.cellOf(n.Ctx, st.Addr); al != nil {
			a := it.val(n.Ctx, st.Val, e)
			k := vkey{c: c, v: al, cell: true}
			if a.IsTop() {
				delete(e, k)
			} else {
				e[k] = a
			}
		}
		return
	}
	v, ok := n.Instr.(ssa.Value)
	if !ok {
		return
	}
	if _, isDefer := n.Instr.(*ssa.Defer); isDefer {
		return
	}
	k := vkey{c: n.Ctx, v: v}
	a := it.eval(n, v, e)
	if a.IsTop() {
		delete(e, k)
	} else {
		e[k] = a
	}
}

func (it *interp) eval(n *Node, v ssa.Value, e env) AV {
	c := n.Ctx
	if it.sc.InstrResult != nil {
		if _, isCall := v.(*ssa.Call); !isCall {
			if a, ok := it.sc.InstrResult(n); ok {
				return a
			}
		}
	}
	switch x := v.(type) {
	case *ssa.FieldAddr:
		if b := it.val(c, x.X, e); b.K == avPtr {
			return AV{K: avFAddr, PC: b.PC, PA: b.PA, I: int64(x.Field)}
		}
		return NonNilAV(ErrOther)
	case *ssa.BinOp:
		if scnDebug != "" && strings.Contains(it.g.P.InstrPos(x), scnDebug) && (os.Getenv("SCN_MARKER_ONLY") == "" || it.sc.Marker != nil) {
			fmt.Fprintf(os.Stderr, "SCN binop %s %s: %+v , %+v -> %+v\n", it.g.Where(n), x, it.val(c, x.X, e), it.val(c, x.Y, e), binop(x.Op, it.val(c, x.X, e), it.val(c, x.Y, e)))
		}
		return binop(x.Op, it.val(c, x.X, e), it.val(c, x.Y, e))
	case *ssa.UnOp:
		switch x.Op {
		case token.NOT:
			a := it.val(c, x.X, e)
			if a.K == avBool {
				return BoolAV(!a.B)
			}
		case token.MUL: // load
			if fa := it.val(c, x.X, e); fa.K == avFAddr {
				if a, ok := e[vkey{c: fa.PC, v: fa.PA, cell: true, fld: int(fa.I) + 1}]; ok {
					return a
				}
			} else if fa.K == avPtr {
				if _, isStruct := x.Type().Underlying().(*types.Struct); isStruct {
					return AV{K: avStruct, PC: fa.PC, PA: fa.PA}
				}
			}
			switch addr := x.X.(type) {
			case *ssa.FieldAddr:
				if it.sc.FieldLoad != nil {
					if st, ok := deref(addr.X.Type()).Underlying().(*types.Struct); ok {
						if a, ok := it.sc.FieldLoad(st.Field(addr.Field)); ok {
							return a
						}
					}
				}
			case *ssa.Global:
				if k := it.g.P.ConstGlobal(addr); k != nil {
					return constAV(k)
				}
				// sentinel errors of the standard library (io.EOF, os.ErrNotExist, ...) are never nil
				if addr.Pkg != nil && addr.Pkg.Pkg != nil && !strings.Contains(addr.Pkg.Pkg.Path(), ".") && addr.Object() != nil && addr.Object().Exported() &&
					types.Identical(deref(addr.Type()), types.Universe.Lookup("error").Type()) {
					return NonNilAV(ErrAny)
				}
			case *ssa.Alloc, *ssa.FreeVar:
				if cc, al := it.cellOf(c, addr); al != nil {
					if a, ok := e[vkey{c: cc, v: al, cell: true}]; ok {
						return a
					}
				}
			}
		case token.ARROW:
			return Top
		}
	case *ssa.Field:
		if b := it.val(c, x.X, e); b.K == avStruct {
			if a, ok := e[vkey{c: b.PC, v: b.PA, cell: true, fld: x.Field + 1}]; ok {
				return a
			}
		}
		if it.sc.FieldLoad != nil {
			if st, ok := x.X.Type().Underlying().(*types.Struct); ok {
				if a, ok := it.sc.FieldLoad(st.Field(x.Field)); ok {
					return a
				}
			}
		}
	case *ssa.Slice:
		// a slice literal: x[:] of a freshly allocated array
		if al, ok := x.X.(*ssa.Alloc); ok && x.Low == nil && x.High == nil {
			if at, ok := deref(al.Type()).Underlying().(*types.Array); ok {
				return AV{K: avSlice, I: at.Len()}
			}
		}
	case *ssa.MakeSlice:
		if k := it.val(c, x.Len, e); k.K == avInt && !k.Lo {
			return AV{K: avSlice, I: k.I}
		}
	case *ssa.Extract:
		t := it.val(c, x.Tuple, e)
		if t.K == avTuple && x.Index < len(t.T) {
			return t.T[x.Index]
		}
	case *ssa.ChangeInterface:
		return it.val(c, x.X, e)
	case *ssa.ChangeType:
		return it.val(c, x.X, e)
	case *ssa.Convert:
		a := it.val(c, x.X, e)
		if a.K == avInt || a.K == avStr {
			if bt, ok := x.Type().Underlying().(*types.Basic); ok {
				if (a.K == avInt && bt.Info()&types.IsInteger != 0) || (a.K == avStr && bt.Info()&types.IsString != 0) {
					return a
				}
			}
		}
	case *ssa.MakeInterface:
		return NonNilAV(ErrOther)
	case *ssa.Index:
		s := it.val(c, x.X, e)
		i := it.val(c, x.Index, e)
		if s.K == avStr && i.K == avInt && i.I >= 0 && int(i.I) < len(s.S) {
			return IntAV(int64(s.S[i.I]))
		}
	case *ssa.Lookup:
		// a constant function table looked up with a known key: whether the key is present is known
		if ld, ok := x.X.(*ssa.UnOp); ok && x.CommaOk {
			if g, ok := ld.X.(*ssa.Global); ok {
				if tab := it.g.P.ConstFuncTable(g); tab != nil {
					if k := it.val(c, x.Index, e); k.K == avStr && k.Exact {
						_, present := tab[k.S]
						v := NilAV()
						if present {
							v = NonNilAV(ErrOther)
						}
						return TupleAV(v, BoolAV(present))
					}
				}
			}
		}
		// s[i] on a string with a known prefix
		s := it.val(c, x.X, e)
		i := it.val(c, x.Index, e)
		if s.K == avStr && i.K == avInt && i.I >= 0 && int(i.I) < len(s.S) {
			return IntAV(int64(s.S[i.I]))
		}
	case *ssa.Call:
		if n.Kind == KCall {
			return Top // bound at the KAfter landing
		}
		if it.sc.CallResult != nil {
			if a, ok := it.sc.CallResult(n); ok {
				return a
			}
		}
		return it.modelCall(n, x.Common(), e)
	}
	return Top
}

func deref(t types.Type) types.Type {
	if p, ok := t.Underlying().(*types.Pointer); ok {
		return p.Elem()
	}
	return t
}

func (it *interp) modelCall(n *Node, cc *ssa.CallCommon, e env) AV {
	c := n.Ctx
	if b, ok := cc.Value.(*ssa.Builtin); ok {
		if b.Name() == "len" && len(cc.Args) == 1 {
			a := it.val(c, cc.Args[0], e)
			if a.K == avStr && a.Exact {
				return IntAV(int64(len(a.S)))
			}
			if a.K == avSlice {
				return AV{K: avInt, I: a.I, Lo: a.Lo}
			}
		}
		if b.Name() == "append" && len(cc.Args) == 2 {
			// only the length is tracked: len(append(s, t...)) = len(s) + len(t)
			s0, t0 := it.val(c, cc.Args[0], e), it.val(c, cc.Args[1], e)
			if s0.K == avRef && s0.Nil {
				s0 = AV{K: avSlice}
			}
			if s0.K == avSlice {
				if t0.K == avSlice {
					return AV{K: avSlice, I: s0.I + t0.I, Lo: s0.Lo || t0.Lo}
				}
				return AV{K: avSlice, I: s0.I, Lo: true}
			}
		}
		return Top
	}
	f := cc.StaticCallee()
	if f == nil {
		return Top
	}
	switch f.String() {
	case "os.IsNotExist":
		a := it.val(c, cc.Args[0], e)
		if a.K == avRef {
			if a.Nil {
				return BoolAV(false)
			}
			switch a.E {
			case ErrNotExist:
				return BoolAV(true)
			case ErrOther:
				return BoolAV(false)
			}
		}
	case "os.IsExist":
		a := it.val(c, cc.Args[0], e)
		if a.K == avRef {
			if a.Nil || a.E == ErrNotExist || a.E == ErrOther {
				return BoolAV(false)
			}
		}
	case "errors.New", "fmt.Errorf":
		return NonNilAV(ErrOther)
	case "fmt.Sprintf":
		// known prefix of the result: literal text and exactly known %s/%v arguments, up to the first unknown piece
		f := it.val(c, cc.Args[0], e)
		if f.K != avStr || !f.Exact || len(cc.Args) < 2 {
			return Top
		}
		vals := variadicValues(cc.Args[1])
		var b strings.Builder
		ai := 0
		exact := true
		for i := 0; i < len(f.S) && exact; i++ {
			ch := f.S[i]
			if ch != '%' {
				b.WriteByte(ch)
				continue
			}
			if i+1 < len(f.S) && f.S[i+1] == '%' {
				b.WriteByte('%')
				i++
				continue
			}
			if i+1 >= len(f.S) || (f.S[i+1] != 's' && f.S[i+1] != 'v') || vals == nil || ai >= len(vals) {
				exact = false
				break
			}
			a := it.val(c, vals[ai], e)
			ai++
			i++
			if a.K == avStr && a.Exact {
				b.WriteString(a.S)
			} else if a.K == avStr {
				b.WriteString(a.S)
				exact = false
			} else {
				exact = false
			}
		}
		if exact {
			return StrAV(b.String())
		}
		if b.Len() > 0 {
			return PrefixAV(b.String())
		}
		return Top
	case "strings.Join", "fmt.Sprint":
		return Top
	}
	return Top
}

func binop(op token.Token, a, b AV) AV {
	if a.K == avPtr || a.K == avFAddr {
		a = NonNilAV(ErrOther)
	}
	if b.K == avPtr || b.K == avFAddr {
		b = NonNilAV(ErrOther)
	}
	switch op {
	case token.EQL, token.NEQ:
		eq, known := false, false
		switch {
		case a.K == avRef && b.K == avRef:
			if a.Nil && b.Nil {
				eq, known = true, true
			} else if a.Nil != b.Nil {
				eq, known = false, true
			}
		case a.K == avBool && b.K == avBool:
			eq, known = a.B == b.B, true
		case a.K == avInt && b.K == avInt && !a.Lo && !b.Lo:
			eq, known = a.I == b.I, true
		case a.K == avInt && b.K == avInt && a.Lo && !b.Lo && b.I < a.I:
			eq, known = false, true
		case a.K == avInt && b.K == avInt && b.Lo && !a.Lo && a.I < b.I:
			eq, known = false, true
		case a.K == avStr && b.K == avStr:
			if a.Exact && b.Exact {
				eq, known = a.S == b.S, true
			} else if a.Exact && !b.Exact {
				if !strings.HasPrefix(a.S, b.S) {
					eq, known = false, true
				}
			} else if b.Exact && !a.Exact {
				if !strings.HasPrefix(b.S, a.S) {
					eq, known = false, true
				}
			}
		}
		if known {
			if op == token.NEQ {
				return BoolAV(!eq)
			}
			return BoolAV(eq)
		}
	case token.LSS, token.LEQ, token.GTR, token.GEQ:
		if a.K == avInt && b.K == avInt && !a.Lo && !b.Lo {
			switch op {
			case token.LSS:
				return BoolAV(a.I < b.I)
			case token.LEQ:
				return BoolAV(a.I <= b.I)
			case token.GTR:
				return BoolAV(a.I > b.I)
			case token.GEQ:
				return BoolAV(a.I >= b.I)
			}
		}
		// a lower bound against an exact value: only the comparisons the bound settles
		if a.K == avInt && b.K == avInt && a.Lo && !b.Lo {
			switch {
			case op == token.GTR && a.I > b.I, op == token.GEQ && a.I >= b.I:
				return BoolAV(true)
			case op == token.LSS && a.I >= b.I, op == token.LEQ && a.I > b.I:
				return BoolAV(false)
			}
		}
		if a.K == avInt && b.K == avInt && b.Lo && !a.Lo {
			switch {
			case op == token.LSS && b.I > a.I, op == token.LEQ && b.I >= a.I:
				return BoolAV(true)
			case op == token.GTR && b.I >= a.I, op == token.GEQ && b.I > a.I:
				return BoolAV(false)
			}
		}
	case token.ADD:
		if a.K == avStr {
			if a.Exact && b.K == avStr && b.Exact {
				return StrAV(a.S + b.S)
			}
			if a.Exact && b.K == avStr {
				return PrefixAV(a.S + b.S)
			}
			if a.S != "" {
				return PrefixAV(a.S)
			}
		}
		if a.K == avInt && b.K == avInt {
			return AV{K: avInt, I: a.I + b.I, Lo: a.Lo || b.Lo}
		}
	case token.SUB:
		if a.K == avInt && b.K == avInt && !b.Lo {
			return AV{K: avInt, I: a.I - b.I, Lo: a.Lo}
		}
	case token.LAND:
		if a.K == avBool && b.K == avBool {
			return BoolAV(a.B && b.B)
		}
	case token.LOR:
		if a.K == avBool && b.K == avBool {
			return BoolAV(a.B || b.B)
		}
	}
	return Top
}

// feasible returns the successors of n that can be taken with environment e, each with the
// (possibly refined) environment flowing on that edge.
func (it *interp) feasible(n *Node, e env) []succEnv {
	if len(n.Succs) == 0 {
		return nil
	}
	if iff, ok := n.Instr.(*ssa.If); ok && n.Kind == KInstr && len(n.Succs) == 2 {
		cv := it.val(n.Ctx, iff.Cond, e)
		if scnDebug != "" && strings.Contains(it.g.P.InstrPos(n.Instr), scnDebug) {
			fmt.Fprintf(os.Stderr, "SCN %s cond=%s val=%+v\n", it.g.Where(n), iff.Cond, cv)
			if bo, ok := iff.Cond.(*ssa.BinOp); ok {
				fmt.Fprintf(os.Stderr, "     X=%s:%+v Y=%s:%+v\n", bo.X, it.val(n.Ctx, bo.X, e), bo.Y, it.val(n.Ctx, bo.Y, e))
			}
		}
		var out []succEnv
		if !cv.IsFalse() {
			et := e.clone()
			it.refine(n.Ctx, iff.Cond, true, et)
			out = append(out, succEnv{n.Succs[0], et})
		}
		if !cv.IsTrue() {
			ef := e.clone()
			it.refine(n.Ctx, iff.Cond, false, ef)
			out = append(out, succEnv{n.Succs[1], ef})
		}
		return out
	}
	if len(n.Dispatch) > 0 && n.DispatchKey != nil {
		// a call through a constant function table: with a known key only that entry runs
		if k := it.val(n.Ctx, n.DispatchKey, e); k.K == avStr && k.Exact {
			var out []succEnv
			for i, d := range n.Dispatch {
				if d.Key == k.S && i < len(n.Succs) {
					out = append(out, succEnv{n.Succs[i], e})
				}
			}
			return out
		}
	}
	out := make([]succEnv, 0, len(n.Succs))
	for _, s := range n.Succs {
		out = append(out, succEnv{s, e})
	}
	return out
}

// refine records what a branch outcome tells about the operands of the condition.
func (it *interp) refine(c *Ctx, cond ssa.Value, outcome bool, e env) {
	if _, isConst := cond.(*ssa.Const); !isConst {
		e[vkey{c: c, v: cond}] = BoolAV(outcome)
	}
	switch x := cond.(type) {
	case *ssa.UnOp:
		if x.Op == token.NOT {
			it.refine(c, x.X, !outcome, e)
		}
	case *ssa.BinOp:
		if x.Op != token.EQL && x.Op != token.NEQ {
			return
		}
		isEq := (x.Op == token.EQL) == outcome
		l, r := it.val(c, x.X, e), it.val(c, x.Y, e)
		set := func(v ssa.Value, a AV) {
			if _, isConst := v.(*ssa.Const); isConst {
				return
			}
			cur := it.val(c, v, e)
			if cur.IsTop() || (cur.K == avRef && a.K == avRef && !a.Nil && !cur.Nil && a.E == ErrAny) {
				if cur.IsTop() {
					e[vkey{c: c, v: v}] = a
				}
			}
		}
		if r.K == avRef && r.Nil {
			if isEq {
				set(x.X, NilAV())
			} else {
				set(x.X, NonNilAV(ErrAny))
			}
		} else if l.K == avRef && l.Nil {
			if isEq {
				set(x.Y, NilAV())
			} else {
				set(x.Y, NonNilAV(ErrAny))
			}
		} else if isEq {
			if (r.K == avBool || (r.K == avInt && !r.Lo) || (r.K == avStr && r.Exact)) && l.IsTop() {
				set(x.X, r)
			} else if (l.K == avBool || (l.K == avInt && !l.Lo) || (l.K == avStr && l.Exact)) && r.IsTop() {
				set(x.Y, l)
			}
		}
	case *ssa.Call:
		if f := x.Common().StaticCallee(); f != nil && f.String() == "os.IsNotExist" && len(x.Common().Args) == 1 {
			arg := x.Common().Args[0]
			cur := it.val(c, arg, e)
			if outcome {
				e[vkey{c: c, v: arg}] = NonNilAV(ErrNotExist)
			} else if cur.K == avRef && !cur.Nil && cur.E == ErrAny {
				e[vkey{c: c, v: arg}] = NonNilAV(ErrOther)
			}
		}
	}
}

// edge computes the environment that arrives at `to` when control flows from `from` with e:
// phi evaluation on block edges, parameter binding on call edges, result binding on return edges.
func (it *interp) edge(from, to *Node, e env) env {
	// call -> callee entry
	if from.Kind == KCall && from.Inl != nil && (to.Ctx == from.Inl || (len(from.Dispatch) > 0 && to.Ctx.CallNode == from && to.Ctx.Parent == from.Ctx)) {
		o := e.clone()
		callee := to.Ctx.Fn
		args := from.Call.Args
		// for invoke-mode calls there is no static callee, so args align with params directly
		for i, p := range callee.Params {
			if i < len(args) {
				a := it.val(from.Ctx, args[i], e)
				if !a.IsTop() {
					o[vkey{c: to.Ctx, v: p}] = a
				} else {
					delete(o, vkey{c: to.Ctx, v: p})
				}
			}
		}
		if mc, ok := from.Call.Value.(*ssa.MakeClosure); ok {
			for i, fv := range callee.FreeVars {
				if i < len(mc.Bindings) {
					a := it.val(from.Ctx, mc.Bindings[i], e)
					if !a.IsTop() {
						o[vkey{c: to.Ctx, v: fv}] = a
					}
				}
			}
		}
		return o
	}
	// higher-order head -> callback entry: bind the callback's free variables from the closure argument
	if from.Kind == KHOHead && to.Ctx != from.Ctx && to.Ctx.Callback && to.Ctx.CallNode != nil && to.Ctx.CallNode.Call != nil {
		o := e.clone()
		for _, arg := range to.Ctx.CallNode.Call.Args {
			if mc, ok := arg.(*ssa.MakeClosure); ok && mc.Fn == ssa.Value(to.Ctx.Fn) {
				for i, fv := range to.Ctx.Fn.FreeVars {
					if i < len(mc.Bindings) {
						if a := it.val(from.Ctx, mc.Bindings[i], e); !a.IsTop() {
							o[vkey{c: to.Ctx, v: fv}] = a
						}
					}
				}
			}
		}
		return o
	}
	// return -> landing
	if from.Kind == KRet && to.Kind == KAfter && to.CallNode != nil {
		o := e.clone()
		ret := from.Instr.(*ssa.Return)
		if cv, ok := to.CallNode.Instr.(ssa.Value); ok && to.CallNode.Kind == KCall {
			var a AV
			switch len(ret.Results) {
			case 0:
				a = Top
			case 1:
				a = it.val(from.Ctx, ret.Results[0], e)
			default:
				t := make([]AV, len(ret.Results))
				for i, r := range ret.Results {
					t[i] = it.val(from.Ctx, r, e)
				}
				a = AV{K: avTuple, T: t}
			}
			k := vkey{c: to.Ctx, v: cv}
			if a.IsTop() {
				delete(o, k)
			} else {
				o[k] = a
			}
		}
		return o
	}
	// block edge within one context: evaluate phis of the target block
	if to.First && to.Instr != nil && from.Instr != nil && from.Ctx == to.Ctx && (from.Kind == KInstr) {
		if _, isIf := from.Instr.(*ssa.If); isIf || isJump(from.Instr) {
			tb := to.Instr.Block()
			fb := from.Instr.Block()
			var phis []*ssa.Phi
			for _, in := range tb.Instrs {
				if ph, ok := in.(*ssa.Phi); ok {
					phis = append(phis, ph)
				} else {
					break
				}
			}
			if len(phis) == 0 {
				return e
			}
			o := e.clone()
			for _, ph := range phis {
				var a AV
				first := true
				for i, pb := range tb.Preds {
					if pb != fb {
						continue
					}
					v := it.val(from.Ctx, ph.Edges[i], e)
					if first {
						a, first = v, false
					} else {
						a = joinAV(a, v)
					}
				}
				k := vkey{c: to.Ctx, v: ph}
				if first || a.IsTop() {
					delete(o, k)
				} else {
					o[k] = a
				}
			}
			return o
		}
	}
	return e
}

func isJump(in ssa.Instruction) bool { _, ok := in.(*ssa.Jump); return ok }

// PathAvoiding is ReachesAvoiding with a witness: the sequence of nodes from the start to the target.
func (r *ScnResult) PathAvoiding(target, avoid func(*Node) bool) []*Node {
	prev := map[pnode]pnode{}
	seen := map[pnode]bool{r.startKey: true}
	work := []pnode{r.startKey}
	for len(work) > 0 {
		p := work[0]
		work = work[1:]
		for _, s := range r.edges[p] {
			if seen[s] {
				continue
			}
			seen[s] = true
			prev[s] = p
			if avoid != nil && avoid(s.n) {
				continue
			}
			if target(s.n) {
				var path []*Node
				for x := s; ; x = prev[x] {
					path = append([]*Node{x.n}, path...)
					if x == r.startKey {
						break
					}
				}
				return path
			}
			work = append(work, s)
		}
	}
	return nil
}

// Must computes, on the subgraph that is feasible under the scenario, the events that have
// certainly occurred before each node (intersection over feasible paths from the start).
func (r *ScnResult) Must(tf func(*Node) Transfer) map[*Node]Bits {
	in := map[pnode]Bits{}
	out := map[pnode]Bits{}
	preds := map[pnode][]pnode{}
	for p, ss := range r.edges {
		for _, s := range ss {
			preds[s] = append(preds[s], p)
		}
	}
	var all []pnode
	for p := range r.Reach {
		all = append(all, p)
		in[p], out[p] = allBits, allBits
	}
	work := append([]pnode(nil), all...)
	inWork := map[pnode]bool{}
	for _, p := range work {
		inWork[p] = true
	}
	for len(work) > 0 {
		p := work[0]
		work = work[1:]
		inWork[p] = false
		var i Bits
		if p == r.startKey {
			i = 0
		} else {
			i = allBits
			for _, q := range preds[p] {
				i &= out[q]
			}
		}
		in[p] = i
		t := tf(p.n)
		o := (i &^ t.Kill) | t.Gen
		if t.Reset {
			o = t.Gen
		}
		if o != out[p] {
			out[p] = o
			for _, s := range r.edges[p] {
				if !inWork[s] {
					inWork[s] = true
					work = append(work, s)
				}
			}
		}
	}
	res := map[*Node]Bits{}
	seen := map[*Node]bool{}
	for p, b := range in {
		if !seen[p.n] {
			seen[p.n] = true
			res[p.n] = b
		} else {
			res[p.n] &= b
		}
	}
	return res
}

// cellOf resolves an address to a simple memory cell: a local *ssa.Alloc (possibly reached through the
// free variable of a closure whose context is on the chain) that is only ever stored to directly in its
// owner function and only loaded elsewhere.  Returns the context owning the cell and the Alloc.
func (it *interp) cellOf(c *Ctx, addr ssa.Value) (*Ctx, *ssa.Alloc) {
	switch a := addr.(type) {
	case *ssa.Alloc:
		if simpleCell(a) {
			return c, a
		}
	case *ssa.FreeVar:
		// find the closure creation that bound this free variable
		idx := -1
		for i, fv := range c.Fn.FreeVars {
			if fv == a {
				idx = i
			}
		}
		if idx < 0 || c.Parent == nil || c.CallNode == nil || c.CallNode.Call == nil {
			return nil, nil
		}
		var mc *ssa.MakeClosure
		if m, ok := c.CallNode.Call.Value.(*ssa.MakeClosure); ok && m.Fn == ssa.Value(c.Fn) {
			mc = m
		}
		for _, arg := range c.CallNode.Call.Args {
			if m, ok := arg.(*ssa.MakeClosure); ok && m.Fn == ssa.Value(c.Fn) {
				mc = m
			}
		}
		if mc == nil || idx >= len(mc.Bindings) {
			return nil, nil
		}
		return it.cellOf(c.Parent, mc.Bindings[idx])
	}
	return nil, nil
}

var simpleCellCache = map[*ssa.Alloc]bool{}

func simpleCell(al *ssa.Alloc) bool {
	if v, ok := simpleCellCache[al]; ok {
		return v
	}
	ok := true
	if al.Referrers() == nil {
		ok = false
	} else {
		for _, r := range *al.Referrers() {
			switch x := r.(type) {
			case *ssa.Store:
				if x.Addr != ssa.Value(al) {
					ok = false
				}
			case *ssa.UnOp:
				if x.Op != token.MUL {
					ok = false
				}
			case *ssa.DebugRef:
			case *ssa.MakeClosure:
				f, isFn := x.Fn.(*ssa.Function)
				if !isFn {
					ok = false
					break
				}
				for i, b := range x.Bindings {
					if b != ssa.Value(al) || i >= len(f.FreeVars) {
						continue
					}
					fv := f.FreeVars[i]
					if fv.Referrers() == nil {
						continue
					}
					for _, fr := range *fv.Referrers() {
						if u, isLoad := fr.(*ssa.UnOp); !isLoad || u.Op != token.MUL {
							if _, dbg := fr.(*ssa.DebugRef); !dbg {
								ok = false
							}
						}
					}
				}
			default:
				ok = false
			}
		}
	}
	simpleCellCache[al] = ok
	return ok
}

// returnClass classifies the last result of a return: 1 = nil error / true, 2 = non-nil error / false, 0 = other.
// Paths returning values of different classes are kept in different trace partitions, so that the
// caller's test of the returned error stays correlated with what happened inside the callee.
func (it *interp) returnClass(n *Node, e env) uint8 {
	ret, ok := n.Instr.(*ssa.Return)
	if !ok || len(ret.Results) == 0 {
		return 0
	}
	last := ret.Results[len(ret.Results)-1]
	a := it.val(n.Ctx, last, e)
	switch {
	case isErrorType(last.Type()) && a.K == avRef:
		if a.Nil {
			return 1
		}
		return 2
	case a.K == avBool:
		if a.B {
			return 1
		}
		return 2
	}
	return 0
}

var trackableCache = map[*ssa.Alloc]bool{}

// trackableStruct: a locally allocated struct whose address is only used for field access, passed as an
// argument or receiver to functions of the analysed module (which the expanded CFG inlines, so their field
// stores are seen), bound into closures of the module, or returned.  Anything else (stored into memory,
// passed to an external function, sent on a channel) makes the struct untracked.
func trackableStruct(al *ssa.Alloc) bool {
	if v, ok := trackableCache[al]; ok {
		return v
	}
	ok := al.Referrers() != nil
	if ok {
		for _, r := range *al.Referrers() {
			switch x := r.(type) {
			case *ssa.FieldAddr, *ssa.DebugRef, *ssa.Return:
			case *ssa.UnOp: // the struct read as a whole (passed or copied by value)
			case *ssa.MakeClosure:
			case *ssa.Call:
				f := x.Call.StaticCallee()
				if f == nil || f.Blocks == nil || f.Pkg == nil || !strings.HasPrefix(f.Pkg.Pkg.Path(), ModPath) {
					ok = false
				}
			case *ssa.Store:
				if x.Val == ssa.Value(al) {
					ok = false
				}
			default:
				ok = false
			}
		}
	}
	trackableCache[al] = ok
	return ok
}

// May computes, on the subgraph that is feasible under the scenario, the events that may hold on entry to each
// node (union over feasible paths from the start; Kill removes an event along a path).
func (r *ScnResult) May(tf func(*Node) Transfer) map[*Node]Bits {
	in := map[pnode]Bits{}
	out := map[pnode]Bits{}
	work := []pnode{r.startKey}
	inWork := map[pnode]bool{r.startKey: true}
	preds := map[pnode][]pnode{}
	for p, ss := range r.edges {
		for _, s := range ss {
			preds[s] = append(preds[s], p)
		}
	}
	for p := range r.Reach {
		if !inWork[p] {
			inWork[p] = true
			work = append(work, p)
		}
	}
	for len(work) > 0 {
		p := work[0]
		work = work[1:]
		inWork[p] = false
		var i Bits
		for _, q := range preds[p] {
			i |= out[q]
		}
		in[p] = i
		t := tf(p.n)
		o := (i &^ t.Kill) | t.Gen
		if t.Reset {
			o = t.Gen
		}
		if o != out[p] {
			out[p] = o
			for _, s := range r.edges[p] {
				if !inWork[s] {
					inWork[s] = true
					work = append(work, s)
				}
			}
		}
	}
	res := map[*Node]Bits{}
	for p, b := range in {
		res[p.n] |= b
	}
	return res
}

// variadicValues returns the values stored into the compiler-built argument array of a variadic call
// (each unwrapped from its interface conversion), or nil when the shape is not recognised.
func variadicValues(v ssa.Value) []ssa.Value {
	sl, ok := v.(*ssa.Slice)
	if !ok {
		return nil
	}
	al, ok := sl.X.(*ssa.Alloc)
	if !ok || al.Referrers() == nil {
		return nil
	}
	arr, ok := deref(al.Type()).Underlying().(*types.Array)
	if !ok {
		return nil
	}
	out := make([]ssa.Value, arr.Len())
	for _, r := range *al.Referrers() {
		ia, ok := r.(*ssa.IndexAddr)
		if !ok || ia.Referrers() == nil {
			continue
		}
		k, ok := ia.Index.(*ssa.Const)
		if !ok {
			return nil
		}
		for _, r2 := range *ia.Referrers() {
			if st, ok := r2.(*ssa.Store); ok && st.Addr == ssa.Value(ia) && int(k.Int64()) < len(out) {
				val := st.Val
				if mi, ok := val.(*ssa.MakeInterface); ok {
					val = mi.X
				}
				out[k.Int64()] = val
			}
		}
	}
	for _, o := range out {
		if o == nil {
			return nil
		}
	}
	return out
}

// EdgeFeasible reports whether control can pass directly from node a to node b in the scenario (in any phase).
func (r *ScnResult) EdgeFeasible(a, b *Node) bool {
	for p, succs := range r.edges {
		if p.n != a {
			continue
		}
		for _, s := range succs {
			if s.n == b {
				return true
			}
		}
	}
	return false
}

// ReachedNodes: the set of nodes reachable in the scenario (the start node included).
func (r *ScnResult) ReachedNodes() map[*Node]bool {
	out := map[*Node]bool{}
	for p := range r.Reach {
		out[p.n] = true
	}
	return out
}
