package core

// ----------------------------------------------------------------------------
// Event dataflow over the expanded CFG.  Events are bits; every query is an
// iterative fixpoint (loops are never unrolled).
// ----------------------------------------------------------------------------

type Bits uint64

const allBits = ^Bits(0)

// Transfer describes one node's effect: out = (in &^ Kill) | Gen; Reset makes out = Gen.
type Transfer struct {
	Gen, Kill Bits
	Reset     bool
}

// Forward computes for every node the set of events that have occurred before it:
// on all paths from the entry (must=true, intersection at joins) or on some path (must=false).
func (g *XG) Forward(tf func(*Node) Transfer, must bool) map[*Node]Bits {
	in := map[*Node]Bits{}
	out := map[*Node]Bits{}
	for _, n := range g.Nodes {
		if must {
			in[n], out[n] = allBits, allBits
		}
	}
	in[g.Entry] = 0
	work := append([]*Node(nil), g.Nodes...)
	inWork := map[*Node]bool{}
	for _, n := range work {
		inWork[n] = true
	}
	for len(work) > 0 {
		n := work[0]
		work = work[1:]
		inWork[n] = false
		var i Bits
		if n == g.Entry {
			i = 0
		} else if must {
			i = allBits
			for _, p := range n.Preds {
				i &= out[p]
			}
		} else {
			for _, p := range n.Preds {
				i |= out[p]
			}
		}
		in[n] = i
		t := tf(n)
		o := (i &^ t.Kill) | t.Gen
		if t.Reset {
			o = t.Gen
		}
		if o != out[n] {
			out[n] = o
			for _, s := range n.Succs {
				if !inWork[s] {
					inWork[s] = true
					work = append(work, s)
				}
			}
		}
	}
	return in
}

// BackwardMust computes for every node the set of events that occur on every path from the node
// (exclusive) to a normal return of the root; paths that end in a never-returning call are vacuous.
func (g *XG) BackwardMust(gen func(*Node) Bits) map[*Node]Bits {
	after := map[*Node]Bits{} // events certain after n
	at := map[*Node]Bits{}    // gen(n) | after[n]
	for _, n := range g.Nodes {
		after[n], at[n] = allBits, allBits
	}
	work := append([]*Node(nil), g.Nodes...)
	inWork := map[*Node]bool{}
	for _, n := range work {
		inWork[n] = true
	}
	for len(work) > 0 {
		n := work[len(work)-1]
		work = work[:len(work)-1]
		inWork[n] = false
		var a Bits
		switch {
		case n.Kind == KRootRet:
			a = 0
		case len(n.Succs) == 0:
			a = allBits // exit: vacuous
		default:
			a = allBits
			for _, s := range n.Succs {
				a &= at[s]
			}
		}
		after[n] = a
		v := a | gen(n)
		if v != at[n] {
			at[n] = v
			for _, p := range n.Preds {
				if !inWork[p] {
					inWork[p] = true
					work = append(work, p)
				}
			}
		}
	}
	return after
}

// ReachableFrom: nodes reachable from start (inclusive) without passing through a node for which stop is true
// (stop nodes themselves are included but not expanded).
func (g *XG) ReachableFrom(start *Node, stop func(*Node) bool) map[*Node]bool {
	seen := map[*Node]bool{start: true}
	work := []*Node{start}
	for len(work) > 0 {
		n := work[len(work)-1]
		work = work[:len(work)-1]
		if n != start && stop != nil && stop(n) {
			continue
		}
		for _, s := range n.Succs {
			if !seen[s] {
				seen[s] = true
				work = append(work, s)
			}
		}
	}
	return seen
}
