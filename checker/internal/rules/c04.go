package rules

import (
	"fmt"
	"go/token"
	"go/types"
	"strings"

	"golang.org/x/tools/go/ssa"

	"scicheck/internal/core"
)

func init() { Registry["C04"] = c04 }

func c04(e *Env) {
	r := e.R
	r.Explanation = "Structural necessary conditions of exactly-once processing and delivery, decided on all paths: (R1) broadcast: in OutPort.Send/Close and OutParamPort.Send/Close the per-remote action (send on the remote's channel / CloseConnection) is executed for every element of RemotePorts (loop not left early, action on every iteration); (R2) InPort/InParamPort.CloseConnection close the channel exactly when, after the delete, no upstream remains (len == 0: scenarios len=0 ⇒ close inevitable, len=1,2 ⇒ close unreachable), delete before close, all under closeLock; (R3) the task-creation goroutine sends exactly one NewTask result per loop iteration on the feed channel, built from this iteration's receive rounds, and each receive helper takes exactly one element per port per round over the complete port map; (R4) a closed port (comma-ok false) ends task creation without a further task; (R5) runProcs starts every process of its map in a goroutine unconditionally, except the driver, whose Run is called once synchronously afterwards; (R6) the driver is excluded from the spawn set on the very map the loop ranges (skip or delete idiom); (R7) Process.Run forwards every output of a finished task and every streaming output of a started task (complete loops over Task.OutIPs), and the sink drains all its ports concurrently to closure."
	r.NotDecided = "absence of loss or duplication under all schedules as a whole (needs the behaviour of the channel network, see C05), Go channel FIFO semantics (assumed), contents of the files."
	a := e.anchors()
	if !a.ok() {
		return
	}
	p := e.P
	// ---- R1 broadcast
	type bc struct{ typ, method, action string }
	for _, x := range []bc{
		{"OutPort", "Send", "send"}, {"OutPort", "Close", "close"},
		{"OutParamPort", "Send", "send"}, {"OutParamPort", "Close", "close"},
	} {
		ob := r.Ob("R1", "(*"+x.typ+")."+x.method, "the per-remote "+x.action+" is executed for every element of RemotePorts")
		fn := p.DeclaredMethod("scipipe", x.typ, x.method)
		if fn == nil {
			ob.Unknown("-", "method not found")
			continue
		}
		g := e.XG(fn)
		if g == nil {
			continue
		}
		var isAct func(n *core.Node) bool
		if x.action == "send" {
			isAct = func(n *core.Node) bool { // a channel send whose channel is the Chan field of a remote port
				s, ok := n.Instr.(*ssa.Send)
				if !ok {
					return false
				}
				sy := e.symbolizer().InCtx(n.Ctx, s.Chan)
				return strings.Contains(sy.String(), "val∈$"+recvName(fn)+".RemotePorts")
			}
		} else {
			isAct = func(n *core.Node) bool {
				if n.Call == nil || n.Callee == nil || n.Callee.Name() != "CloseConnection" || n.IsGo {
					return false
				}
				sy := e.argSym(n, 0)
				return sy != nil && strings.Contains(sy.String(), "val∈$"+recvName(fn)+".RemotePorts")
			}
		}
		acts := g.Select(isAct)
		if len(acts) == 0 {
			ob.Fail(core.FuncName(fn), "no "+x.action+" to an element of the receiver's RemotePorts found: remotes are never notified")
			continue
		}
		for _, n := range acts {
			// the enclosing loop lives in the root function; lift the action to its call in the root context
			top := n
			for top.Ctx != g.Root && top.Ctx.CallNode != nil {
				top = top.Ctx.CallNode
			}
			if e.forAllOutputs(ob, g, top, isActOrContains(isAct), core.Scenario{}, x.action+" to all remotes") {
				ob.OK(g.Where(n), "complete range over RemotePorts, action on every iteration")
			}
		}
	}
	// ---- R2 close on last upstream
	for _, typ := range []string{"InPort", "InParamPort"} {
		e.c04CloseConnection(typ)
	}
	// ---- R3/R4 task creation
	e.c04CreateTasks()
	// ---- R5/R6 runProcs
	e.spawnRules("R5", "R6")
	// ---- R7 delivery through Process.Run and the sink
	e.forwardAllOutputs("R7")
	e.c05Sink("R7")
}

func recvName(fn *ssa.Function) string {
	if len(fn.Params) > 0 {
		return fn.Params[0].Name()
	}
	return "?"
}

// isActOrContains: a node counts as the action if it is the action or an inlined call whose body contains it.
func isActOrContains(isAct func(*core.Node) bool) func(*core.Node) bool {
	return func(n *core.Node) bool { return isAct(n) }
}

func (e *Env) c04CloseConnection(typ string) {
	r := e.R
	p := e.P
	fn := p.DeclaredMethod("scipipe", typ, "CloseConnection")
	obC := r.Ob("R2", "(*"+typ+").CloseConnection:close⇔last", "the channel is closed exactly when no upstream connection remains after the delete (len == 0)")
	obO := r.Ob("R2", "(*"+typ+").CloseConnection:delete≺close", "the closing upstream is removed from RemotePorts before the emptiness test, and the channel is closed at most once per call")
	obL := r.Ob("R2", "(*"+typ+").CloseConnection:lock", "delete, emptiness test and close execute with the port's closeLock held")
	if fn == nil {
		obC.Unknown("-", "method not found")
		return
	}
	g := e.XG(fn)
	if g == nil {
		return
	}
	rn := recvName(fn)
	onRecv := func(n *core.Node, i int, field string) bool {
		s := e.argSym(n, i)
		return s != nil && s.String() == "$"+rn+"."+field
	}
	isDel := func(n *core.Node) bool { return n.IsBuiltin("delete") && onRecv(n, 0, "RemotePorts") }
	isLen := func(n *core.Node) bool { return n.IsBuiltin("len") && onRecv(n, 0, "RemotePorts") }
	isClose := func(n *core.Node) bool { return n.IsBuiltin("close") && onRecv(n, 0, "Chan") }
	closes, lens, dels := g.Select(isClose), g.Select(isLen), g.Select(isDel)
	if len(closes) == 0 || len(lens) == 0 || len(dels) == 0 {
		obC.Fail(core.FuncName(fn), fmt.Sprintf("delete/len/close on the receiver's RemotePorts/Chan: %d/%d/%d sites (each expected)", len(dels), len(lens), len(closes)))
		return
	}
	for _, n := range lens {
		for _, k := range []int64{0, 1, 2} {
			res := g.Run(core.Scenario{Start: n, Result: core.IntAV(k)})
			reach := res.Reaches(isClose)
			if k == 0 {
				if w := res.ReachesAvoiding(func(m *core.Node) bool { return m.Kind == core.KRootRet }, isClose); w != nil {
					obC.Fail(g.Where(n), "with no upstream left (len == 0) CloseConnection can return without closing the channel: the consumer waits forever")
				} else {
					obC.OK(g.Where(n), "len=0 ⇒ close")
				}
			} else if reach != nil {
				obC.Fail(g.Where(n), fmt.Sprintf("with %d upstream(s) still connected the channel is closed: their later sends panic / items are lost", k))
			} else {
				obC.OK(g.Where(n), fmt.Sprintf("len=%d ⇒ no close", k))
			}
		}
	}
	const (
		evDel core.Bits = 1 << iota
		evClose
		evLen
	)
	tf := func(n *core.Node) core.Transfer {
		var b core.Bits
		if isDel(n) {
			b |= evDel
		}
		if isClose(n) {
			b |= evClose
		}
		if isLen(n) {
			b |= evLen
		}
		return core.Transfer{Gen: b}
	}
	must, may := g.Forward(tf, true), g.Forward(tf, false)
	for _, n := range lens {
		obO.Check(must[n]&evDel != 0, g.Where(n), "delete precedes the emptiness test", "the emptiness test can run before this upstream was removed")
	}
	for _, n := range closes {
		obO.Check(must[n]&evDel != 0 && must[n]&evLen != 0 && may[n]&evClose == 0, g.Where(n), "delete and test precede the single close", "close is not preceded by delete+test on every path, or may execute twice")
	}
	li := e.locksets(g)
	for _, n := range append(append(append([]*core.Node{}, dels...), lens...), closes...) {
		held := li.held(li.must[n])
		ok := false
		for _, h := range held {
			if strings.HasSuffix(h, ".closeLock") && strings.Contains(h, "$"+rn) {
				ok = true
			}
		}
		obL.Check(ok, g.Where(n), "closeLock held", nodeDesc(n)+" with must-held lockset {"+strings.Join(held, ",")+"}: two upstreams closing concurrently can both see len == 0 (double close) or corrupt the map")
	}
}

func (e *Env) c04CreateTasks() {
	r := e.R
	a := e.anchors()
	p := e.P
	ct := p.DeclaredMethod("scipipe", "Process", "createTasks")
	ob3 := r.Ob("R3", "createTasks:one-task-per-iteration", "the task-creation goroutine sends exactly one NewTask result per loop iteration on the feed channel, built from this iteration's receive rounds")
	var closure *ssa.Function
	if ct != nil {
		for _, b := range ct.Blocks {
			for _, in := range b.Instrs {
				if gi, ok := in.(*ssa.Go); ok {
					if f := funcOf(gi.Call.Value); f != nil {
						closure = f
					}
				}
			}
		}
	}
	if closure == nil {
		ob3.Unknown("-", "task-creation goroutine of (*Process).createTasks not found")
		return
	}
	g := e.XG(closure)
	if g == nil {
		return
	}
	// feed sends: sends whose value is a NewTask call
	isFeed := func(n *core.Node) bool {
		s, ok := n.Instr.(*ssa.Send)
		if !ok || n.Ctx != g.Root {
			return false
		}
		c, ok := s.X.(*ssa.Call)
		return ok && c.Call.StaticCallee() == a.newTask
	}
	feeds := g.Select(isFeed)
	if len(feeds) != 1 {
		ob3.Fail(core.FuncName(closure), fmt.Sprintf("%d sends of a NewTask result on the feed channel (exactly 1 expected)", len(feeds)))
	} else {
		n := feeds[0]
		l := core.InnermostLoop(n.Instr)
		switch {
		case l == nil:
			ob3.Fail(g.Where(n), "the feed send is not inside the task-creation loop")
		case !core.OncePerIteration(l, n.Instr):
			ob3.Fail(g.Where(n), "the feed send is not executed exactly once per iteration of the task-creation loop")
		default:
			call := n.Instr.(*ssa.Send).X.(*ssa.Call)
			sy := e.symbolizer()
			inIPs := sy.InFunc(closure, call.Call.Args[4]).String()
			params := sy.InFunc(closure, call.Call.Args[7]).String()
			if !strings.Contains(inIPs, "receiveOnInPorts") || !strings.Contains(params, "receiveOnInParamPorts") {
				ob3.Fail(g.Where(n), "the task is not built from the receive rounds: inIPs="+inIPs+" params="+params)
			} else {
				ob3.OK(g.Where(n), "one send per iteration; inIPs ← receiveOnInPorts, params ← receiveOnInParamPorts")
			}
		}
	}
	// receive helpers
	for _, h := range []struct{ name, ports string }{{"receiveOnInPorts", "InPorts"}, {"receiveOnInParamPorts", "InParamPorts"}} {
		ob := r.Ob("R3", h.name+":one-per-port", "each receive round takes exactly one element from the channel of every port of the process")
		fn := p.DeclaredMethod("scipipe", "BaseProcess", h.name)
		if fn == nil {
			ob.Unknown("-", "helper not found")
			continue
		}
		gh := e.XG(fn)
		if gh == nil {
			continue
		}
		isRecv := func(n *core.Node) bool {
			u, ok := n.Instr.(*ssa.UnOp)
			return ok && u.Op == token.ARROW && n.Ctx == gh.Root
		}
		recvs := gh.Select(isRecv)
		if len(recvs) != 1 {
			ob.Fail(core.FuncName(fn), fmt.Sprintf("%d channel receives in the helper (exactly 1, inside the loop over the ports, expected)", len(recvs)))
			continue
		}
		n := recvs[0]
		chs := e.symbolizer().InCtx(n.Ctx, n.Instr.(*ssa.UnOp).X).String()
		if !strings.Contains(chs, "val∈") || !strings.Contains(chs, h.ports) {
			ob.Fail(gh.Where(n), "the receive is not on the channel of an element of "+h.ports+"(): "+chs)
			continue
		}
		if e.forAllOutputs(ob, gh, n, func(m *core.Node) bool { return m == n }, core.Scenario{}, "receive on every port") {
			ob.OK(gh.Where(n), "one receive per port, complete range: "+chs)
		}
	}
	// ---- R4 closed port ends task creation
	ob4 := r.Ob("R4", "createTasks:closed⇒stop", "when a port is found closed (comma-ok false) no further task is created")
	n4 := 0
	for _, n := range g.Nodes {
		u, ok := n.Instr.(*ssa.UnOp)
		if !ok || u.Op != token.ARROW || !u.CommaOk {
			continue
		}
		// only receives on the channel of one of the process's own in-ports / parameter in-ports
		chs := e.symbolizer().InCtx(n.Ctx, u.X).String()
		if !strings.HasPrefix(chs, "val∈") || !(strings.Contains(chs, "InPorts(") || strings.Contains(chs, "InParamPorts(") || strings.Contains(chs, ".inPorts") || strings.Contains(chs, ".inParamPorts")) {
			continue
		}
		n4++
		res := g.Run(core.Scenario{Start: n, Result: core.TupleAV(core.Top, core.BoolAV(false))})
		if w := res.Reaches(isFeed); w != nil {
			ob4.Fail(g.Where(n), "after a port was found closed a task is still sent on the feed channel (an incomplete input set would be executed, or the loop spins)")
		} else if res.NormalReturn() == nil {
			ob4.Fail(g.Where(n), "after a port was found closed the task-creation goroutine never terminates")
		} else {
			ob4.OK(g.Where(n), "closed ⇒ goroutine ends without a further task")
		}
	}
	if n4 == 0 {
		ob4.Unknown(core.FuncName(closure), "no comma-ok receive in the task-creation goroutine's call tree")
	}
	// no-ports case: exactly one task
	ob4b := r.Ob("R4", "createTasks:no-ports⇒once", "a process without in-ports and parameter ports creates exactly one task")
	lenOf := func(n *core.Node) string {
		if !n.IsBuiltin("len") || n.Ctx != g.Root {
			return ""
		}
		return e.argSym(n, 0).String()
	}
	zero := func(m *core.Node) (core.AV, bool) {
		if lenOf(m) != "" {
			return core.IntAV(0), true
		}
		return core.Top, false
	}
	res := g.Run(core.Scenario{Start: g.Entry, CallResult: zero})
	switch {
	case res.Reaches(isFeed) == nil:
		ob4b.Fail(core.FuncName(closure), "with no ports at all no task is created")
	case res.NormalReturn() == nil:
		ob4b.Fail(core.FuncName(closure), "with no ports at all the task-creation loop never ends")
	default:
		// after the first feed send, a second one must be unreachable
		var first *core.Node
		for _, n := range feeds {
			first = n
		}
		if first != nil {
			res2 := g.Run(core.Scenario{Start: first, CallResult: zero})
			if res2.Reaches(isFeed) != nil {
				ob4b.Fail(g.Where(first), "with no ports at all a second task can be created")
			} else {
				ob4b.OK(g.Where(first), "len(inPorts)=len(inParamPorts)=0 ⇒ one task, then the goroutine ends")
			}
		}
	}
}

func funcOf(v ssa.Value) *ssa.Function {
	switch x := v.(type) {
	case *ssa.Function:
		return x
	case *ssa.MakeClosure:
		f, _ := x.Fn.(*ssa.Function)
		return f
	}
	return nil
}

// spawnRules: runProcs starts every process once (C04.R5/R6, shared by C05 and C16).
func (e *Env) spawnRules(ruleSpawn, ruleDriver string) {
	r := e.R
	p := e.P
	rp := p.DeclaredMethod("scipipe", "Workflow", "runProcs")
	obGo := r.Ob(ruleSpawn, "runProcs:go-Run-all", "every process of the run set is started in a goroutine (the spawn loop ranges the whole map and is not left early)")
	obDrv := r.Ob(ruleSpawn, "runProcs:driver.Run-once", "the driver's Run is invoked exactly once, synchronously, after the spawn loop")
	obEx := r.Ob(ruleDriver, "runProcs:driver∉spawn", "the driver process is excluded from the spawned set on the very map the spawn loop ranges (skip-in-loop or delete-from-ranged-map)")
	if rp == nil {
		obGo.Unknown("-", "(*Workflow).runProcs not found")
		return
	}
	wfT := p.Named("scipipe", "WorkflowProcess")
	isRunInvoke := func(c *ssa.CallCommon) bool {
		return c.IsInvoke() && c.Method.Name() == "Run" && wfT != nil && types.Identical(c.Value.Type(), wfT)
	}
	var goRuns []*ssa.Go
	var syncRuns []*ssa.Call
	for _, b := range rp.Blocks {
		for _, in := range b.Instrs {
			switch x := in.(type) {
			case *ssa.Go:
				if isRunInvoke(&x.Call) {
					goRuns = append(goRuns, x)
				}
			case *ssa.Call:
				if isRunInvoke(&x.Call) {
					syncRuns = append(syncRuns, x)
				}
			}
		}
	}
	sy := e.symbolizer()
	if len(goRuns) != 1 {
		obGo.Fail(core.FuncName(rp), fmt.Sprintf("%d `go <process>.Run()` statements in runProcs (1 expected)", len(goRuns)))
		return
	}
	gr := goRuns[0]
	l := core.InnermostLoop(gr)
	rv := sy.InFunc(rp, gr.Call.Value)
	if l == nil || rv.Op != "rangeval" {
		obGo.Fail(e.where(gr), "the spawned process is not the element of a range loop: "+rv.String())
		return
	}
	ranged := rv.Args[0]
	if ex := p.EarlyExits(l); len(ex) > 0 {
		obGo.Fail(e.where(gr), "the spawn loop can be left before all processes are started: "+ex[0])
	} else {
		obGo.OK(e.where(gr), "go Run over every element of "+ranged.String())
	}
	// guards on the path from the loop body entry to the go: only a driver comparison is allowed
	drvField := p.FieldVar("scipipe", "Workflow", "driver")
	guardOK, usesSkip := true, false
	for d := gr.Block(); d != nil && l.Blocks[d] && d != l.Header; d = d.Idom() {
		id := d.Idom()
		if id == nil || !l.Blocks[id] {
			break
		}
		iff, ok := id.Instrs[len(id.Instrs)-1].(*ssa.If)
		if !ok || id == l.Header {
			continue
		}
		// id branches; d is on one side. Is the condition a comparison with the driver?
		cs := sy.InFunc(rp, iff.Cond)
		isDrvCmp := false
		if bo, ok := iff.Cond.(*ssa.BinOp); ok && (bo.Op == token.EQL || bo.Op == token.NEQ) {
			ls, rs := sy.InFunc(rp, bo.X).String(), sy.InFunc(rp, bo.Y).String()
			mentionsDrv := func(s string) bool { return strings.Contains(s, "."+fieldName(drvField)) }
			mentionsElem := func(s string) bool { return strings.Contains(s, "val∈") }
			if (mentionsDrv(ls) && mentionsElem(rs)) || (mentionsDrv(rs) && mentionsElem(ls)) {
				// the go must be on the "different from driver" side
				neqSide := id.Succs[1]
				if bo.Op == token.NEQ {
					neqSide = id.Succs[0]
				}
				if neqSide.Dominates(gr.Block()) {
					isDrvCmp, usesSkip = true, true
				}
			}
		}
		if !isDrvCmp {
			guardOK = false
			obGo.Fail(e.where(iff), "the start of a process in the spawn loop depends on the condition "+cs.String()+": some processes of the run set may never be started")
		}
	}
	_ = guardOK
	// the synchronous driver run
	nDrv := 0
	for _, c := range syncRuns {
		s := sy.InFunc(rp, c.Call.Value).String()
		if strings.Contains(s, "."+fieldName(drvField)) {
			nDrv++
			inLoop := core.InnermostLoop(c) != nil
			after := l.Header.Dominates(c.Block()) && !l.Blocks[c.Block()]
			obDrv.Check(!inLoop && after, e.where(c), "driver.Run() once after the spawn loop", "the driver's Run is inside a loop or not after the spawn loop")
		}
	}
	if nDrv != 1 {
		obDrv.Fail(core.FuncName(rp), fmt.Sprintf("%d synchronous calls of the driver's Run (exactly 1 expected)", nDrv))
	}
	// exclusion of the driver
	if usesSkip {
		obEx.OK(e.where(gr), "skip-in-loop: the go is reached only when the element differs from the driver")
		return
	}
	// delete idiom: delete(<the ranged map>, key derived from driver) before the loop, in runProcs or a callee given the same map
	rangedParam, _ := ranged.Val.(*ssa.Parameter)
	found := false
	var visit func(fn *ssa.Function, mapParam *ssa.Parameter, depth int)
	visit = func(fn *ssa.Function, mapParam *ssa.Parameter, depth int) {
		if depth > 3 || fn == nil || fn.Blocks == nil {
			return
		}
		for _, b := range fn.Blocks {
			for _, in := range b.Instrs {
				c, ok := in.(*ssa.Call)
				if !ok {
					continue
				}
				if bi, ok := c.Call.Value.(*ssa.Builtin); ok && bi.Name() == "delete" {
					if c.Call.Args[0] == ssa.Value(mapParam) && strings.Contains(sy.InFunc(fn, c.Call.Args[1]).String(), "."+fieldName(drvField)) {
						found = true
					}
				}
				if cal := c.Call.StaticCallee(); cal != nil && p.IsLib(cal) {
					for i, arg := range c.Call.Args {
						if arg == ssa.Value(mapParam) && i < len(cal.Params) {
							visit(cal, cal.Params[i], depth+1)
						}
					}
				}
			}
		}
	}
	if rangedParam != nil {
		visit(rp, rangedParam, 0)
	}
	if found {
		obEx.OK(e.where(gr), "delete-from-ranged-map idiom")
	} else {
		obEx.Fail(e.where(gr), "nothing keeps the driver out of the spawned set: the spawn loop ranges "+ranged.String()+" and neither skips the driver nor is it deleted from that same map (a delete on another map, e.g. wf.procs when RunTo passes a fresh map, does not count). The driver would run twice, competing for the same in-ports")
	}
}

func fieldName(f *types.Var) string {
	if f == nil {
		return "\x00"
	}
	return f.Name()
}
