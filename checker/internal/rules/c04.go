package rules

import (
	"fmt"
	"go/constant"
	"go/token"
	"go/types"
	"strings"

	"golang.org/x/tools/go/ssa"

	"scicheck/internal/core"
)

func init() { Registry["C04"] = c04 }

func c04(e *Env) {
	r := e.R
	r.Explanation = "Structural necessary conditions of exactly-once processing and delivery, decided on all paths: (R1) broadcast: in OutPort.Send/Close and OutParamPort.Send/Close the per-remote action (send on the remote's channel / CloseConnection) is executed for every element of RemotePorts (loop not left early, action on every iteration); (R2) InPort/InParamPort.CloseConnection close the channel exactly when, after the delete, no upstream remains (len == 0: scenarios len=0 ⇒ close inevitable, len=1,2 ⇒ close unreachable), delete before close, all under closeLock; (R3) the task-creation goroutine sends exactly one NewTask result per loop iteration on the feed channel, built from this iteration's receive rounds, and each receive helper takes exactly one element per port per round over the complete port map; (R4) a closed port (comma-ok false) ends task creation without a further task; (R5) runProcs starts every process of its map in a goroutine unconditionally, except the driver, whose Run is called once synchronously afterwards; (R6) the driver is excluded from the spawn set on the very map the loop ranges (skip or delete idiom); (R7) Process.Run forwards every output of a finished task and every streaming output of a started task (complete loops over Task.OutIPs), and the sink drains all its ports concurrently to closure."
	r.NotDecided = "absence of loss or duplication under all schedules as a whole (needs the behaviour of the channel network, see C05), Go channel FIFO semantics (assumed), contents of the files."
	a := e.anchors()
	if !a.ok() {
		return
	}
	p := e.P
	// ---- R1 broadcast
	type bc struct{ typ, method, action string }
	for _, x := range []bc{
		{"OutPort", "Send", "send"}, {"OutPort", "Close", "close"},
		{"OutParamPort", "Send", "send"}, {"OutParamPort", "Close", "close"},
	} {
		ob := r.Ob("R1", "(*"+x.typ+")."+x.method, "the per-remote "+x.action+" is executed for every element of RemotePorts")
		fn := p.DeclaredMethod("scipipe", x.typ, x.method)
		if fn == nil {
			ob.Unknown("-", "method not found")
			continue
		}
		g := e.XG(fn)
		if g == nil {
			continue
		}
		var isAct func(n *core.Node) bool
		if x.action == "send" {
			isAct = func(n *core.Node) bool { // a channel send whose channel is the Chan field of a remote port
				s, ok := n.Instr.(*ssa.Send)
				if !ok {
					return false
				}
				sy := e.symbolizer().InCtx(n.Ctx, s.Chan)
				return strings.Contains(sy.String(), "val∈$"+recvName(fn)+".RemotePorts")
			}
		} else {
			isAct = func(n *core.Node) bool {
				if n.Call == nil || n.Callee == nil || n.Callee.Name() != "CloseConnection" || n.IsGo {
					return false
				}
				sy := e.argSym(n, 0)
				return sy != nil && strings.Contains(sy.String(), "val∈$"+recvName(fn)+".RemotePorts")
			}
		}
		acts := g.Select(isAct)
		if len(acts) == 0 {
			ob.Fail(core.FuncName(fn), "no "+x.action+" to an element of the receiver's RemotePorts found: remotes are never notified")
			continue
		}
		for _, n := range acts {
			// the enclosing loop lives in the root function; lift the action to its call in the root context
			top := n
			for top.Ctx != g.Root && top.Ctx.CallNode != nil {
				top = top.Ctx.CallNode
			}
			if e.forAllOutputs(ob, g, top, isActOrContains(isAct), core.Scenario{}, x.action+" to all remotes") {
				ob.OK(g.Where(n), "complete range over RemotePorts, action on every iteration")
			}
		}
	}
	// ---- R2 close on last upstream
	for _, typ := range []string{"InPort", "InParamPort"} {
		e.c04CloseConnection(typ)
	}
	// ---- R3/R4 task creation
	e.c04CreateTasks()
	// ---- R5/R6 runProcs
	e.spawnRules("R5", "R6")
	e.connectRule("R10")
	// ---- R7 delivery through Process.Run and the sink
	e.forwardAllOutputs("R7")
	e.c05Sink("R7")
	// ---- R8 every created task can get its slots (shared with C07.R1 / C05.R9): a task that waits forever for
	// the rest of its tokens is never executed
	e.slotMutexSpansLoop("R8")
	// ---- R9 items are forwarded in input order (shared with C08.R2): pairing in multi-port consumers, and hence
	// the produced files, must not depend on which task finishes first
	e.headOnlyRule("R9")
}

func recvName(fn *ssa.Function) string {
	if len(fn.Params) > 0 {
		return core.ParamName(fn.Params[0])
	}
	return "?"
}

// isActOrContains: a node counts as the action if it is the action or an inlined call whose body contains it.
func isActOrContains(isAct func(*core.Node) bool) func(*core.Node) bool {
	return func(n *core.Node) bool { return isAct(n) }
}

func (e *Env) c04CloseConnection(typ string) {
	r := e.R
	p := e.P
	fn := p.DeclaredMethod("scipipe", typ, "CloseConnection")
	obC := r.Ob("R2", "(*"+typ+").CloseConnection:close⇔last", "the channel is closed exactly when no upstream connection remains after the delete (len == 0)")
	obO := r.Ob("R2", "(*"+typ+").CloseConnection:delete≺close", "the closing upstream is removed from RemotePorts before the emptiness test, and the channel is closed at most once per call")
	obL := r.Ob("R2", "(*"+typ+").CloseConnection:lock", "delete, emptiness test and close execute with the port's closeLock held")
	if fn == nil {
		obC.Unknown("-", "method not found")
		return
	}
	g := e.XG(fn)
	if g == nil {
		return
	}
	rn := recvName(fn)
	onRecv := func(n *core.Node, i int, field string) bool {
		s := e.argSym(n, i)
		return s != nil && s.String() == "$"+rn+"."+field
	}
	isDel := func(n *core.Node) bool { return n.IsBuiltin("delete") && onRecv(n, 0, "RemotePorts") }
	isLen := func(n *core.Node) bool { return n.IsBuiltin("len") && onRecv(n, 0, "RemotePorts") }
	isClose := func(n *core.Node) bool { return n.IsBuiltin("close") && onRecv(n, 0, "Chan") }
	closes, lens, dels := g.Select(isClose), g.Select(isLen), g.Select(isDel)
	if len(closes) == 0 || len(lens) == 0 || len(dels) == 0 {
		obC.Fail(core.FuncName(fn), fmt.Sprintf("delete/len/close on the receiver's RemotePorts/Chan: %d/%d/%d sites (each expected)", len(dels), len(lens), len(closes)))
		return
	}
	for _, n := range lens {
		for _, k := range []int64{0, 1, 2} {
			res := g.Run(core.Scenario{Start: n, Result: core.IntAV(k)})
			reach := res.Reaches(isClose)
			if k == 0 {
				if w := res.ReachesAvoiding(func(m *core.Node) bool { return m.Kind == core.KRootRet }, isClose); w != nil {
					obC.Fail(g.Where(n), "with no upstream left (len == 0) CloseConnection can return without closing the channel: the consumer waits forever")
				} else {
					obC.OK(g.Where(n), "len=0 ⇒ close")
				}
			} else if reach != nil {
				obC.Fail(g.Where(n), fmt.Sprintf("with %d upstream(s) still connected the channel is closed: their later sends panic / items are lost", k))
			} else {
				obC.OK(g.Where(n), fmt.Sprintf("len=%d ⇒ no close", k))
			}
		}
	}
	const (
		evDel core.Bits = 1 << iota
		evClose
		evLen
	)
	tf := func(n *core.Node) core.Transfer {
		var b core.Bits
		if isDel(n) {
			b |= evDel
		}
		if isClose(n) {
			b |= evClose
		}
		if isLen(n) {
			b |= evLen
		}
		return core.Transfer{Gen: b}
	}
	must, may := g.Forward(tf, true), g.Forward(tf, false)
	for _, n := range lens {
		obO.Check(must[n]&evDel != 0, g.Where(n), "delete precedes the emptiness test", "the emptiness test can run before this upstream was removed")
	}
	for _, n := range closes {
		obO.Check(must[n]&evDel != 0 && must[n]&evLen != 0 && may[n]&evClose == 0, g.Where(n), "delete and test precede the single close", "close is not preceded by delete+test on every path, or may execute twice")
	}
	li := e.locksets(g)
	var mapReads []*core.Node
	for _, n := range g.Nodes {
		if n.Kind == core.KAfter {
			continue
		}
		switch x := n.Instr.(type) {
		case *ssa.Lookup:
			if f := fieldOfLoad(x.X); f != nil && f.Name() == "RemotePorts" {
				mapReads = append(mapReads, n)
			}
		case *ssa.Range:
			if f := fieldOfLoad(x.X); f != nil && f.Name() == "RemotePorts" {
				mapReads = append(mapReads, n)
			}
		}
	}
	for _, n := range append(append(append(append([]*core.Node{}, dels...), lens...), closes...), mapReads...) {
		held := li.held(li.must[n])
		ok := false
		for _, h := range held {
			if strings.Contains(h, "$"+rn+".") { // a mutex field of the port itself, whatever it is called
				ok = true
			}
		}
		obL.Check(ok, g.Where(n), "closeLock held", nodeDesc(n)+" with must-held lockset {"+strings.Join(held, ",")+"}: two upstreams closing concurrently can both see len == 0 (double close) or corrupt the map")
	}
	// ... and the lock is given back: at every normal return nothing is still held (the next upstream that closes into
	// this port would block forever, and with it its whole process)
	obU := r.Ob("R2", "(*"+typ+").CloseConnection:unlock", "the port's lock is released on every returning path")
	nRet := 0
	for _, n := range g.Nodes {
		if n.Kind != core.KRootRet {
			continue
		}
		nRet++
		still := li.held(li.may[n])
		var mine []string
		for _, h := range still {
			if strings.Contains(h, "$"+rn+".") {
				mine = append(mine, h)
			}
		}
		obU.Check(len(mine) == 0, g.Where(n), "nothing held at return", "CloseConnection can return with "+strings.Join(mine, ",")+" still locked: the next upstream closing into this port blocks forever")
	}
	if nRet == 0 {
		obU.Fail(core.FuncName(fn), "CloseConnection never returns normally")
	}
}

// taskFeeder: the goroutine started in Process.Run's call tree whose body sends *Task values on a channel.
func (e *Env) taskFeeder() (*ssa.Function, *core.XG) {
	a := e.anchors()
	g := e.XG(a.procRun)
	if g == nil {
		return nil, nil
	}
	for _, n := range g.Nodes {
		if !n.IsGo {
			continue
		}
		f := n.Call.StaticCallee()
		if f == nil {
			f = funcOf(n.Call.Value)
		}
		if f == nil || f == a.execute || f.Blocks == nil {
			continue
		}
		gf := e.XG(f)
		if gf == nil {
			continue
		}
		for _, m := range gf.Nodes {
			if s, ok := m.Instr.(*ssa.Send); ok && isPtrToNamed(s.X.Type(), "Task") {
				return f, gf
			}
		}
	}
	return nil, nil
}

func (e *Env) c04CreateTasks() {
	r := e.R
	a := e.anchors()
	ob3 := r.Ob("R3", "createTasks:one-task-per-iteration", "the task-creation goroutine sends exactly one NewTask result per loop iteration on the feed channel, built from this iteration's receive rounds")
	closure, g := e.taskFeeder()
	if closure == nil {
		ob3.Unknown("-", "no goroutine feeding *Task values found in Process.Run's call tree")
		return
	}
	xs := e.xsym()
	isFeed := func(n *core.Node) bool {
		s, ok := n.Instr.(*ssa.Send)
		return ok && isPtrToNamed(s.X.Type(), "Task")
	}
	// the receive rounds: functions containing a comma-ok receive on the channel of every element of the port maps
	type round struct {
		n     *core.Node
		ports string
	}
	var rounds []round
	for _, n := range g.Nodes {
		u, ok := n.Instr.(*ssa.UnOp)
		if !ok || u.Op != token.ARROW || !u.CommaOk {
			continue
		}
		chs := e.symbolizer().InCtx(n.Ctx, u.X).String()
		if !strings.HasPrefix(chs, "val∈") {
			continue
		}
		switch {
		case strings.Contains(chs, "InParamPorts(") || strings.Contains(chs, ".inParamPorts"):
			rounds = append(rounds, round{n, "InParamPorts"})
		case strings.Contains(chs, "InPorts(") || strings.Contains(chs, ".inPorts"):
			rounds = append(rounds, round{n, "InPorts"})
		}
	}
	feeds := g.Select(isFeed)
	if len(feeds) != 1 {
		ob3.Fail(core.FuncName(closure), fmt.Sprintf("%d sends of a task on the feed channel (exactly 1 expected)", len(feeds)))
	} else {
		n := feeds[0]
		las := g.EnclLoops(n)
		okOnce := len(las) > 0
		if okOnce {
			// the send is executed on every iteration of the task loop that goes on: its call chain node dominates the latches
			okOnce = core.OncePerIteration(las[len(las)-1].L, las[len(las)-1].At.Instr)
		}
		val := xs.InCtx(n.Ctx, n.Instr.(*ssa.Send).X)
		var nt *core.Sym
		val.Walk(func(z *core.Sym) bool {
			if nt == nil && z.Op == "call" && z.Callee == a.newTask {
				nt = z
			}
			return nt == nil
		})
		switch {
		case !okOnce:
			ob3.Fail(g.Where(n), "the feed send is not executed exactly once per iteration of the task-creation loop")
		case nt == nil || len(nt.Args) < 8:
			ob3.Fail(g.Where(n), "the value sent is not a NewTask(...) result: "+trunc(val.String(), 120))
		default:
			inIPs, params := nt.Args[4].String(), nt.Args[7].String()
			// each must be rooted in the function that performs the corresponding receive round
			rootedIn := func(z *core.Sym, fn *ssa.Function) bool {
				hit := false
				z.Walk(func(w *core.Sym) bool {
					if w.Fn == fn || (w.Op == "call" && w.Callee == fn) {
						hit = true
					}
					return !hit
				})
				return hit
			}
			okIn, okPar := false, false
			for _, rd := range rounds {
				if rd.ports == "InPorts" && (rd.n.Ctx == g.Root || rootedIn(nt.Args[4], rd.n.Ctx.Fn)) {
					okIn = true
				}
				if rd.ports == "InParamPorts" && (rd.n.Ctx == g.Root || rootedIn(nt.Args[7], rd.n.Ctx.Fn)) {
					okPar = true
				}
			}
			if !okIn || !okPar {
				ob3.Fail(g.Where(n), "the task is not built from this iteration's receive rounds: inIPs="+trunc(inIPs, 100)+" params="+trunc(params, 100))
			} else {
				ob3.OK(g.Where(n), "one send per iteration; in-IPs and params come from the receive rounds")
			}
		}
	}
	// receive rounds: one receive per port, complete range
	for _, kind := range []string{"InPorts", "InParamPorts"} {
		key := "receiveOnInPorts"
		if kind == "InParamPorts" {
			key = "receiveOnInParamPorts"
		}
		ob := r.Ob("R3", key+":one-per-port", "each receive round takes exactly one element from the channel of every port of the process")
		cnt := 0
		for _, rd := range rounds {
			if rd.ports != kind {
				continue
			}
			cnt++
			chs := e.symbolizer().InCtx(rd.n.Ctx, rd.n.Instr.(*ssa.UnOp).X).String()
			if e.forAllOutputs(ob, g, rd.n, func(m *core.Node) bool { return m == rd.n }, core.Scenario{}, "receive on every port") {
				ob.OK(g.Where(rd.n), "one receive per port, complete range: "+chs)
			}
		}
		if cnt != 1 {
			ob.Fail(core.FuncName(closure), fmt.Sprintf("%d receives on the channels of %s() per round (exactly 1, inside the loop over the ports, expected)", cnt, kind))
		}
	}
	// ---- R4 closed port ends task creation
	ob4 := r.Ob("R4", "createTasks:closed⇒stop", "when a port is found closed (comma-ok false) no further task is created")
	for _, rd := range rounds {
		res := g.Run(core.Scenario{Start: rd.n, Result: core.TupleAV(core.Top, core.BoolAV(false))})
		if w := res.Reaches(isFeed); w != nil {
			ob4.Fail(g.Where(rd.n), "after a port was found closed a task is still sent on the feed channel (an incomplete input set would be executed, or the loop spins)")
		} else if res.NormalReturn() == nil {
			ob4.Fail(g.Where(rd.n), "after a port was found closed the task-creation goroutine never terminates")
		} else {
			ob4.OK(g.Where(rd.n), "closed ⇒ goroutine ends without a further task")
		}
	}
	if len(rounds) == 0 {
		ob4.Unknown(core.FuncName(closure), "no comma-ok receive on a port channel in the task-creation goroutine's call tree")
	}
	// no-ports case: exactly one task
	ob4b := r.Ob("R4", "createTasks:no-ports⇒once", "a process without in-ports and parameter ports creates exactly one task")
	isPortLen := func(m *core.Node) bool {
		if !m.IsBuiltin("len") {
			return false
		}
		s := e.symbolizer().InCtx(m.Ctx, m.Call.Args[0]).String()
		return strings.Contains(s, "inPorts") || strings.Contains(s, "inParamPorts") || strings.Contains(s, "InPorts(") || strings.Contains(s, "InParamPorts(")
	}
	zero := func(m *core.Node) (core.AV, bool) {
		if isPortLen(m) {
			return core.IntAV(0), true
		}
		return core.Top, false
	}
	res := g.Run(core.Scenario{Start: g.Entry, AtEntry: true, CallResult: zero})
	switch {
	case res.Reaches(isFeed) == nil:
		ob4b.Fail(core.FuncName(closure), "with no ports at all no task is created")
	case res.NormalReturn() == nil:
		ob4b.Fail(core.FuncName(closure), "with no ports at all the task-creation loop never ends")
	default:
		for _, first := range feeds {
			// from the goroutine's entry (the port counts may be tested once, before the loop), marking the send: can a
			// feed send (this one again, or another) follow it?
			res2 := g.Run(core.Scenario{Start: g.Entry, AtEntry: true, CallResult: zero, Marker: first})
			if res2.MarkerRepeats() || res2.ReachesAfterMarker(func(m *core.Node) bool { return isFeed(m) && m != first }) != nil {
				ob4b.Fail(g.Where(first), "with no ports at all a second task can be created")
			} else {
				ob4b.OK(g.Where(first), "no ports ⇒ one task, then the goroutine ends")
			}
		}
	}
}

func funcOf(v ssa.Value) *ssa.Function {
	switch x := v.(type) {
	case *ssa.Function:
		return x
	case *ssa.MakeClosure:
		f, _ := x.Fn.(*ssa.Function)
		return f
	}
	return nil
}

// runRoot: the expanded CFG of Workflow.Run (it contains the whole start-up: rewiring, readiness, spawning).
func (e *Env) runRoot() *core.XG {
	run := e.P.DeclaredMethod("scipipe", "Workflow", "Run")
	if run == nil {
		return nil
	}
	return e.XG(run)
}

// chainGuards lists, with polarity, the branch conditions that control whether node n is reached, from n up
// to (and inside) the loop la along the calling-context chain; loop-continuation tests are left out.
func (e *Env) chainGuards(g *core.XG, n *core.Node, la core.LoopAt) []string {
	var out []string
	xs := e.xsym()
	for x := n; x != nil; x = x.Ctx.CallNode {
		b := x.Instr.Block()
		for d := b; d != nil; d = d.Idom() {
			id := d.Idom()
			if id == nil {
				break
			}
			if x == la.At && !la.L.Blocks[id] {
				break
			}
			iff, ok := id.Instrs[len(id.Instrs)-1].(*ssa.If)
			if !ok {
				continue
			}
			var pol string
			switch {
			case id.Succs[0].Dominates(b) && len(id.Succs[0].Preds) == 1:
				pol = ""
			case id.Succs[1].Dominates(b) && len(id.Succs[1].Preds) == 1:
				pol = "!"
			default:
				continue
			}
			c := xs.InCtx(x.Ctx, iff.Cond).String()
			if strings.HasPrefix(c, "more∈") || strings.HasPrefix(c, "op<(op+(φ(-1") {
				continue
			}
			out = append(out, pol+c)
		}
		if x == la.At || x.Ctx.Parent == nil {
			break
		}
	}
	return out
}

// spawnRules: every process of the run set is started exactly once (C04.R5/R6, shared by C05 and C16).
func (e *Env) spawnRules(ruleSpawn, ruleDriver string) {
	r := e.R
	p := e.P
	obGo := r.Ob(ruleSpawn, "runProcs:go-Run-all", "every process of the run set is started in a goroutine (the spawn loop ranges the whole set and is not left early)")
	obDrv := r.Ob(ruleSpawn, "runProcs:driver.Run-once", "the driver's Run is invoked exactly once, synchronously, after the spawn loop")
	obEx := r.Ob(ruleDriver, "runProcs:driver∉spawn", "the driver process is excluded from the spawned set on the very collection the spawn loop ranges (skip-in-loop or delete-from-ranged-map)")
	for _, rootName := range []string{"Run", "RunToProcs"} {
		root := p.DeclaredMethod("scipipe", "Workflow", rootName)
		if root == nil {
			obGo.Unknown("-", "(*Workflow)."+rootName+" not found")
			continue
		}
		if g := e.XG(root); g != nil {
			e.spawnRulesOn(g, "(*Workflow)."+rootName, obGo, obDrv, obEx)
		}
	}
}

func (e *Env) spawnRulesOn(g *core.XG, rootName string, obGo, obDrv, obEx *core.Obligation) {
	p := e.P
	wfT := p.Named("scipipe", "WorkflowProcess")
	isRunInvoke := func(n *core.Node) bool {
		return n.Call != nil && n.Call.IsInvoke() && n.Call.Method.Name() == "Run" && wfT != nil && types.Identical(n.Call.Value.Type(), wfT)
	}
	xs := e.xsym()
	var goRuns, syncRuns []*core.Node
	for _, n := range g.Nodes {
		if !isRunInvoke(n) || n.Kind == core.KAfter {
			continue
		}
		if n.IsGo {
			goRuns = append(goRuns, n)
		} else if _, isDefer := n.Instr.(*ssa.Defer); !isDefer {
			syncRuns = append(syncRuns, n)
		}
	}
	if len(goRuns) != 1 {
		obGo.Fail(rootName, fmt.Sprintf("%d `go <process>.Run()` statements in %s's call tree (1 expected)", len(goRuns), rootName))
		return
	}
	gr := goRuns[0]
	recv := xs.InCtx(gr.Ctx, gr.Call.Value)
	la, ok := e.loopOver(g, gr, "")
	if !ok || !strings.HasPrefix(recv.String(), "val∈") {
		obGo.Fail(g.Where(gr), "the spawned process is not the element of a range loop: "+recv.String())
		return
	}
	ranged := e.loopCollection(g, la)
	okGo := true
	for _, ed := range p.EarlyExitEdges(la.L) {
		if tgt := g.FirstNodeOf(la.At.Ctx, ed.To); tgt != nil {
			if g.Run(core.Scenario{Start: tgt, AtEntry: true}).NormalReturn() != nil {
				okGo = false
				obGo.Fail(g.Where(gr), "the spawn loop can be left before all processes are started")
			}
		}
	}
	drvField := p.FieldVar("scipipe", "Workflow", "driver")
	dn := "." + fieldName(drvField)
	usesSkip := false
	for _, gd := range e.chainGuards(g, gr, la) {
		body := strings.TrimPrefix(gd, "!")
		neg := strings.HasPrefix(gd, "!")
		isCmp := strings.Contains(body, dn) && strings.Contains(body, "val∈")
		goOnDifferent := (neg && strings.HasPrefix(body, "op==")) || (!neg && strings.HasPrefix(body, "op!="))
		if isCmp && goOnDifferent {
			usesSkip = true
			continue
		}
		okGo = false
		obGo.Fail(g.Where(gr), "the start of a process in the spawn loop depends on the condition "+trunc(gd, 160)+": some processes of the run set may never be started")
	}
	if okGo {
		obGo.OK(g.Where(gr), rootName+": go Run over every element of "+trunc(ranged, 60))
	}
	// the synchronous driver run
	exits := nodeSet(g.LoopExitNodes(la))
	must := g.Forward(func(n *core.Node) core.Transfer {
		if exits[n] {
			return core.Transfer{Gen: 1}
		}
		return core.Transfer{}
	}, true)
	nDrv := 0
	for _, c := range syncRuns {
		s := xs.InCtx(c.Ctx, c.Call.Value).String()
		if !strings.Contains(s, dn) {
			continue
		}
		nDrv++
		inLoop := len(iterLoops(g, c)) > 0
		obDrv.Check(!inLoop && (must[c]&1 != 0 || exits[c]), g.Where(c), "driver.Run() once after the spawn loop", "the driver's Run is inside a loop or not after the completed spawn loop")
	}
	if nDrv != 1 {
		obDrv.Fail(rootName, fmt.Sprintf("%d synchronous calls of the driver's Run (exactly 1 expected)", nDrv))
	}
	// the driver is a member of the run set (or the sink): a driver picked among ALL processes of the workflow runs a
	// process RunTo was not asked for - in the calling goroutine, so RunTo returns when IT returns
	obIn := e.R.Ob(ruleOfKey(obEx.Key), "runProcs:driver∈run-set", "the process made the driver is an element of the very collection the spawn loop ranges (or the sink)")
	sinkField := "." + fieldName(p.FieldVar("scipipe", "Workflow", "sink"))
	nSt := 0
	for _, n := range g.Nodes {
		st, ok := n.Instr.(*ssa.Store)
		if !ok {
			continue
		}
		fa, ok := st.Addr.(*ssa.FieldAddr)
		if !ok || drvField == nil {
			continue
		}
		if sT, ok := deref2(fa.X.Type()).Underlying().(*types.Struct); !ok || fa.Field >= sT.NumFields() || sT.Field(fa.Field) != drvField {
			continue
		}
		nSt++
		vs := e.symbolizer().InCtx(n.Ctx, st.Val).String()
		switch {
		case strings.HasSuffix(vs, sinkField) || strings.Contains(vs, sinkField+")") || strings.Contains(vs, "NewSink("):
			obIn.OK(g.Where(n), "driver ← the sink")
		case strings.HasPrefix(vs, "val∈"):
			coll := strings.TrimPrefix(vs, "val∈")
			obIn.Check(coll == ranged, g.Where(n), "driver ← element of "+trunc(ranged, 60), "the driver is taken from "+trunc(coll, 100)+", which is not the set of processes being run ("+trunc(ranged, 60)+"): with RunTo a process outside the requested closure becomes the driver, its commands run and RunTo returns when it returns")
		default:
			// make-interface wrappers etc.
			if strings.Contains(vs, "val∈"+ranged) && !strings.Contains(strings.Replace(vs, "val∈"+ranged, "", 1), "val∈") {
				obIn.OK(g.Where(n), "driver ← element of "+trunc(ranged, 60))
			} else {
				obIn.Fail(g.Where(n), "the driver is set to "+trunc(vs, 120)+", which is neither the sink nor an element of the set of processes being run ("+trunc(ranged, 60)+")")
			}
		}
	}
	if nSt == 0 {
		obIn.OK(rootName, "no assignment of the driver in this call tree")
	}
	// exclusion of the driver
	if usesSkip {
		obEx.OK(g.Where(gr), "skip-in-loop: the go is reached only when the element differs from the driver")
		return
	}
	found := false
	for _, n := range g.Nodes {
		if !n.IsBuiltin("delete") {
			continue
		}
		m := xs.InCtx(n.Ctx, n.Call.Args[0]).String()
		k := xs.InCtx(n.Ctx, n.Call.Args[1]).String()
		if m == ranged && strings.Contains(k, dn) {
			// before the loop
			reach := g.ReachableFrom(n, nil)
			if reach[gr] {
				found = true
			}
		}
	}
	if found {
		obEx.OK(g.Where(gr), "delete-from-ranged-map idiom")
	} else {
		obEx.Fail(g.Where(gr), "nothing keeps the driver out of the spawned set: the spawn loop ranges "+ranged+" and neither skips the driver nor is it deleted from that same collection (a delete on another map, e.g. wf.procs when RunTo passes a fresh map, does not count). The driver would run twice, competing for the same in-ports")
	}
}

func fieldName(f *types.Var) string {
	if f == nil {
		return "\x00"
	}
	return f.Name()
}

func deref2(t types.Type) types.Type {
	if p, ok := t.Underlying().(*types.Pointer); ok {
		return p.Elem()
	}
	return t
}

// sinkConnectRule (C05.R6, shared as C16.R4): the sink's connect helpers really connect: Sink.From(p) / FromParam(p)
// reach the in-port's From with the very port they were given, on every path.
func (e *Env) sinkConnectRule(rule string) {
	r := e.R
	p := e.P
	for _, c := range []struct{ meth, callee string }{{"From", "(*InPort).From"}, {"FromParam", "(*InParamPort).From"}} {
		ob := r.Ob(rule, "(*Sink)."+c.meth+":connects", "the sink's "+c.meth+" connects the given out-port to the sink's own in-port (on every path)")
		fn := p.DeclaredMethod("scipipe", "Sink", c.meth)
		if fn == nil || len(fn.Params) != 2 {
			ob.Unknown("-", "(*Sink)."+c.meth+" not found")
			continue
		}
		g := e.XG(fn)
		if g == nil {
			continue
		}
		arg := ssa.Value(fn.Params[1])
		isConn := func(n *core.Node) bool {
			if n.Kind == core.KAfter || n.Callee == nil || core.FuncName(n.Callee) != c.callee || len(n.Call.Args) < 2 {
				return false
			}
			_, v := rootVal(n.Ctx, n.Call.Args[1])
			return v == arg
		}
		entry := g.Run(core.Scenario{Start: g.Entry, AtEntry: true})
		switch {
		case len(g.Select(isConn)) == 0:
			ob.Fail(core.FuncName(fn), "the given port is never passed to "+c.callee+": out-ports that nobody consumes are not drained, their process blocks on its first send")
		case entry.ReachesAvoiding(func(m *core.Node) bool { return m.Kind == core.KRootRet }, isConn) != nil:
			ob.Fail(core.FuncName(fn), "the connection is not made on every path")
		default:
			ob.OK(core.FuncName(fn), c.callee+"(sink in-port, given port) on every path")
		}
	}
}

// ruleOfKey: "C04.R6@x" -> "R6".
func ruleOfKey(key string) string {
	if i := strings.Index(key, "."); i >= 0 {
		key = key[i+1:]
	}
	if i := strings.Index(key, "@"); i >= 0 {
		key = key[:i]
	}
	return key
}

// connectRule (C04.R10, shared as C16.R6): connecting two ports registers each in the other's RemotePorts map, under the
// remote's own name, and marks both ready - on every path. A one-sided registration either sends into the void (the
// out-port does not know its consumer: items lost) or never closes the consumer's channel (the in-port does not know
// its upstream: len(RemotePorts) is 0 from the start, or never reaches 0), and a port left not-ready makes a fully
// wired workflow be refused.
func (e *Env) connectRule(rule string) {
	r := e.R
	p := e.P
	for _, c := range []struct{ typ, meth string }{{"InPort", "From"}, {"OutPort", "To"}, {"InParamPort", "From"}, {"OutParamPort", "To"}} {
		ob := r.Ob(rule, "(*"+c.typ+")."+c.meth+":symmetric", "connecting registers each port in the other's RemotePorts under the remote's name and marks both ready, on every path")
		fn := p.DeclaredMethod("scipipe", c.typ, c.meth)
		if fn == nil || len(fn.Params) != 2 {
			ob.Unknown("-", "(*"+c.typ+")."+c.meth+" not found")
			continue
		}
		g := e.XG(fn)
		if g == nil {
			continue
		}
		sy := e.symbolizer()
		recv, rem := ssa.Value(fn.Params[0]), ssa.Value(fn.Params[1])
		isRet := func(m *core.Node) bool { return m.Kind == core.KRootRet }
		entry := g.Run(core.Scenario{Start: g.Entry, AtEntry: true})
		// registrations: MapUpdate on X.RemotePorts with value Y, keyed by Name(Y)
		reg := map[[2]ssa.Value][]*core.Node{}
		ready := map[ssa.Value][]*core.Node{}
		for _, n := range g.Nodes {
			switch x := n.Instr.(type) {
			case *ssa.MapUpdate:
				f := fieldOfLoad(x.Map)
				if f == nil || f.Name() != "RemotePorts" {
					continue
				}
				u, ok := x.Map.(*ssa.UnOp)
				if !ok {
					continue
				}
				fa, ok := u.X.(*ssa.FieldAddr)
				if !ok {
					continue
				}
				_, base := rootValThroughEmbedding(n.Ctx, fa.X)
				_, val := rootVal(n.Ctx, x.Value)
				okKey := false
				if kc, ok := x.Key.(*ssa.Call); ok && kc.Call.StaticCallee() != nil && kc.Call.StaticCallee().Name() == "Name" && len(kc.Call.Args) == 1 {
					if _, kv := rootVal(n.Ctx, kc.Call.Args[0]); kv == val {
						okKey = true
					}
				}
				if !okKey {
					ob.Fail(g.Where(n), "a port is registered under "+trunc(sy.InCtx(n.Ctx, x.Key).String(), 80)+", not under its own Name(): Disconnect and CloseConnection look it up by name")
					continue
				}
				reg[[2]ssa.Value{base, val}] = append(reg[[2]ssa.Value{base, val}], n)
			case *ssa.Store:
				fa, ok := x.Addr.(*ssa.FieldAddr)
				if !ok || fieldOfAddr(fa) == nil || fieldOfAddr(fa).Name() != "ready" {
					continue
				}
				if k, ok := x.Val.(*ssa.Const); !ok || k.Value == nil || !constant.BoolVal(k.Value) {
					if pa, isP := x.Val.(*ssa.Parameter); isP {
						// SetReady(v): the argument in context
						if _, av := rootVal(n.Ctx, pa); av != nil {
							if kk, ok := av.(*ssa.Const); !ok || kk.Value == nil || !constant.BoolVal(kk.Value) {
								continue
							}
						}
					} else {
						continue
					}
				}
				_, base := rootValThroughEmbedding(n.Ctx, fa.X)
				ready[base] = append(ready[base], n)
			}
		}
		okAll := true
		need := func(what string, nodes []*core.Node) {
			if len(nodes) == 0 {
				okAll = false
				ob.Fail(core.FuncName(fn), what+" is missing")
				return
			}
			set := nodeSet(nodes)
			if entry.ReachesAvoiding(isRet, func(m *core.Node) bool { return set[m] }) != nil {
				okAll = false
				ob.Fail(g.Where(nodes[0]), what+" does not happen on every path")
			}
		}
		need("the registration of the remote port in the receiver's RemotePorts", reg[[2]ssa.Value{recv, rem}])
		need("the registration of the receiver in the remote port's RemotePorts (the other direction)", reg[[2]ssa.Value{rem, recv}])
		need("marking the receiver ready", ready[recv])
		need("marking the remote port ready", ready[rem])
		if okAll {
			ob.OK(core.FuncName(fn), "both RemotePorts maps updated under Name(), both ports marked ready, on every path")
		}
	}
}

// rootValThroughEmbedding: rootVal, additionally stepping from the address of an embedded struct to the object that
// embeds it (a flag kept in a `portCore` embedded in every port type belongs to the port).
func rootValThroughEmbedding(c *core.Ctx, v ssa.Value) (*core.Ctx, ssa.Value) {
	for i := 0; i < 6; i++ {
		c, v = rootVal(c, v)
		fa, ok := v.(*ssa.FieldAddr)
		if !ok {
			break
		}
		st, ok := deref2(fa.X.Type()).Underlying().(*types.Struct)
		if !ok || fa.Field >= st.NumFields() || !st.Field(fa.Field).Embedded() {
			break
		}
		v = fa.X
	}
	return c, v
}

// disconnectRule (C16.R4, shared as C05.R6): cutting a connection really removes the named remote port from the out-
// port's RemotePorts, and an out-port left without any remote is marked not-ready - which is what makes the rewiring
// step connect it to the sink. A remote that stays registered keeps receiving items that nobody reads (the sender
// blocks once the buffer is full); a port that stays "ready" with no remote is never drained by the sink.
func (e *Env) disconnectRule(rule string) {
	r := e.R
	p := e.P
	for _, typ := range []string{"OutPort", "OutParamPort"} {
		ob := r.Ob(rule, "(*"+typ+").Disconnect", "the named remote port is deleted from RemotePorts on every returning path; with none left the port is marked not ready, otherwise it stays ready")
		fn := p.DeclaredMethod("scipipe", typ, "Disconnect")
		if fn == nil || len(fn.Params) != 2 {
			ob.Unknown("-", "method not found")
			continue
		}
		g := e.XG(fn)
		if g == nil {
			continue
		}
		recv, name := ssa.Value(fn.Params[0]), ssa.Value(fn.Params[1])
		isDel := func(n *core.Node) bool {
			if !n.IsBuiltin("delete") || n.Kind == core.KAfter {
				return false
			}
			f := fieldOfLoad(n.Call.Args[0])
			if f == nil || f.Name() != "RemotePorts" {
				return false
			}
			u, ok := n.Call.Args[0].(*ssa.UnOp)
			if !ok {
				return false
			}
			fa, ok := u.X.(*ssa.FieldAddr)
			if !ok {
				return false
			}
			_, b := rootVal(n.Ctx, fa.X)
			_, k := rootVal(n.Ctx, n.Call.Args[1])
			return b == recv && k == name
		}
		isLen := func(n *core.Node) bool {
			if !n.IsBuiltin("len") || n.Kind == core.KAfter {
				return false
			}
			f := fieldOfLoad(n.Call.Args[0])
			return f != nil && f.Name() == "RemotePorts"
		}
		isReadyFalse := func(n *core.Node) bool {
			st, ok := n.Instr.(*ssa.Store)
			if !ok {
				return false
			}
			fa, ok := st.Addr.(*ssa.FieldAddr)
			if !ok || fieldOfAddr(fa) == nil || fieldOfAddr(fa).Name() != "ready" {
				return false
			}
			_, v := rootVal(n.Ctx, st.Val)
			k, ok := v.(*ssa.Const)
			return ok && k.Value != nil && !constant.BoolVal(k.Value)
		}
		isRet := func(m *core.Node) bool { return m.Kind == core.KRootRet }
		entry := g.Run(core.Scenario{Start: g.Entry, AtEntry: true})
		okAll := true
		if len(g.Select(isDel)) == 0 {
			okAll = false
			ob.Fail(core.FuncName(fn), "the named remote port is never deleted from the receiver's RemotePorts: the cut connection stays, items are still sent to a process that does not run")
		} else if entry.ReachesAvoiding(isRet, isDel) != nil {
			okAll = false
			ob.Fail(core.FuncName(fn), "Disconnect can return without having deleted the named remote port")
		}
		lens := g.Select(isLen)
		if len(lens) == 0 {
			okAll = false
			ob.Fail(core.FuncName(fn), "no test of how many remote ports are left: a port without consumers is not marked not-ready and is never wired to the sink")
		}
		for _, ln := range lens {
			r0 := g.Run(core.Scenario{Start: ln, Result: core.IntAV(0)})
			r1 := g.Run(core.Scenario{Start: ln, Result: core.IntAV(1)})
			if r0.ReachesAvoiding(isRet, isReadyFalse) != nil {
				okAll = false
				ob.Fail(g.Where(ln), "with no remote port left Disconnect can return without marking the port not ready: the rewiring step does not connect it to the sink, its process blocks on the first send that nobody receives")
			}
			if r1.Reaches(isReadyFalse) != nil {
				okAll = false
				ob.Fail(g.Where(ln), "with a remote port left the port is marked not ready: it would be wired to the sink in addition to its consumer")
			}
		}
		if okAll {
			ob.OK(core.FuncName(fn), "delete(RemotePorts, name) on every path; len=0 ⇒ ready=false; len=1 ⇒ stays ready")
		}
	}
}
