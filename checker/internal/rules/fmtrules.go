package rules

import (
	"fmt"
	"go/types"
	"strings"

	"golang.org/x/tools/go/ssa"

	"scicheck/internal/core"
)

// Shared, behaviour-level rules on the command formatter (used by C01, C09, C13, C15, C17, C18).

const (
	fvTemp core.Bits = 1 << iota
	fvPath
	fvFifo
	fvMods
	fvEncode
	fvPrefix
	fvJoin
)

func (fi *fmtInfo) events(n *core.Node) core.Bits {
	var b core.Bits
	switch {
	case fi.isPathCall(fi.ipTempPath)(n):
		b |= fvTemp
	case fi.isPathCall(fi.ipPath)(n):
		b |= fvPath
	case fi.isPathCall(fi.ipFifoPath)(n):
		b |= fvFifo
	case fi.isMods(n):
		b |= fvMods
	case fi.isEncode(n):
		b |= fvEncode
	case isPrefixConcat(n):
		b |= fvPrefix
	case fi.isJoinSite(n):
		b |= fvJoin
	}
	return b
}

// armFacts: what may happen at all in the arm (may) and what has certainly happened at every reachable
// substitution of the placeholder (must).
func (fi *fmtInfo) armFacts(res *core.ScnResult) (may, must core.Bits, nSubst int) {
	for _, n := range fi.g.Nodes {
		if b := fi.events(n); b != 0 && res.Reaches(func(m *core.Node) bool { return m == n }) != nil {
			may |= b
		}
	}
	m := res.Must(func(n *core.Node) core.Transfer { return core.Transfer{Gen: fi.events(n)} })
	must = ^core.Bits(0)
	for _, s := range fi.subst {
		if res.Reaches(func(x *core.Node) bool { return x == s }) != nil {
			nSubst++
			must &= m[s]
		}
	}
	if nSubst == 0 {
		must = 0
	}
	return
}

func bitsStr(b core.Bits) string {
	names := []string{"TempPath", "Path", "FifoPath", "modifiers", "encode(../)", "prefix(../)", "Join"}
	var out []string
	for i, nm := range names {
		if b&(1<<uint(i)) != 0 {
			out = append(out, nm)
		}
	}
	return "{" + strings.Join(out, ",") + "}"
}

func (fi *fmtInfo) ok(ob *core.Obligation) bool {
	if len(fi.problems) > 0 || fi.g == nil {
		ob.Unknown("-", strings.Join(fi.problems, "; "))
		return false
	}
	return true
}

// fmtArmO: {o:} is substituted with the encoded temp path (C01.R1, C13.R2).
func (e *Env) fmtArmO(rule string) {
	fi := e.formatter()
	ob := e.R.Ob(rule, "formatter[arm o]", "the replacement for placeholder type \"o\" is the task-local temp path - TempPath with ../ encoded - never the final or the FIFO path, and without the ../ prefix")
	if !fi.ok(ob) {
		return
	}
	may, must, ns := fi.armFacts(fi.arm("o", false, false))
	where := fi.regexPos
	switch {
	case ns == 0:
		ob.Fail(where, "with placeholder type \"o\" no substitution is reachable")
	case may&(fvPath|fvFifo) != 0:
		ob.Fail(where, "for an {o:} placeholder the formatter can use "+bitsStr(may&(fvPath|fvFifo))+" of the IP: the command would write at (or next to) the final path while it runs")
	case must&fvTemp == 0:
		ob.Fail(where, "the {o:} replacement is not certainly rooted in FileIP.TempPath (certain before the substitution: "+bitsStr(must)+")")
	case must&fvEncode == 0:
		ob.Fail(where, "a ../ produced by the path modifiers is not certainly encoded again before the substitution (certain: "+bitsStr(must)+")")
	case may&fvPrefix != 0:
		ob.Fail(where, "the {o:} replacement can get the ../ prefix: the command would write outside its temp dir")
	default:
		ob.OK(where, "type o: may "+bitsStr(may)+", certain at substitution "+bitsStr(must))
	}
}

// fmtRouting: arms os / i / p / t (C13.R2), the pipe-name agreement (C17.R1).
func (e *Env) fmtRouting(rule string) {
	fi := e.formatter()
	r := e.R
	mk := func(k, d string) *core.Obligation { return r.Ob(rule, "formatter[arm "+k+"]", d) }
	obOS := mk("os", "{os:} → FifoPath(out), passed through the modifiers, with the ../ prefix available")
	if !fi.ok(obOS) {
		return
	}
	where := fi.regexPos
	may, must, ns := fi.armFacts(fi.arm("os", true, false))
	switch {
	case ns == 0:
		obOS.Fail(where, "with placeholder type \"os\" no substitution is reachable")
	case may&(fvTemp|fvPath) != 0:
		obOS.Fail(where, "a streaming output placeholder can resolve to "+bitsStr(may&(fvTemp|fvPath))+" instead of the FIFO path")
	case must&fvFifo == 0:
		obOS.Fail(where, "the {os:} replacement is not certainly FifoPath (certain: "+bitsStr(must)+")")
	case may&fvPrefix == 0:
		obOS.Fail(where, "the FIFO path is handed to the command without the ../ prefix although the command runs inside the temp dir")
	default:
		obOS.OK(where, "type os: may "+bitsStr(may)+", certain "+bitsStr(must))
	}
	obI := mk("i", "{i:} of a non-streaming in-IP → Path(in) through the modifiers, ../ prefix available; never TempPath or FifoPath")
	may, must, ns = fi.armFacts(fi.arm("i", false, false))
	switch {
	case ns == 0:
		obI.Fail(where, "with placeholder type \"i\" no substitution is reachable")
	case may&(fvTemp|fvFifo) != 0:
		obI.Fail(where, "a non-streaming input placeholder can resolve to "+bitsStr(may&(fvTemp|fvFifo)))
	case must&fvPath == 0:
		obI.Fail(where, "the {i:} replacement is not certainly FileIP.Path (certain: "+bitsStr(must)+")")
	case may&fvPrefix == 0:
		obI.Fail(where, "the input path is handed to the command without the ../ prefix")
	default:
		obI.OK(where, "type i: may "+bitsStr(may)+", certain "+bitsStr(must))
	}
	obIS := mk("i:stream-choice", "{i:} of a streaming in-IP → FifoPath(in)")
	may, must, ns = fi.armFacts(fi.arm("i", true, false))
	switch {
	case ns == 0:
		obIS.Fail(where, "no substitution reachable for a streaming in-IP")
	case must&fvFifo == 0 || may&fvTemp != 0:
		obIS.Fail(where, "a streaming in-IP's placeholder is not certainly its FIFO path (may "+bitsStr(may)+", certain "+bitsStr(must)+"): producer and consumer would use different names")
	case may&fvPrefix == 0:
		obIS.Fail(where, "the consumer gets the FIFO path without the ../ prefix")
	default:
		obIS.OK(where, "type i (stream): certain "+bitsStr(must))
	}
	for _, T := range []string{"p", "t"} {
		ob := mk(T, "{"+T+":} → the value itself (through the modifiers); no path function, no ../ prefix")
		may, _, ns = fi.armFacts(fi.arm(T, false, false))
		switch {
		case ns == 0:
			ob.Fail(where, "no substitution reachable for type "+T)
		case may&(fvTemp|fvPath|fvFifo|fvPrefix|fvEncode) != 0:
			ob.Fail(where, "a "+T+" placeholder goes through "+bitsStr(may&(fvTemp|fvPath|fvFifo|fvPrefix|fvEncode)))
		default:
			ob.OK(where, "type "+T+": may "+bitsStr(may))
		}
	}
	// the prefix is not applied to absolute paths
	obP := r.Ob(rule, "parent-prefix:absolute-unchanged", "the ../ prefix is added to relative paths only: a path starting with '/' is left unchanged")
	n0 := 0
	for _, pn := range fi.g.Nodes {
		if !isPrefixConcat(pn) {
			continue
		}
		operand := pn.Instr.(*ssa.BinOp).Y
		sy := e.symbolizer()
		opS := sy.InCtx(pn.Ctx, operand).String()
		// the test of the same path for being absolute: path[0] == '/', strings.HasPrefix(path, "/") or
		// filepath.IsAbs(path) - in the same function or in a predicate helper
		for _, in := range fi.g.Nodes {
			var absAV, relAV core.AV
			switch {
			case in.Kind == core.KAfter:
				continue
			case in.Instr != nil:
				if ix, ok := in.Instr.(*ssa.Index); ok {
					if k, isK := ix.Index.(*ssa.Const); !isK || k.Value == nil || k.Int64() != 0 || sy.InCtx(in.Ctx, ix.X).String() != opS {
						continue
					}
					absAV, relAV = core.IntAV('/'), core.IntAV('a')
					break
				}
				if in.IsCallTo("strings.HasPrefix") && sy.InCtx(in.Ctx, in.Call.Args[0]).String() == opS && sy.InCtx(in.Ctx, in.Call.Args[1]).String() == "\"/\"" {
					absAV, relAV = core.BoolAV(true), core.BoolAV(false)
					break
				}
				if in.IsCallTo("path/filepath.IsAbs", "path.IsAbs") && sy.InCtx(in.Ctx, in.Call.Args[0]).String() == opS {
					absAV, relAV = core.BoolAV(true), core.BoolAV(false)
					break
				}
				continue
			default:
				continue
			}
			n0++
			abs := fi.g.Run(core.Scenario{Start: in, Result: absAV})
			rel := fi.g.Run(core.Scenario{Start: in, Result: relAV})
			isThis := func(m *core.Node) bool { return m == pn }
			stop := func(m *core.Node) bool { return fi.isSubst(m) || m == in }
			okA := abs.ReachesAvoiding(isThis, stop) == nil
			okR := rel.ReachesAvoiding(isThis, stop) != nil
			obP.Check(okA && okR, fi.g.Where(pn), "p[0]=='/' ⇒ unchanged; otherwise \"../\"+p", fmt.Sprintf("prefix on absolute path avoided: %v; prefix on relative path applied: %v", okA, okR))
		}
	}
	if n0 == 0 {
		obP.Fail(where, "no first-byte test guards the ../ prefix: absolute input paths would be corrupted (or relative ones never prefixed)")
	}
}

// fmtJoin: the joined in-port replacement (C18.R2).
func (e *Env) fmtJoin(rule string) {
	fi := e.formatter()
	ob := e.R.Ob(rule, "formatter[arm i-join]", "the joined placeholder is Join([prefix(modifiers(Path(member))) …], PortInfo.joinSep) over all members in order: modifiers and prefix per member, nothing applied to the joined string")
	if !fi.ok(ob) {
		return
	}
	if fi.joinFld == nil {
		ob.Fail(fi.regexPos, "no PortInfo flag makes the formatter join a sub-stream")
		return
	}
	res := fi.arm("i", false, true)
	g := fi.g
	sy := e.symbolizer()
	var joins []*core.Node
	for _, n := range g.Nodes {
		if fi.isJoinSite(n) && res.Reaches(func(m *core.Node) bool { return m == n }) != nil {
			joins = append(joins, n)
		}
	}
	if len(joins) == 0 {
		ob.Fail(fi.regexPos, "with the join flag set no strings.Join is reachable")
		return
	}
	for _, jn := range joins {
		seps, pieces := fi.joinParts(jn)
		sep := ""
		okSep := len(seps) > 0
		for _, z := range seps {
			sep = z.String()
			// the separator is the textual port attribute taken from the placeholder (a string field of PortInfo)
			isAttr := false
			if z.Op == "field" && z.Val != nil {
				if f := fieldOfLoad(z.Val); f != nil && f != fi.tagField && fi.isPortInfoStringField(f) {
					isAttr = true
				}
			}
			if !isAttr {
				okSep = false
			}
		}
		if !okSep {
			ob.Fail(g.Where(jn), "the separator is "+sep+", not the one declared in the placeholder (PortInfo.joinSep)")
			continue
		}
		// member paths: a Path call on an element of the collected sub-stream slice, inside a loop over it
		memberOK := false
		for _, n := range g.Nodes {
			if !fi.isPathCall(fi.ipPath)(n) || res.Reaches(func(m *core.Node) bool { return m == n }) == nil {
				continue
			}
			if coll := subStreamMemberOf(sy.InCtx(n.Ctx, n.Call.Args[0])); coll != nil {
				if la, ok := e.loopOver(g, n, ""); ok && e.loopCollection(g, la) == coll.String() {
					memberOK = true
				}
			}
		}
		// after the join nothing else transforms the string before it is substituted
		sc := fi.scenario("i", nil, true)
		sc.Start, sc.AtEntry = jn, false
		post := g.Run(sc)
		late := post.ReachesAvoiding(func(m *core.Node) bool { return fi.isMods(m) || isPrefixConcat(m) }, func(m *core.Node) bool { return fi.isSubst(m) })
		// modifiers and prefix per member: inside the member loop
		perMember := true
		for _, n := range g.Nodes {
			if (fi.isMods(n) || isPrefixConcat(n)) && res.Reaches(func(m *core.Node) bool { return m == n }) != nil {
				reachJoin := g.ReachableFrom(n, nil)[jn]
				if reachJoin {
					if la, ok := e.loopOver(g, n, ""); !ok || !isSubStreamSlice(e.loopCollectionSym(g, la)) {
						perMember = false
					}
				}
			}
		}
		_, must, _ := fi.armFacts(res)
		switch {
		case !memberOK:
			ob.Fail(g.Where(jn), "the joined strings are not FileIP.Path of every member of the collected sub-stream (pieces: "+trunc(fmt.Sprint(len(pieces)), 10)+")")
		case late != nil:
			ob.Fail(g.Where(jn), "after strings.Join the joined string is still transformed ("+nodeDesc(late)+" at "+g.Where(late)+"): a modifier or the ../ prefix then applies to the first/last member only instead of to each member")
		case !perMember:
			ob.Fail(g.Where(jn), "modifiers / ../ prefix are not applied inside the loop over the members")
		case must&fvJoin == 0:
			ob.Fail(g.Where(jn), "strings.Join is not certain before the substitution")
		default:
			ob.OK(g.Where(jn), "Join(prefix(mods(Path(member)))…, "+trunc(sep, 60)+")")
		}
	}
}

// fmtMissing: an absent or present-but-empty value is fatal, per placeholder type (C09.R3, C15.R4).
func (e *Env) formatterMissingRule(rule string) {
	fi := e.formatter()
	r := e.R
	probe := r.Ob(rule, "formatter[o]:missing-or-empty⇒exit", "an absent or empty value for this placeholder type makes exit inevitable before the command is formed")
	if !fi.ok(probe) {
		return
	}
	g := fi.g
	for _, T := range []string{"o", "os", "i", "p", "t"} {
		if !containsStr(fi.types, T) {
			continue
		}
		ob := r.Ob(rule, "formatter["+T+"]:missing-or-empty⇒exit", "an absent or empty value for this placeholder type makes exit inevitable before the command is formed")
		res := fi.arm(T, false, false)
		lookups := fi.valueLookups(res)
		okArm := false
		why := "no lookup of the placeholder's value is reachable in this arm"
		for _, n := range lookups {
			lk := n.Instr.(*ssa.Lookup)
			mt := lk.X.Type().Underlying().(*types.Map)
			var zero core.AV
			switch mt.Elem().Underlying().(type) {
			case *types.Pointer:
				zero = core.NilAV()
			case *types.Basic:
				zero = core.StrAV("")
			default:
				continue
			}
			cases := []core.AV{zero}
			if lk.CommaOk {
				cases = []core.AV{core.TupleAV(zero, core.BoolAV(false)), core.TupleAV(zero, core.BoolAV(true))}
			}
			all := true
			for i, cs := range cases {
				sc := fi.scenario(T, nil, true)
				sc.Start, sc.AtEntry, sc.Result = n, false, cs
				if g.Run(sc).NormalReturn() != nil {
					all = false
					if lk.CommaOk && i == 1 {
						why = "a value that is present but empty (\"\") passes the check at " + g.Where(n) + ": the command is formed with an empty placeholder"
					} else {
						why = "an absent value passes the check at " + g.Where(n)
					}
				}
			}
			if all {
				okArm = true
				ob.OK(g.Where(n), "absent/empty ⇒ exit")
				break
			}
		}
		if !okArm {
			ob.Fail(fi.regexPos, why)
		}
	}
}

// fmtDefault: a placeholder type matched by no arm is fatal (C09.R3, C15.R1).
func (e *Env) fmtDefaultFatal(ob *core.Obligation) bool {
	fi := e.formatter()
	if !fi.ok(ob) {
		return false
	}
	return fi.fatalFor("\x00unknown-type")
}

// subStreamMemberOf: y is an element (by index or by range) of a slice taken out of a map[string][]*FileIP - a
// member of a collected sub-stream; returns that slice. Identified by type, not by variable names.
func subStreamMemberOf(y *core.Sym) *core.Sym {
	if y == nil || (y.Op != "elem" && y.Op != "rangeval") || len(y.Args) == 0 {
		return nil
	}
	if isSubStreamSlice(y.Args[0]) {
		return y.Args[0]
	}
	return nil
}

func isSubStreamSlice(coll *core.Sym) bool {
	if coll == nil {
		return false
	}
	hit := false
	coll.Walk(func(z *core.Sym) bool {
		if z.Val != nil {
			if mt, ok := z.Val.Type().Underlying().(*types.Map); ok {
				if sl, ok := mt.Elem().Underlying().(*types.Slice); ok && typeNamed(sl.Elem()) != nil && typeNamed(sl.Elem()).Obj().Name() == "FileIP" {
					hit = true
				}
			}
		}
		return !hit
	})
	return hit
}
