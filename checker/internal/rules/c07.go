package rules

import (
	"fmt"
	"go/token"
	"strings"

	"golang.org/x/tools/go/ssa"

	"scicheck/internal/core"
)

func init() { Registry["C07"] = c07 }

// slotMutexSpansLoop: multi-token acquisition is atomic with respect to other acquirers (C07.R1, shared with
// C05 as its R9: the non-atomic form lets two multi-core tasks each hold a part of their tokens forever).
func (e *Env) slotMutexSpansLoop(rule string) {
	r := e.R
	a := e.anchors()
	ob1b := r.Ob(rule, "acquire:mutex-spans-loop", "the slot mutex is held across the whole token loop (at the loop test on every iteration), so a task's tokens are deposited atomically with respect to other acquirers: two multi-core tasks can never each hold a part of their tokens")
	if !a.ok() || len(a.acquire) != 1 {
		ob1b.Unknown("-", "acquire function not unique")
		return
	}
	ga := e.XG(a.acquire[0])
	if ga == nil {
		return
	}
	la := e.locksets(ga)
	isSlotMx := func(n *core.Node) bool { return lockOp(n) != "" && lockField(n) == interface{}(a.slotMutex) }
	var mxBit core.Bits
	for _, n := range ga.Select(isSlotMx) {
		mxBit |= la.bit[la.keyOf[n]]
	}
	n0 := 0
	for _, n := range ga.Select(a.isSlotSend) {
		n0++
		las := iterLoops(ga, n)
		if len(las) == 0 {
			ob1b.Fail(ga.Where(n), "the slot send is not inside a token loop")
			continue
		}
		_, iff := core.HeaderTest(las[0].L)
		found := false
		for _, m := range ga.Nodes {
			if iff != nil && m.Instr == ssa.Instruction(iff) && m.Ctx == las[0].At.Ctx {
				found = true
				ob1b.Check(mxBit != 0 && la.must[m]&mxBit != 0, ga.Where(m), "mutex held at the loop test", "at the token loop's test the slot mutex is not certainly held (it is released between two sends): with CoresPerTask >= 2 two tasks can each deposit a part of their tokens and block each other forever")
			}
		}
		if !found {
			ob1b.Unknown(ga.Where(n), "loop test of the token loop not found")
		}
	}
	if n0 == 0 {
		ob1b.Unknown(core.FuncName(a.acquire[0]), "no slot send in the acquire function")
	}
}

func c07(e *Env) {
	r := e.R
	r.Explanation = "Structural necessary conditions of slot progress, decided on all paths: (R1) every slot-channel send is executed with the slot mutex held, so multi-token acquisitions of different tasks cannot interleave and starve each other; (R2) the release function acquires no mutex and performs no blocking operation other than its slot receives, so a blocked acquirer (which waits while holding the mutex) can always be unblocked; (R3) every Lock in acquire is followed by its Unlock on all returning paths; (R4) Process.Run rejects exactly CoresPerTask > cap(slots) by a never-returning call before the task-creation goroutine is started, and does not reject cores == max; (R5) no second gate: no mutex is (possibly) held while a task's command / Go function runs, and the only blocking channel operations between Execute's entry and the command are the slot sends; (R6) acquire/release pairing (a leaked token is a later deadlock); (R7) the scheduling loop of Process.Run keeps receiving new tasks until the feed channel is closed - nothing else may disable that arm of its select (shared with C05.R1/R2): a scheduler that holds tasks back because 'no slot is free anyway' counts finished-but-not-yet-forwarded tasks as running and leaves free slots unused."
	r.NotDecided = "that k tasks which fit really overlap in time (goroutine scheduling), fairness between waiting tasks, liveness of the surrounding channel network (C05)."
	a := e.anchors()
	if !a.ok() {
		return
	}
	if len(a.acquire) != 1 || len(a.release) != 1 {
		r.Ob("R1", "acquire:send-holds-mutex", "slot sends hold the slot mutex").Unknown("-", fmt.Sprintf("acquire/release not unique: %d/%d functions", len(a.acquire), len(a.release)))
		return
	}
	acq, rel := a.acquire[0], a.release[0]
	// ---- R1, R3 on the acquire function
	ga := e.XG(acq)
	if ga == nil {
		return
	}
	la := e.locksets(ga)
	isSlotMx := func(n *core.Node) bool { return lockOp(n) != "" && lockField(n) == interface{}(a.slotMutex) }
	var mxBit core.Bits
	for _, n := range ga.Select(isSlotMx) {
		mxBit |= la.bit[la.keyOf[n]]
	}
	ob1 := r.Ob("R1", "acquire:send-holds-mutex", "every send on the slot channel is executed while the slot mutex is certainly held")
	for _, n := range ga.Select(a.isSlotSend) {
		ob1.Check(mxBit != 0 && la.must[n]&mxBit != 0, ga.Where(n), "must-held lockset = {"+strings.Join(la.held(la.must[n]), ",")+"}", "slot send with must-held lockset {"+strings.Join(la.held(la.must[n]), ",")+"}: the slot mutex is not held on every path")
	}
	e.slotMutexSpansLoop("R1")
	ob3 := r.Ob("R3", "acquire:Lock→Unlock", "every Lock of the slot mutex is followed by its Unlock on every path on which acquire returns")
	afterUnlock := ga.BackwardMust(func(n *core.Node) core.Bits {
		if lockOp(n) == "unlock" && isSlotMx(n) {
			return 1
		}
		return 0
	})
	for _, n := range ga.Select(func(n *core.Node) bool { return lockOp(n) == "lock" && isSlotMx(n) }) {
		ob3.Check(afterUnlock[n]&1 != 0, ga.Where(n), "Unlock on all returning paths", "a returning path after Lock has no Unlock: the next acquirer blocks forever")
	}
	// ---- R2 release takes no lock and does not block elsewhere
	gr := e.XG(rel)
	if gr == nil {
		return
	}
	ob2 := r.Ob("R2", "release:lock-free", "release acquires no mutex and contains no blocking operation other than its slot receives (transitively)")
	ob2.OK(core.FuncName(rel), fmt.Sprintf("%d nodes of the expanded CFG of %s examined", len(gr.Nodes), core.FuncName(rel)))
	for _, n := range gr.Nodes {
		switch {
		case lockOp(n) == "lock":
			ob2.Fail(gr.Where(n), "release locks "+e.argSym(n, 0).String()+": an acquirer blocks on a full channel while holding the slot mutex, so release must never wait for a mutex")
		case isSend(n):
			ob2.Fail(gr.Where(n), "release performs a channel send")
		case isBlockingRecv(n) && !a.isSlotRecv(n):
			ob2.Fail(gr.Where(n), "release waits on another channel")
		case n.IsCallTo("(*sync.WaitGroup).Wait", "(*sync.Cond).Wait"):
			ob2.Fail(gr.Where(n), "release waits on a WaitGroup/Cond")
		case n.IsDynCall():
			ob2.Unknown(gr.Where(n), "dynamic call inside release")
		}
	}
	// ---- R4 oversize rejection in Process.Run
	e.c07Oversize()
	// ---- R5 no second gate in Execute
	g := e.XG(a.execute)
	if g == nil {
		return
	}
	lx := e.locksets(g)
	ob5 := r.Ob("R5", "Execute:no-lock-held-at-command", "no mutex is possibly held while the task's command or Go function executes")
	for _, n := range g.Select(a.isRun) {
		ob5.Check(lx.may[n] == 0, g.Where(n), "may-held lockset empty at "+nodeDesc(n), "lock(s) {"+strings.Join(lx.held(lx.may[n]), ",")+"} may be held while the command runs: tasks that fit into the free slots would be serialised")
	}
	ob5b := r.Ob("R5", "Execute:gates", "between Execute's entry and the command the only blocking channel operations are the slot sends (inside acquire)")
	reachRun := backwardReach(g, a.isRun)
	nOps := 0
	for _, n := range g.Nodes {
		if !reachRun[n] {
			continue
		}
		blocking := isSend(n) || isBlockingRecv(n) || isSelect(n) || n.IsCallTo("(*sync.WaitGroup).Wait", "(*sync.Cond).Wait")
		if !blocking {
			continue
		}
		nOps++
		if a.isSlotSend(n) {
			ob5b.OK(g.Where(n), "slot send")
			continue
		}
		ob5b.Fail(g.Where(n), "blocking operation "+n.Instr.String()+" on a path to the command")
	}
	if nOps == 0 {
		ob5b.Unknown("-", "no slot send found on the paths to the command")
	}
	// ---- R7 the scheduler itself is no gate: it keeps taking new tasks until the feed is closed (shared with C05.R1/R2)
	e.procRunLoopAs("R7", "R7")
	// ---- R6 pairing
	const evRel core.Bits = 1
	after := g.BackwardMust(func(n *core.Node) core.Bits {
		if a.isRelease(n) {
			return evRel
		}
		return 0
	})
	ob6 := r.Ob("R6", "Execute:acquire→release", "every acquire is followed by a release on every normally returning path (a leaked token is a later deadlock)")
	for _, n := range g.Select(a.isAcquire) {
		ob6.Check(after[n]&evRel != 0, g.Where(n), "release on all normally returning paths", "token leak: a returning path after acquire has no release")
	}
}

func isBlockingRecv(n *core.Node) bool {
	u, ok := n.Instr.(*ssa.UnOp)
	return ok && u.Op == token.ARROW
}

func isSelect(n *core.Node) bool {
	s, ok := n.Instr.(*ssa.Select)
	return ok && s.Blocking
}

// backwardReach: nodes from which a node satisfying target is reachable (targets included).
func backwardReach(g *core.XG, target func(*core.Node) bool) map[*core.Node]bool {
	seen := map[*core.Node]bool{}
	var work []*core.Node
	for _, n := range g.Nodes {
		if target(n) {
			seen[n] = true
			work = append(work, n)
		}
	}
	for len(work) > 0 {
		n := work[len(work)-1]
		work = work[:len(work)-1]
		for _, p := range n.Preds {
			if !seen[p] {
				seen[p] = true
				work = append(work, p)
			}
		}
	}
	return seen
}

// c07Oversize: R4.  Find the comparison between Process.CoresPerTask and cap(slot channel) in Process.Run's
// expanded CFG, normalise it, and run both outcomes through the scenario engine.
func (e *Env) c07Oversize() {
	r := e.R
	a := e.anchors()
	ob := r.Ob("R4", "Process.Run:CoresPerTask>cap", "CoresPerTask > cap(slots) (and only that) leads to a never-returning call before the task-creation goroutine starts")
	g := e.XG(a.procRun)
	if g == nil {
		return
	}
	cpt := e.P.FieldVar("scipipe", "Process", "CoresPerTask")
	xs := e.xsym()
	var curCtx *core.Ctx
	isCap := func(v ssa.Value) bool {
		s := xs.InCtx(curCtx, v)
		return s.Op == "call" && s.Name == "builtin.cap" && len(s.Args) == 1 && s.Args[0].Op == "field" && fieldOfLoad(s.Args[0].Val) == a.slotField
	}
	isCores := func(v ssa.Value) bool {
		s := xs.InCtx(curCtx, v)
		return cpt != nil && s.Op == "field" && fieldOfLoad(s.Val) == cpt
	}
	found := 0
	for _, n := range g.Nodes {
		bo, ok := n.Instr.(*ssa.BinOp)
		if !ok {
			continue
		}
		switch bo.Op {
		case token.GTR, token.LSS, token.GEQ, token.LEQ, token.EQL, token.NEQ:
		default:
			continue
		}
		if !isIntType(bo.X.Type()) {
			continue
		}
		curCtx = n.Ctx
		var oversizeWhen bool // value of the comparison that means "oversize"
		strict := true
		switch {
		case isCores(bo.X) && isCap(bo.Y):
			switch bo.Op {
			case token.GTR:
				oversizeWhen = true
			case token.LEQ:
				oversizeWhen = false
			case token.GEQ, token.LSS, token.EQL, token.NEQ:
				strict = false
			default:
				continue
			}
		case isCap(bo.X) && isCores(bo.Y):
			switch bo.Op {
			case token.LSS:
				oversizeWhen = true
			case token.GEQ:
				oversizeWhen = false
			case token.LEQ, token.GTR, token.EQL, token.NEQ:
				strict = false
			default:
				continue
			}
		default:
			continue
		}
		found++
		if !strict {
			ob.Fail(g.Where(n), "the comparison `"+bo.X.Name()+" "+bo.Op.String()+" "+bo.Y.Name()+"` between CoresPerTask and cap(slots) does not separate exactly cores > max (cores == max must be accepted, cores > max rejected)")
			continue
		}
		over := g.Run(core.Scenario{Start: n, Result: core.BoolAV(oversizeWhen)})
		if w := over.NormalReturn(); w != nil {
			ob.Fail(g.Where(n), "with CoresPerTask > cap(slots) Process.Run can still return normally (rejection is not fatal)")
			continue
		}
		if w := over.Reaches(func(m *core.Node) bool { return m.IsGo }); w != nil {
			ob.Fail(g.Where(n), "with CoresPerTask > cap(slots) a goroutine is started before the rejection: "+g.Where(w))
			continue
		}
		fits := g.Run(core.Scenario{Start: n, Result: core.BoolAV(!oversizeWhen)})
		if fits.Reaches(func(m *core.Node) bool { return m.IsGo }) == nil {
			ob.Fail(g.Where(n), "with CoresPerTask <= cap(slots) the task-creation goroutine is never started")
			continue
		}
		ob.OK(g.Where(n), "oversize ⇒ never-returning call before any `go`; fitting ⇒ proceeds")
	}
	if found == 0 {
		ob.Unknown(core.FuncName(a.procRun), "no comparison between Process.CoresPerTask and cap(slot channel) found in Process.Run's call tree: an oversized process would hang instead of being rejected")
		return
	}
	// the test dominates the first go
	const evCmp core.Bits = 1
	must := g.Forward(func(n *core.Node) core.Transfer {
		if bo, ok := n.Instr.(*ssa.BinOp); ok && isIntType(bo.X.Type()) {
			curCtx = n.Ctx
			if (isCores(bo.X) && isCap(bo.Y)) || (isCap(bo.X) && isCores(bo.Y)) {
				return core.Transfer{Gen: evCmp}
			}
		}
		return core.Transfer{}
	}, true)
	ob2 := r.Ob("R4", "Process.Run:check≺go", "the oversize test is executed on every path before any goroutine is started")
	for _, n := range g.Select(func(n *core.Node) bool { return n.IsGo }) {
		ob2.Check(must[n]&evCmp != 0, g.Where(n), "test precedes go", "a goroutine can be started before the oversize test")
	}
}
