package rules
