package rules

import (
	"go/types"
	"strings"

	"golang.org/x/tools/go/ssa"

	"scicheck/internal/core"
)

// auditLoadRule (C11.R3, shared as C02.R4): FileIP.AuditInfo fills a nil cache from the IP's audit file
// under the IP lock; an unreadable or unparsable audit file is fatal, a missing one yields an empty
// record; NewFileIP loads the record of an existing file.
func (e *Env) auditLoadRule(rule string) {
	r := e.R
	p := e.P
	ai := p.Func("FileIP.AuditInfo")
	um := p.Func("UnmarshalAuditInfoJSONFile")
	cache := e.auditCacheField()
	obLoad := r.Ob(rule, "(*FileIP).AuditInfo:nil⇒load", "with an empty cache the record is loaded from <Path>.audit.json (not freshly created) before AuditInfo returns")
	obLock := r.Ob(rule, "(*FileIP).AuditInfo:lock", "the cache is read and filled with the IP lock held")
	if ai == nil || um == nil || cache == nil {
		obLoad.Unknown("-", "FileIP.AuditInfo / UnmarshalAuditInfoJSONFile / BaseIP.auditInfo not found")
		return
	}
	g := e.XG(ai)
	if g == nil {
		return
	}
	isCacheStore := func(n *core.Node) bool {
		st, ok := n.Instr.(*ssa.Store)
		if !ok {
			return false
		}
		fa, ok := st.Addr.(*ssa.FieldAddr)
		return ok && fieldOfAddr(fa) == cache
	}
	isCacheLoad := func(n *core.Node) bool {
		v, ok := n.Instr.(ssa.Value)
		return ok && fieldOfLoad(v) == cache
	}
	res := g.Run(core.Scenario{Start: g.Entry, FieldLoad: func(f *types.Var) (core.AV, bool) {
		if f == cache {
			return core.NilAV(), true
		}
		return core.Top, false
	}})
	if w := res.ReachesAvoiding(func(m *core.Node) bool { return m.Kind == core.KRootRet }, isCacheStore); w != nil {
		obLoad.Fail(g.Where(w), "with a nil cache AuditInfo can return without filling it")
	} else {
		for _, n := range g.Select(isCacheStore) {
			st := n.Instr.(*ssa.Store)
			sy := e.symbolizer().InCtx(n.Ctx, st.Val)
			if isCallSym(sy, "UnmarshalAuditInfoJSONFile") && len(sy.Args) == 1 && isCallSym(sy.Args[0], fnAuditPath) {
				obLoad.OK(g.Where(n), "cache := "+sy.String())
			} else {
				obLoad.Fail(g.Where(n), "the nil cache is filled with "+sy.String()+" instead of the record read from the IP's audit file: lineage of files taken from disk would be silently empty")
			}
		}
	}
	li := e.locksets(g)
	for _, n := range g.Select(func(n *core.Node) bool { return isCacheStore(n) || isCacheLoad(n) }) {
		held := li.held(li.must[n])
		ok := false
		for _, h := range held {
			if strings.HasSuffix(h, "."+e.ipLockName()) {
				ok = true
			}
		}
		obLock.Check(ok, g.Where(n), "lock held: "+strings.Join(held, ","), "access to the audit cache without the IP lock (must-held lockset {"+strings.Join(held, ",")+"})")
	}
	// reader error fate
	gu := e.XG(um)
	obRd := r.Ob(rule, "UnmarshalAuditInfoJSONFile:errors", "an audit file that exists but cannot be read or parsed is fatal; a missing audit file yields an empty record")
	if gu != nil {
		n0 := 0
		for _, n := range gu.Select(func(n *core.Node) bool { return n.IsCallTo("io/ioutil.ReadFile", "os.ReadFile") }) {
			n0++
			other := gu.Run(core.Scenario{Start: n, Result: errResult(n, core.ErrOther, false)})
			missing := gu.Run(core.Scenario{Start: n, Result: errResult(n, core.ErrNotExist, false)})
			switch {
			case other.NormalReturn() != nil:
				obRd.Fail(gu.Where(n), "a read error other than 'not exist' is not fatal: the IP silently gets an empty lineage")
			case missing.NormalReturn() == nil:
				obRd.Fail(gu.Where(n), "a missing audit file (source files have none) is fatal")
			default:
				obRd.OK(gu.Where(n), "read error ⇒ exit; missing ⇒ empty record")
			}
		}
		for _, n := range gu.Select(func(n *core.Node) bool { return n.IsCallTo("encoding/json.Unmarshal") }) {
			n0++
			bad := gu.Run(core.Scenario{Start: n, Result: errResult(n, core.ErrOther, false)})
			obRd.Check(bad.NormalReturn() == nil, gu.Where(n), "unmarshal error ⇒ exit", "an unparsable audit file is not fatal: the IP silently gets an empty or partial lineage")
		}
		if n0 == 0 {
			obRd.Unknown(core.FuncName(um), "no ReadFile / json.Unmarshal found")
		}
	}
	// NewFileIP loads the record of an existing file
	nf := p.Func("NewFileIP")
	obNew := r.Ob(rule, "NewFileIP:exists⇒load", "an IP created for an existing file loads that file's audit record")
	if nf == nil {
		obNew.Unknown("-", "NewFileIP not found")
		return
	}
	gn, err := p.BuildXG(nf, core.XGOpts{NoInline: func(f *ssa.Function) bool { return f == ai }})
	if err != nil {
		obNew.Unknown("-", err.Error())
		return
	}
	n1 := 0
	for _, n := range gn.Select(isStat) {
		if !isCallSym(e.argSym(n, 0), fnPath) {
			continue
		}
		n1++
		res := gn.Run(core.Scenario{Start: n, Result: errResult(n, core.ErrAny, true)})
		w := res.ReachesAvoiding(func(m *core.Node) bool { return m.Kind == core.KRootRet }, func(m *core.Node) bool { return m.IsCallToFn(ai) })
		obNew.Check(w == nil, gn.Where(n), "file exists ⇒ AuditInfo() called before NewFileIP returns", "NewFileIP can return an IP for an existing file without loading its audit record")
	}
	if n1 == 0 {
		obNew.Unknown(core.FuncName(nf), "no existence test of FileIP.Path in NewFileIP's call tree")
	}
}
