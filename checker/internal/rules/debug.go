package rules

import (
	"fmt"
	"sort"

	"scicheck/internal/core"
)

func init() { Registry["DBG"] = dbg }

func dbg(e *Env) {
	fi := e.formatter()
	fmt.Println("problems", fi.problems, "tag", fi.tagField)
	var ls []string
	for l := range fi.arms {
		ls = append(ls, l)
	}
	sort.Strings(ls)
	for _, l := range ls {
		for _, a := range fi.arms[l] {
			fmt.Printf("ARM %q: %s\n", l, a.sym)
		}
	}
	_ = core.Top
}
