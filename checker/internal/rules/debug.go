package rules

import (
	"fmt"

	"scicheck/internal/core"
)

func init() { Registry["DBG"] = dbg }

func dbg(e *Env) {
	a := e.anchors()
	for _, root := range []string{"Task.Execute", "Process.Run"} {
		fn := e.P.Func(root)
		if root == "Process.Run" {
			fn = a.procRun
		}
		g := e.XG(fn)
		fmt.Println("==", root, len(g.Nodes))
		for _, n := range g.Nodes {
			if isFSEffect(n) || isStat(n) || isExec(n) || n.IsCallTo("os/exec.Command", "io/ioutil.ReadFile", "path/filepath.Walk") {
				fmt.Printf("%s  %s\n", core.FuncName(n.Callee), g.Where(n))
				for i := range n.Call.Args {
					s := e.argSym(n, i)
					fmt.Printf("     arg%d: %s\n", i, s.String())
				}
			}
		}
	}
}
