package rules

func init() {}
