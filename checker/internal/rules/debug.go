package rules

import (
	"fmt"

	"golang.org/x/tools/go/ssa"

	"scicheck/internal/core"
)

func init() { Registry["DBG"] = dbg }

func dbg(e *Env) {
	p := e.P
	td := p.Func("Task.TempDir")
	sy := p.NewSymbolizer(nil)
	for _, b := range td.Blocks {
		for _, in := range b.Instrs {
			if c, ok := in.(*ssa.Call); ok && c.Call.StaticCallee() != nil {
				nm := c.Call.StaticCallee().String()
				if nm == "crypto/sha1.Sum" || nm == "strings.Join" {
					for i, a := range c.Call.Args {
						fmt.Printf("%s arg%d: %s\n", nm, i, sy.InFunc(td, a))
					}
				}
			}
			if r, ok := in.(*ssa.Return); ok {
				fmt.Println("return:", sy.InFunc(td, r.Results[0]))
			}
		}
	}
	wa := p.Func("Task.writeAuditLogs")
	for _, b := range wa.Blocks {
		for _, in := range b.Instrs {
			switch x := in.(type) {
			case *ssa.Store:
				fmt.Printf("store %s := %s   @%s\n", sy.InFunc(wa, x.Addr), sy.InFunc(wa, x.Val), p.InstrPos(in))
			case *ssa.MapUpdate:
				fmt.Printf("mapupdate %s[%s] = %s  @%s\n", sy.InFunc(wa, x.Map), sy.InFunc(wa, x.Key), sy.InFunc(wa, x.Value), p.InstrPos(in))
			}
		}
	}
	_ = core.Top
}
