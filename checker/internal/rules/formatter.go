package rules

import (
	"go/constant"
	"go/token"
	"go/types"

	"golang.org/x/tools/go/ssa"

	"scicheck/internal/core"
)

// ----------------------------------------------------------------------------
// The command formatter: the static callee in NewTask whose result is stored to
// Task.Command; its per-placeholder-type arms and the substituting Replace call.
// ----------------------------------------------------------------------------

type armAlt struct {
	sym  *core.Sym
	val  ssa.Value
	pred *ssa.BasicBlock
}

type fmtInfo struct {
	fn       *ssa.Function
	tagField *types.Var
	arms     map[string][]armAlt
	replace  *ssa.Call
	problems []string
}

func (e *Env) formatter() *fmtInfo {
	if e.fmtc != nil {
		return e.fmtc
	}
	fi := &fmtInfo{arms: map[string][]armAlt{}}
	e.fmtc = fi
	a := e.anchors()
	if a.newTask == nil {
		fi.problems = append(fi.problems, "NewTask not found")
		return fi
	}
	// the call whose result is stored to Task.Command
	for _, st := range a.storesTo(a.commandFld) {
		if st.Parent() != a.newTask {
			continue
		}
		if c, ok := st.Val.(*ssa.Call); ok {
			if f := c.Call.StaticCallee(); f != nil && e.P.IsLib(f) && f.Blocks != nil {
				if fi.fn != nil && fi.fn != f {
					fi.problems = append(fi.problems, "several formatter candidates")
				}
				fi.fn = f
			}
		}
	}
	if fi.fn == nil {
		fi.problems = append(fi.problems, "no library call whose result NewTask stores to Task.Command")
		return fi
	}
	fi.collect(e, fi.fn)
	return fi
}

// collect finds, in fn, the substituting strings.Replace call whose replacement is a phi over the
// placeholder-type arms, and labels every phi edge with the string constant the type tag was compared with.
func (fi *fmtInfo) collect(e *Env, fn *ssa.Function) {
	var cands []*ssa.Call
	for _, b := range fn.Blocks {
		for _, in := range b.Instrs {
			c, ok := in.(*ssa.Call)
			if !ok || c.Call.StaticCallee() == nil {
				continue
			}
			nm := c.Call.StaticCallee().String()
			if (nm == "strings.Replace" || nm == "strings.ReplaceAll") && len(c.Call.Args) >= 3 {
				if _, ok := c.Call.Args[2].(*ssa.Phi); ok {
					cands = append(cands, c)
				}
			}
		}
	}
	if len(cands) != 1 {
		fi.problems = append(fi.problems, "expected exactly one strings.Replace whose replacement merges the placeholder arms in "+core.FuncName(fn))
		return
	}
	fi.replace = cands[0]
	phi := fi.replace.Call.Args[2].(*ssa.Phi)
	sy := e.P.NewSymbolizer(nil)
	for i, ev := range phi.Edges {
		pb := phi.Block().Preds[i]
		dead := false
		for _, in := range pb.Instrs {
			if e.P.CallNeverReturns(in) {
				dead = true // the edge out of a block that ends in a never-returning call is infeasible
			}
		}
		if dead {
			continue
		}
		label, tf := armLabel(pb)
		if tf != nil {
			if fi.tagField == nil {
				fi.tagField = tf
			} else if fi.tagField != tf {
				fi.problems = append(fi.problems, "placeholder arms switch on different fields")
			}
		}
		fi.arms[label] = append(fi.arms[label], armAlt{sym: sy.InFunc(fn, ev), val: ev, pred: pb})
	}
}

// armLabel walks up the dominator tree from b and returns the string constant of the nearest
// `field == "const"` test whose true branch dominates b.
func armLabel(b *ssa.BasicBlock) (string, *types.Var) {
	for d := b; d != nil; d = d.Idom() {
		id := d.Idom()
		if id == nil {
			break
		}
		iff, ok := id.Instrs[len(id.Instrs)-1].(*ssa.If)
		if !ok {
			continue
		}
		bo, ok := iff.Cond.(*ssa.BinOp)
		if !ok || bo.Op != token.EQL {
			continue
		}
		var k *ssa.Const
		var other ssa.Value
		if c, ok := bo.Y.(*ssa.Const); ok {
			k, other = c, bo.X
		} else if c, ok := bo.X.(*ssa.Const); ok {
			k, other = c, bo.Y
		}
		if k == nil || k.Value == nil || k.Value.Kind() != constant.String {
			continue
		}
		f := fieldOfLoad(other)
		if f == nil {
			continue
		}
		// d must be (dominated by) the true successor, and that successor must be entered only from id
		ts := id.Succs[0]
		if ts.Dominates(b) && len(ts.Preds) == 1 && ts != id.Succs[1] {
			return constant.StringVal(k.Value), f
		}
	}
	return "?", nil
}
