package rules

import (
	"fmt"
	"go/constant"
	"go/token"
	"go/types"
	"sort"
	"strings"

	"golang.org/x/tools/go/ssa"

	"scicheck/internal/core"
)

// ----------------------------------------------------------------------------
// The command formatter, analysed behaviourally: NewTask's expanded CFG is explored once per placeholder
// type T under the assumption "the port's type field is T" (scenario engine).  What is reachable / certain
// in that feasible subgraph is independent of how the code is organised (switch, if-chain, helper functions
// per arm, one pass or two).
// ----------------------------------------------------------------------------

type fmtInfo struct {
	e        *Env
	g        *core.XG
	types    []string // alternatives of the placeholder regex's first group
	regexLit string
	regexPos string
	tagField *types.Var // PortInfo field holding the placeholder type
	joinFld  *types.Var // PortInfo bool field that enables joining
	modsFn   *ssa.Function
	subst    []*core.Node // the strings.Replace nodes that substitute a placeholder in the command
	problems []string

	ipTempPath, ipPath, ipFifoPath *ssa.Function
	arms                           map[string]*core.ScnResult
	tagLoads                       []*core.Node
}

// fatalFor: whenever a placeholder of type T is being formatted (i.e. from every load of the type field),
// a never-returning call is inevitable.
func (fi *fmtInfo) fatalFor(T string) bool {
	if len(fi.tagLoads) == 0 {
		return false
	}
	// only the loads that can be executed at all when every load of the type field yields T (a second load
	// inside an arm is reached for that arm's types only)
	fromEntry := fi.run(T, nil, true)
	n0 := 0
	for _, n := range fi.tagLoads {
		if fromEntry.Reaches(func(m *core.Node) bool { return m == n }) == nil {
			continue
		}
		n0++
		sc := fi.scenario(T, nil, true)
		sc.Start, sc.AtEntry, sc.Result = n, false, core.StrAV(T)
		if fi.g.Run(sc).NormalReturn() != nil {
			return false
		}
	}
	return n0 > 0
}

func inCtxOfFn(n *core.Node, fn *ssa.Function) bool {
	for c := n.Ctx; c != nil; c = c.Parent {
		if c.Fn == fn {
			return true
		}
	}
	return false
}

func (e *Env) formatter() *fmtInfo {
	if e.fmtc != nil {
		return e.fmtc
	}
	fi := &fmtInfo{e: e, arms: map[string]*core.ScnResult{}}
	e.fmtc = fi
	a := e.anchors()
	p := e.P
	if a.newTask == nil {
		fi.problems = append(fi.problems, "NewTask not found")
		return fi
	}
	nfip := p.Func("NewFileIP")
	g, err := p.BuildXG(a.newTask, core.XGOpts{NoInline: func(f *ssa.Function) bool { return f == nfip }})
	if err != nil {
		fi.problems = append(fi.problems, err.Error())
		return fi
	}
	fi.g = g
	fi.ipTempPath, fi.ipPath, fi.ipFifoPath = p.Func("FileIP.TempPath"), p.Func("FileIP.Path"), p.Func("FileIP.FifoPath")
	// placeholder regex: a regexp.Compile/MustCompile literal in NewTask's tree whose first group enumerates the types
	// (compiled in the tree, or a package-level pattern used in the tree: resolved through its initialiser)
	for _, n := range g.Nodes {
		var lits []string
		switch {
		case n.IsCallTo("regexp.Compile", "regexp.MustCompile"):
			if s := e.symbolizer().InCtx(n.Ctx, n.Call.Args[0]); s.Op == "lit" {
				lits = append(lits, s.Lit)
			}
		case n.Call != nil && n.Call.StaticCallee() != nil && strings.HasPrefix(n.Call.StaticCallee().String(), "(*regexp.Regexp).") && len(n.Call.Args) > 0 && n.Kind != core.KAfter:
			e.fsym().InCtx(n.Ctx, n.Call.Args[0]).Walk(func(z *core.Sym) bool {
				if z.Op == "call" && (z.Name == "regexp.MustCompile" || z.Name == "regexp.Compile") && len(z.Args) == 1 && z.Args[0].Op == "lit" {
					lits = append(lits, z.Args[0].Lit)
				}
				return true
			})
		}
		for _, l := range lits {
			alts := regexGroupAlts(l)
			if containsStr(alts, "o") && containsStr(alts, "i") {
				fi.types, fi.regexLit, fi.regexPos = alts, l, g.Where(n)
			}
		}
	}
	if len(fi.types) == 0 {
		fi.problems = append(fi.problems, "placeholder regex (first group enumerating the placeholder types) not found in NewTask's call tree")
		return fi
	}
	// the PortInfo field that is compared with the type constants
	pinfo := p.Named("scipipe", "PortInfo")
	cand := map[*types.Var]int{}
	sy := e.symbolizer()
	for _, n := range g.Nodes {
		bo, ok := n.Instr.(*ssa.BinOp)
		if !ok || (bo.Op != token.EQL && bo.Op != token.NEQ) {
			continue
		}
		for _, pair := range [][2]ssa.Value{{bo.X, bo.Y}, {bo.Y, bo.X}} {
			k, ok := pair[1].(*ssa.Const)
			if !ok || k.Value == nil || k.Value.Kind() != constant.String || !containsStr(fi.types, constant.StringVal(k.Value)) {
				continue
			}
			s := sy.InCtx(n.Ctx, pair[0])
			if s.Op == "field" && pinfo != nil {
				if f := fieldOfLoad(s.Val); f != nil && typeNamed(fieldOwner(s.Val)) == pinfo {
					cand[f]++
				}
			}
		}
	}
	// ... or used as the key of a constant table of expander functions (table-driven formatter)
	for _, n := range g.Nodes {
		if len(n.Dispatch) == 0 || n.DispatchKey == nil {
			continue
		}
		keysOK := true
		for _, d := range n.Dispatch {
			if !containsStr(fi.types, d.Key) {
				keysOK = false
			}
		}
		if !keysOK {
			continue
		}
		s := sy.InCtx(n.Ctx, n.DispatchKey)
		if s.Op == "field" && pinfo != nil {
			if f := fieldOfLoad(s.Val); f != nil && typeNamed(fieldOwner(s.Val)) == pinfo {
				cand[f] += 10
			}
		}
	}
	for f, c := range cand {
		if fi.tagField == nil || c > cand[fi.tagField] {
			fi.tagField = f
		}
	}
	if fi.tagField == nil {
		fi.problems = append(fi.problems, "no PortInfo field is compared with the placeholder types in NewTask's call tree")
		return fi
	}
	// the modifier function: (string, []string) string, called in the tree
	for _, n := range g.Nodes {
		if n.Callee == nil || !p.IsLib(n.Callee) || n.Kind == core.KAfter {
			continue
		}
		sig := n.Callee.Signature
		if sig.Recv() == nil && sig.Params().Len() == 2 && sig.Results().Len() == 1 &&
			sig.Params().At(0).Type().String() == "string" && sig.Params().At(1).Type().String() == "[]string" && sig.Results().At(0).Type().String() == "string" {
			fi.modsFn = n.Callee
		}
	}
	for _, n := range g.Nodes {
		if v, ok := n.Instr.(ssa.Value); ok && fieldOfLoad(v) == fi.tagField {
			fi.tagLoads = append(fi.tagLoads, n)
		}
	}
	// substituting Replace: replaces a regex match (not a literal) in the command
	for _, n := range g.Nodes {
		if !n.IsCallTo("strings.Replace", "strings.ReplaceAll") || len(n.Call.Args) < 3 {
			continue
		}
		if _, lit := n.Call.Args[1].(*ssa.Const); lit {
			continue
		}
		if fi.modsFn != nil && inCtxOfFn(n, fi.modsFn) {
			continue // the s/a/b/ modifier's own Replace
		}
		// the replaced text is data (a regex match kept in a variable, a struct field or a slice element), never
		// a constant: the constant-pattern Replace calls of the path encoders are excluded above
		from := e.fsym().InCtx(n.Ctx, n.Call.Args[1])
		if from.Op != "lit" {
			fi.subst = append(fi.subst, n)
		}
	}
	if len(fi.subst) == 0 {
		fi.problems = append(fi.problems, "no strings.Replace substituting a placeholder match in the command found")
	}
	// join field: the PortInfo bool field that makes strings.Join reachable in the "i" arm
	if pinfo != nil {
		st := pinfo.Underlying().(*types.Struct)
		for i := 0; i < st.NumFields(); i++ {
			f := st.Field(i)
			if b, ok := f.Type().Underlying().(*types.Basic); !ok || b.Kind() != types.Bool {
				continue
			}
			res := fi.run("i", map[*types.Var]core.AV{f: core.BoolAV(true)}, true)
			off := fi.run("i", map[*types.Var]core.AV{f: core.BoolAV(false)}, true)
			isJoin := func(m *core.Node) bool { return fi.isJoinSite(m) }
			if res.Reaches(isJoin) != nil && off.Reaches(isJoin) == nil {
				fi.joinFld = f
			}
		}
	}
	return fi
}

func fieldOwner(v ssa.Value) types.Type {
	switch x := v.(type) {
	case *ssa.UnOp:
		if fa, ok := x.X.(*ssa.FieldAddr); ok {
			return fa.X.Type()
		}
	case *ssa.Field:
		return x.X.Type()
	}
	return nil
}

func containsStr(xs []string, s string) bool {
	for _, x := range xs {
		if x == s {
			return true
		}
	}
	return false
}

// isJoinSite: the point where the member strings of a sub-stream become one string: a strings.Join call, or
// the String() of a strings.Builder that is written to inside a loop (the hand-written form of Join).
func (fi *fmtInfo) isJoinSite(n *core.Node) bool {
	if n.Kind == core.KAfter {
		return false
	}
	if n.IsCallTo("strings.Join") {
		return true
	}
	if !n.IsCallTo("(*strings.Builder).String") {
		return false
	}
	for _, w := range fi.builderWrites(n) {
		if _, ok := fi.e.loopOver(fi.g, w, ""); ok {
			return true
		}
	}
	return false
}

// builderWrites: the WriteString/WriteByte/WriteRune calls on the same strings.Builder as the String() call at n.
func (fi *fmtInfo) builderWrites(n *core.Node) []*core.Node {
	if n.Call == nil || len(n.Call.Args) == 0 {
		return nil
	}
	sy := fi.e.symbolizer()
	recv := sy.InCtx(n.Ctx, n.Call.Args[0])
	var out []*core.Node
	for _, m := range fi.g.Nodes {
		if m.Kind == core.KAfter || !m.IsCallTo("(*strings.Builder).WriteString", "(*strings.Builder).WriteByte", "(*strings.Builder).WriteRune") {
			continue
		}
		r2 := sy.InCtx(m.Ctx, m.Call.Args[0])
		if r2.Val != nil && r2.Val == recv.Val && r2.String() == recv.String() {
			out = append(out, m)
		}
	}
	return out
}

// joinParts: for a join site, the separator(s) and the per-member values that are joined.
func (fi *fmtInfo) joinParts(n *core.Node) (seps []*core.Sym, members []*core.Sym) {
	sy := fi.e.symbolizer()
	if n.IsCallTo("strings.Join") {
		return []*core.Sym{sy.InCtx(n.Ctx, n.Call.Args[1])}, appendedPieces(sy.InCtx(n.Ctx, n.Call.Args[0]))
	}
	for _, w := range fi.builderWrites(n) {
		a := sy.InCtx(w.Ctx, w.Call.Args[1])
		if a.Op == "field" || a.Op == "lit" {
			seps = append(seps, a)
		} else {
			members = append(members, a)
		}
	}
	return
}

// inFormatter: the node lies below the formatter call (not in NewTask's own out-IP / sub-stream set-up).
func (fi *fmtInfo) inFormatter(n *core.Node) bool { return true }

// run explores NewTask under "port type = T" plus extra field assumptions; nonEmptySep additionally assumes a
// non-empty join separator and an empty `prepend`.
func (fi *fmtInfo) run(T string, extra map[*types.Var]core.AV, nonEmptySep bool) *core.ScnResult {
	return fi.g.Run(fi.scenario(T, extra, nonEmptySep))
}

func (fi *fmtInfo) scenario(T string, extra map[*types.Var]core.AV, nonEmptySep bool) core.Scenario {
	return core.Scenario{Start: fi.g.Entry, AtEntry: true, FieldLoad: func(f *types.Var) (core.AV, bool) {
		if f == fi.tagField {
			return core.StrAV(T), true
		}
		if a, ok := extra[f]; ok {
			return a, true
		}
		if nonEmptySep && f != fi.tagField && fi.isPortInfoStringField(f) {
			return core.StrAV(" "), true // the join separator (and any other textual port attribute) is non-empty
		}
		return core.Top, false
	}}
}

// isPortInfoStringField: f is a string-typed field of PortInfo.
func (fi *fmtInfo) isPortInfoStringField(f *types.Var) bool {
	pi := fi.e.P.Named("scipipe", "PortInfo")
	if pi == nil {
		return false
	}
	st, ok := pi.Underlying().(*types.Struct)
	if !ok {
		return false
	}
	for i := 0; i < st.NumFields(); i++ {
		if st.Field(i) == f {
			b, ok := f.Type().Underlying().(*types.Basic)
			return ok && b.Kind() == types.String
		}
	}
	return false
}

// arm returns (cached) the exploration for placeholder type T with the streaming flag and join flag fixed.
func (fi *fmtInfo) arm(T string, stream, join bool) *core.ScnResult {
	key := fmt.Sprintf("%s/%v/%v", T, stream, join)
	if r, ok := fi.arms[key]; ok {
		return r
	}
	extra := map[*types.Var]core.AV{}
	a := fi.e.anchors()
	if a.streamFld != nil {
		extra[a.streamFld] = core.BoolAV(stream)
	}
	if fi.joinFld != nil {
		extra[fi.joinFld] = core.BoolAV(join)
	}
	// PortInfo.doStream (the port-level flag copied to the IP) follows the same assumption
	if pi := fi.e.P.FieldVar("scipipe", "PortInfo", "doStream"); pi != nil {
		extra[pi] = core.BoolAV(stream)
	}
	r := fi.run(T, extra, true)
	fi.arms[key] = r
	return r
}

// event predicates inside the formatter tree
func (fi *fmtInfo) isPathCall(fn *ssa.Function) func(*core.Node) bool {
	return func(n *core.Node) bool { return fn != nil && n.IsCallToFn(fn) && n.Kind != core.KAfter }
}

func (fi *fmtInfo) isMods(n *core.Node) bool {
	return fi.modsFn != nil && n.IsCallToFn(fi.modsFn) && n.Kind != core.KAfter
}

// isPrefix: a string concatenation whose left operand is the literal "../".
func isPrefixConcat(n *core.Node) bool {
	bo, ok := n.Instr.(*ssa.BinOp)
	if !ok || bo.Op != token.ADD {
		return false
	}
	k, ok := bo.X.(*ssa.Const)
	return ok && k.Value != nil && k.Value.Kind() == constant.String && constant.StringVal(k.Value) == "../"
}

// isEncode: strings.Replace(All)(x, "../", <placeholder>) - the parent-dir encoder.
func (fi *fmtInfo) isEncode(n *core.Node) bool {
	if n.IsCallTo("(*strings.Replacer).Replace") && n.Kind != core.KAfter && len(n.Call.Args) == 2 {
		if pairs := replacerPairs(fi.e.fsym().InCtx(n.Ctx, n.Call.Args[0])); len(pairs) == 2 {
			return pairs[0].Op == "lit" && pairs[0].Lit == "../" && pairs[1].Op == "lit" && pairs[1].Lit != "" && !strings.Contains(pairs[1].Lit, "/")
		}
		return false
	}
	if !n.IsCallTo("strings.ReplaceAll", "strings.Replace") || len(n.Call.Args) < 3 {
		return false
	}
	sy := fi.e.symbolizer()
	from, to := sy.InCtx(n.Ctx, n.Call.Args[1]), sy.InCtx(n.Ctx, n.Call.Args[2])
	return from.Op == "lit" && from.Lit == "../" && to.Op == "lit" && to.Lit != "" && !strings.Contains(to.Lit, "/")
}

func (fi *fmtInfo) isSubst(n *core.Node) bool {
	for _, s := range fi.subst {
		if s == n {
			return true
		}
	}
	return false
}

// valueLookups lists, for type T, the map lookups on NewTask-level parameter maps (in-IPs, out-IPs, params,
// tags) that are reachable in the arm.
func (fi *fmtInfo) valueLookups(res *core.ScnResult) []*core.Node {
	var out []*core.Node
	sy := fi.e.symbolizer()
	for _, n := range fi.g.Nodes {
		lk, ok := n.Instr.(*ssa.Lookup)
		if !ok || n.Ctx == fi.g.Root {
			continue
		}
		if _, isMap := lk.X.Type().Underlying().(*types.Map); !isMap {
			continue
		}
		// a value table of the task: map[string]*FileIP (in-/out-IPs) or map[string]string (params, tags), looked
		// up with a computed key (the placeholder's name) - identified by type, not by the name of a variable
		mt := lk.X.Type().Underlying().(*types.Map)
		isVal := false
		switch el := mt.Elem().Underlying().(type) {
		case *types.Pointer:
			isVal = typeNamed(mt.Elem()) != nil && typeNamed(mt.Elem()).Obj().Name() == "FileIP"
			_ = el
		case *types.Basic:
			isVal = el.Kind() == types.String
		}
		if _, constKey := lk.Index.(*ssa.Const); !isVal || constKey {
			continue
		}
		_ = sy
		if res.Reaches(func(m *core.Node) bool { return m == n }) != nil {
			out = append(out, n)
		}
	}
	sort.Slice(out, func(i, j int) bool { return out[i].ID < out[j].ID })
	return out
}

// regexGroupAlts enumerates the alternatives of the first capture group of a regular expression.
func regexGroupAlts(lit string) []string {
	return enumerateFirstGroup(lit)
}
