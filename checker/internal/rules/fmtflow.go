package rules

import (
	"go/constant"
	"go/token"
	"go/types"
	"sort"
	"strings"

	"golang.org/x/tools/go/ssa"

	"scicheck/internal/core"
)

// ----------------------------------------------------------------------------
// Value flow of the command formatter (C15.R6, shared as C13.R2b and C18.R2b).
//
// The event rules of fmtrules.go decide what HAPPENS in an arm (FifoPath is called, the modifiers run ...). They
// cannot see an arm in which the right call is still made - e.g. in the test for a missing value - but its result no
// longer reaches the command: `replacement = params[portName]` deleted leaves the lookup in `if params[portName] ==
// ""` behind and substitutes the empty string. This rule follows the substituted value itself, backwards from the
// `new` argument of the substituting strings.Replace, on the paths that are feasible for the arm (scenario "port type
// = T"): through phis (only edges whose predecessor is reachable in the scenario), the modifier function, the ../
// prefix and encoder helpers, concatenations, strings.Join over an append-built list, and helper functions (into
// their feasible returns). It ends at SOURCES: TempPath / Path / FifoPath of an IP, a lookup in the parameter or
// tag table - or at a constant, which is the finding: on some feasible path the placeholder is replaced by text that
// does not come from the port's value.
//
// The rule is a definite-defect detector: whatever it cannot follow (a cell, an unknown call) ends the walk as
// "opaque", which is never reported.
// ----------------------------------------------------------------------------

type flowRes struct {
	srcs   map[string]bool // source kinds reached: TempPath(out) Path(in) FifoPath(out) FifoPath(in) Path(member) params tags ...
	consts []string        // feasible paths that end in a constant (with position)
	opaque bool            // something could not be followed
	must   core.Bits       // transforms applied on every feasible path (fvMods, fvPrefix, fvEncode, fvJoin)
	seen   bool            // at least one feasible path
}

func (a *flowRes) merge(b flowRes) {
	if !b.seen {
		return
	}
	if a.srcs == nil {
		a.srcs = map[string]bool{}
	}
	for k := range b.srcs {
		a.srcs[k] = true
	}
	a.consts = append(a.consts, b.consts...)
	a.opaque = a.opaque || b.opaque
	if a.seen {
		a.must &= b.must
	} else {
		a.must = b.must
	}
	a.seen = true
}

type flowWalker struct {
	fi    *fmtInfo
	res   *core.ScnResult
	reach map[*core.Node]bool
	depth int
	busy  map[flowKey]bool
	nt    *ssa.Function
}

type flowKey struct {
	c *core.Ctx
	v ssa.Value
}

func (w *flowWalker) reached(n *core.Node) bool {
	if n == nil {
		return false
	}
	if w.reach == nil {
		w.reach = w.res.ReachedNodes()
	}
	return w.reach[n]
}

func src(kind string) flowRes {
	return flowRes{srcs: map[string]bool{kind: true}, seen: true}
}

func (w *flowWalker) value(c *core.Ctx, v ssa.Value) flowRes {
	g := w.fi.g
	k := flowKey{c, v}
	if w.busy[k] || w.depth > 40 {
		return flowRes{} // a loop-carried value: contributes nothing new
	}
	w.busy[k] = true
	w.depth++
	defer func() { w.depth--; delete(w.busy, k) }()
	switch x := v.(type) {
	case *ssa.Const:
		s := "constant"
		if x.Value != nil && x.Value.Kind() == constant.String {
			s = "the constant " + strconvQuote(constant.StringVal(x.Value))
		}
		return flowRes{consts: []string{s}, seen: true}
	case *ssa.Phi:
		var out flowRes
		blk := x.Block()
		for i, ev := range x.Edges {
			pred := blk.Preds[i]
			term := g.NodeOf(c, pred.Instrs[len(pred.Instrs)-1])
			if !w.reached(term) {
				continue
			}
			// the edge itself must be takeable in the scenario: control passes from pred's terminator to the first
			// node of the phi's block (`p := a; if stream { p = b }` has an edge that skips the assignment)
			if first := g.FirstNodeOf(c, blk); first != nil && !w.res.EdgeFeasible(term, first) {
				continue
			}
			out.merge(w.value(c, ev))
		}
		return out
	case *ssa.Parameter:
		c2, v2 := rootVal(c, x)
		if v2 != v || c2 != c {
			return w.value(c2, v2)
		}
		return flowRes{opaque: true, seen: true}
	case *ssa.MakeInterface:
		return w.value(c, x.X)
	case *ssa.ChangeType:
		return w.value(c, x.X)
	case *ssa.Convert:
		return w.value(c, x.X)
	case *ssa.BinOp:
		if x.Op != token.ADD {
			return flowRes{opaque: true, seen: true}
		}
		var out flowRes
		any := false
		var must core.Bits
		for _, op := range []ssa.Value{x.X, x.Y} {
			if kc, ok := op.(*ssa.Const); ok {
				if kc.Value != nil && kc.Value.Kind() == constant.String && constant.StringVal(kc.Value) == "../" && op == x.X {
					must |= fvPrefix
				}
				continue
			}
			r := w.value(c, op)
			if r.seen {
				if any {
					// both operands carry data: keep the union, transforms of either
					for kk := range r.srcs {
						if out.srcs == nil {
							out.srcs = map[string]bool{}
						}
						out.srcs[kk] = true
					}
					out.consts = append(out.consts, r.consts...)
					out.opaque = out.opaque || r.opaque
					out.must |= r.must
				} else {
					out = r
					any = true
				}
			}
		}
		if !any {
			return flowRes{consts: []string{"a concatenation of constants"}, seen: true}
		}
		out.must |= must
		return out
	case *ssa.Lookup:
		if mt, ok := x.X.Type().Underlying().(*types.Map); ok {
			if b, ok := mt.Elem().Underlying().(*types.Basic); ok && b.Kind() == types.String {
				return src(w.tableKind(c, x.X))
			}
		}
		return flowRes{opaque: true, seen: true}
	case *ssa.Extract:
		if lk, ok := x.Tuple.(*ssa.Lookup); ok && x.Index == 0 {
			return w.value(c, lk)
		}
		return flowRes{opaque: true, seen: true}
	case *ssa.Call:
		return w.call(c, x)
	}
	return flowRes{opaque: true, seen: true}
}

func strconvQuote(s string) string {
	if len(s) > 20 {
		s = s[:20] + "…"
	}
	return "\"" + s + "\""
}

// tableKind: which NewTask-level string table a map[string]string is: the first such parameter of NewTask is the
// parameter table, the second the tag table (public signature).
func (w *flowWalker) tableKind(c *core.Ctx, m ssa.Value) string {
	_, rv := rootVal(c, m)
	if pa, ok := rv.(*ssa.Parameter); ok && w.nt != nil && pa.Parent() == w.nt {
		n := 0
		for _, p := range w.nt.Params {
			if mt, ok := p.Type().Underlying().(*types.Map); ok {
				if b, ok := mt.Elem().Underlying().(*types.Basic); ok && b.Kind() == types.String {
					n++
					if p == pa {
						if n == 1 {
							return "params"
						}
						return "tags"
					}
				}
			}
		}
	}
	// a field of the task under construction
	s := w.fi.e.symbolizer().InCtx(c, m).String()
	switch {
	case strings.HasSuffix(s, ".Params"):
		return "params"
	case strings.HasSuffix(s, ".Tags"):
		return "tags"
	}
	return "string-table"
}

func (w *flowWalker) call(c *core.Ctx, x *ssa.Call) flowRes {
	fi := w.fi
	g := fi.g
	n := g.NodeOf(c, x)
	callee := x.Call.StaticCallee()
	if n != nil && n.Callee != nil {
		callee = n.Callee
	}
	// builtin / stdlib
	if callee == nil {
		return flowRes{opaque: true, seen: true}
	}
	name := callee.String()
	switch {
	case callee == fi.ipTempPath || callee == fi.ipPath || callee == fi.ipFifoPath:
		kind := callee.Name()
		return src(kind)
	case callee == fi.modsFn:
		r := w.value(c, x.Call.Args[0])
		r.must |= fvMods
		return r
	case name == "strings.Join":
		r := w.list(c, x.Call.Args[0])
		if !r.seen {
			return flowRes{consts: []string{"the join of a list to which nothing is ever appended"}, seen: true, must: fvJoin}
		}
		r.must |= fvJoin
		return r
	case name == "strings.Replace" || name == "strings.ReplaceAll" || name == "strings.TrimSuffix" || name == "strings.TrimPrefix" || name == "path/filepath.Clean" || name == "path/filepath.Base" || name == "path/filepath.Dir" || name == "path.Base":
		r := w.value(c, x.Call.Args[0])
		if n != nil && fi.isEncode(n) {
			r.must |= fvEncode
		}
		return r
	case name == "(*strings.Replacer).Replace" && len(x.Call.Args) == 2:
		r := w.value(c, x.Call.Args[1])
		if n != nil && fi.isEncode(n) {
			r.must |= fvEncode
		}
		return r
	case name == "fmt.Sprintf" || name == "fmt.Sprint":
		// the formatted arguments, like a concatenation
		var els []ssa.Value
		if len(x.Call.Args) > 0 {
			els = varargElems(x.Call.Args[len(x.Call.Args)-1])
		}
		if len(els) == 0 {
			return flowRes{opaque: true, seen: true}
		}
		var out flowRes
		for _, el := range els {
			r := w.value(c, el)
			if !r.seen {
				continue
			}
			if out.srcs == nil {
				out.srcs = map[string]bool{}
			}
			for k := range r.srcs {
				out.srcs[k] = true
			}
			out.opaque = out.opaque || r.opaque
			out.must |= r.must
			out.seen = true
			// constants among formatted arguments are separators / labels, not findings
		}
		if !out.seen {
			return flowRes{opaque: true, seen: true}
		}
		return out
	case name == "(*strings.Builder).String":
		return flowRes{opaque: true, seen: true}
	}
	if !fi.e.P.IsRepo(callee) || callee.Blocks == nil {
		return flowRes{opaque: true, seen: true}
	}
	// a module function: into its feasible returns, in the context the expanded CFG gave this call
	if n == nil || n.Kind != core.KCall {
		return flowRes{opaque: true, seen: true}
	}
	var ctxs []*core.Ctx
	if len(n.Dispatch) > 0 {
		for _, d := range n.Dispatch {
			ctxs = append(ctxs, d.Ctx)
		}
	} else if n.Inl != nil {
		ctxs = append(ctxs, n.Inl)
	}
	var out flowRes
	for _, cc := range ctxs {
		for _, b := range cc.Fn.Blocks {
			rt, ok := b.Instrs[len(b.Instrs)-1].(*ssa.Return)
			if !ok || len(rt.Results) == 0 {
				continue
			}
			if !w.reached(g.NodeOf(cc, rt)) {
				continue
			}
			idx := 0
			if len(rt.Results) > 1 {
				// the string result
				for i, r := range rt.Results {
					if b, ok := r.Type().Underlying().(*types.Basic); ok && b.Kind() == types.String {
						idx = i
						break
					}
				}
			}
			out.merge(w.value(cc, rt.Results[idx]))
		}
	}
	if !out.seen {
		return flowRes{opaque: true, seen: true}
	}
	return out
}

// list: the elements of a []string built by appends (in a loop) - what strings.Join joins.
func (w *flowWalker) list(c *core.Ctx, v ssa.Value) flowRes {
	k := flowKey{c, v}
	if w.busy[k] || w.depth > 40 {
		return flowRes{}
	}
	w.busy[k] = true
	w.depth++
	defer func() { w.depth--; delete(w.busy, k) }()
	switch x := v.(type) {
	case *ssa.Phi:
		var out flowRes
		for _, ev := range x.Edges {
			out.merge(w.list(c, ev))
		}
		return out
	case *ssa.Call:
		if bi, ok := x.Call.Value.(*ssa.Builtin); ok && bi.Name() == "append" && len(x.Call.Args) == 2 {
			out := w.list(c, x.Call.Args[0])
			if el := varargElem(x.Call.Args[1]); el != nil {
				out.merge(w.value(c, el))
			} else {
				// append(s, other...): the elements of the other list
				out.merge(w.list(c, x.Call.Args[1]))
			}
			return out
		}
		// a module helper that returns a list: into its feasible returns
		if n := w.fi.g.NodeOf(c, x); n != nil && n.Kind == core.KCall && n.Inl != nil && w.fi.e.P.IsRepo(n.Inl.Fn) {
			var out flowRes
			for _, b := range n.Inl.Fn.Blocks {
				rt, ok := b.Instrs[len(b.Instrs)-1].(*ssa.Return)
				if !ok || len(rt.Results) == 0 || !w.reached(w.fi.g.NodeOf(n.Inl, rt)) {
					continue
				}
				for _, rv := range rt.Results {
					if _, isSl := rv.Type().Underlying().(*types.Slice); isSl {
						out.merge(w.list(n.Inl, rv))
					}
				}
			}
			if out.seen {
				return out
			}
		}
		return flowRes{opaque: true, seen: true}
	case *ssa.Slice:
		if al, ok := x.X.(*ssa.Alloc); ok {
			if at, ok := deref2(al.Type()).Underlying().(*types.Array); ok && at.Len() == 0 {
				return flowRes{} // the empty literal: no element from here
			}
			return flowRes{opaque: true, seen: true} // a literal with elements
		}
		return w.list(c, x.X)
	case *ssa.MakeSlice:
		if k, ok := x.Len.(*ssa.Const); ok && k.Value != nil && k.Int64() == 0 {
			return flowRes{} // make([]string, 0, n): filled by appends
		}
		return flowRes{opaque: true, seen: true} // filled by index
	case *ssa.Const:
		return flowRes{}
	case *ssa.Parameter:
		c2, v2 := rootVal(c, x)
		if v2 != v || c2 != c {
			return w.list(c2, v2)
		}
	}
	return flowRes{opaque: true, seen: true}
}

// fmtValueFlow: the rule.
func (e *Env) fmtValueFlow(rule string) {
	fi := e.formatter()
	r := e.R
	first := r.Ob(rule, "formatter[arm o]:value", "the text substituted for an {o:} placeholder is the out-IP's temp path, through the modifiers")
	if !fi.ok(first) {
		return
	}
	a := e.anchors()
	type armSpec struct {
		key, T       string
		stream, join bool
		want         []string // admissible sources
		mods         bool
		desc         string
	}
	arms := []armSpec{
		{"o", "o", false, false, []string{"TempPath"}, true, "the text substituted for an {o:} placeholder is the out-IP's temp path, through the modifiers"},
		{"os", "os", true, false, []string{"FifoPath"}, true, "the text substituted for an {os:} placeholder is the out-IP's FIFO path, through the modifiers"},
		{"i", "i", false, false, []string{"Path"}, true, "the text substituted for an {i:} placeholder is the in-IP's path, through the modifiers"},
		{"i:stream", "i", true, false, []string{"FifoPath"}, true, "the text substituted for the {i:} placeholder of a streaming in-IP is its FIFO path, through the modifiers"},
		{"i-join", "i", false, true, []string{"Path"}, true, "the text substituted for a joined {i:…|join:…} placeholder is built from the path of every member, each through the modifiers"},
		{"p", "p", false, false, []string{"params"}, true, "the text substituted for a {p:} placeholder is the value looked up in the task's parameter table, through the modifiers"},
		{"t", "t", false, false, []string{"tags"}, true, "the text substituted for a {t:} placeholder is the value looked up in the task's tag table, through the modifiers"},
	}
	for _, as := range arms {
		if as.join && fi.joinFld == nil {
			continue
		}
		ob := r.Ob(rule, "formatter[arm "+as.key+"]:value", as.desc)
		res := fi.arm(as.T, as.stream, as.join)
		w := &flowWalker{fi: fi, res: res, busy: map[flowKey]bool{}, nt: a.newTask}
		var total flowRes
		where := fi.regexPos
		for _, s := range fi.subst {
			if !w.reached(s) || len(s.Call.Args) < 3 {
				continue
			}
			where = fi.g.Where(s)
			total.merge(w.value(s.Ctx, s.Call.Args[2]))
		}
		if !total.seen {
			ob.OK(where, "no substitution reachable for this arm (judged by the arm's own rule)")
			continue
		}
		var kinds []string
		for k := range total.srcs {
			kinds = append(kinds, k)
		}
		sort.Strings(kinds)
		var wrong []string
		for _, k := range kinds {
			okK := false
			if k == "string-table" && (as.key == "p" || as.key == "t") {
				okK = true // a string table that could not be told apart (kept in a helper object)
			}
			for _, wnt := range as.want {
				if k == wnt || strings.HasSuffix(k, "(?)") && strings.HasPrefix(wnt, strings.TrimSuffix(k, "(?)")) {
					okK = true
				}
			}
			if !okK {
				wrong = append(wrong, k)
			}
		}
		switch {
		case len(total.consts) > 0:
			ob.Fail(where, "on a feasible path of this arm the placeholder is replaced by "+total.consts[0]+" - text that does not come from the port's value (the value is looked up or computed, but no longer reaches the command)")
		case len(wrong) > 0:
			ob.Fail(where, "the substituted text comes from "+strings.Join(wrong, ", ")+" instead of "+strings.Join(as.want, " / "))
		case len(kinds) == 0 && !total.opaque:
			ob.Fail(where, "the substituted text has no source at all (an empty list is joined, or nothing is assigned)")
		case as.mods && total.must&fvMods == 0 && !total.opaque && fi.modsFn != nil:
			ob.Fail(where, "the substituted text does not pass through the path modifiers on every path: {…|basename}, {…|%.ext}, {…|s/a/b/} would be ignored for this kind of placeholder")
		default:
			note := "sources " + strings.Join(kinds, ", ") + "; certainly applied " + bitsStr(total.must)
			if total.opaque {
				note += " (partly not followed)"
			}
			ob.OK(where, note)
		}
	}
}

// setOutValueFlow: the same value-flow question for the output-path patterns of Process.SetOut: under "the placeholder's
// type is T" the text substituted into the path comes from the task's value of that kind ({i:} the in-IP's path, {p:}
// the parameter, {t:} the tag, {o:} another out-port's path function).
func (e *Env) setOutValueFlow(rule string) {
	r := e.R
	p := e.P
	first := r.Ob(rule, "SetOut[i]:value", "the text substituted for an {i:} placeholder of an output-path pattern is the in-IP's path")
	so := p.DeclaredMethod("scipipe", "Process", "SetOut")
	if so == nil {
		first.Unknown("-", "(*Process).SetOut not found")
		return
	}
	var cl *ssa.Function
	for _, af := range so.AnonFuncs {
		if af.Signature.Params().Len() == 1 && af.Signature.Results().Len() == 1 && isPtrToNamed(af.Signature.Params().At(0).Type(), "Task") {
			cl = af
		}
	}
	if cl == nil {
		// the pattern expander may be a named helper that the closure calls; take the function stored as path function
		first.Unknown(core.FuncName(so), "no func(*Task) string literal in SetOut")
		return
	}
	g := e.XG(cl)
	if g == nil {
		return
	}
	ff := e.formatter()
	// the value that is compared with the placeholder types
	cnt := map[ssa.Value]map[string]bool{}
	for _, n := range g.Nodes {
		bo, ok := n.Instr.(*ssa.BinOp)
		if !ok || bo.Op != token.EQL {
			continue
		}
		for _, pr := range [][2]ssa.Value{{bo.X, bo.Y}, {bo.Y, bo.X}} {
			if k, ok := pr[1].(*ssa.Const); ok && k.Value != nil && k.Value.Kind() == constant.String {
				// the compared value, followed up to where it is computed (the type may be handed to a helper)
				_, v := rootVal(n.Ctx, pr[0])
				if cnt[v] == nil {
					cnt[v] = map[string]bool{}
				}
				cnt[v][constant.StringVal(k.Value)] = true
			}
		}
	}
	var tv ssa.Value
	for v, ks := range cnt {
		if ks["i"] && ks["p"] && (tv == nil || len(ks) > len(cnt[tv])) {
			tv = v
		}
	}
	if tv == nil {
		first.Unknown(core.FuncName(cl), "no value compared with the placeholder types \"i\", \"p\", … found in the pattern expander")
		return
	}
	fi := &fmtInfo{e: e, g: g, modsFn: ff.modsFn, ipTempPath: ff.ipTempPath, ipPath: ff.ipPath, ipFifoPath: ff.ipFifoPath}
	for _, n := range g.Nodes {
		if !n.IsCallTo("strings.Replace", "strings.ReplaceAll") || len(n.Call.Args) < 3 || n.Kind == core.KAfter {
			continue
		}
		if _, lit := n.Call.Args[1].(*ssa.Const); lit {
			continue
		}
		if fi.modsFn != nil && inCtxOfFn(n, fi.modsFn) {
			continue
		}
		fi.subst = append(fi.subst, n)
	}
	for _, as := range []struct {
		T    string
		want []string
		desc string
	}{
		{"i", []string{"Path"}, "the text substituted for an {i:} placeholder of an output-path pattern is the in-IP's path"},
		{"p", []string{"params", "string-table"}, "the text substituted for a {p:} placeholder of an output-path pattern is the task's parameter value"},
		{"t", []string{"tags", "string-table"}, "the text substituted for a {t:} placeholder of an output-path pattern is the task's tag value"},
		{"o", []string{"Path", "TempPath"}, "the text substituted for an {o:} placeholder of an output-path pattern comes from that out-port's own path function"},
	} {
		ob := r.Ob(rule, "SetOut["+as.T+"]:value", as.desc)
		T := as.T
		res := g.Run(core.Scenario{Start: g.Entry, AtEntry: true, InstrResult: func(m *core.Node) (core.AV, bool) {
			if v, ok := m.Instr.(ssa.Value); ok && v == tv {
				return core.StrAV(T), true
			}
			return core.Top, false
		}})
		w := &flowWalker{fi: fi, res: res, busy: map[flowKey]bool{}}
		var total flowRes
		where := core.FuncName(cl)
		for _, s := range fi.subst {
			if !w.reached(s) {
				continue
			}
			where = g.Where(s)
			total.merge(w.value(s.Ctx, s.Call.Args[2]))
		}
		if !total.seen {
			ob.OK(where, "no substitution reachable for this type (exhaustiveness is judged by R1)")
			continue
		}
		var kinds, wrong []string
		for k := range total.srcs {
			kinds = append(kinds, k)
		}
		sort.Strings(kinds)
		for _, k := range kinds {
			if !containsStr(as.want, k) {
				wrong = append(wrong, k)
			}
		}
		switch {
		case len(total.consts) > 0:
			ob.Fail(where, "on a feasible path for this type the placeholder of the output-path pattern is replaced by "+total.consts[0]+" - not by the task's value")
		case len(wrong) > 0:
			ob.Fail(where, "the substituted text comes from "+strings.Join(wrong, ", ")+" instead of "+strings.Join(as.want, " / "))
		default:
			note := "sources " + strings.Join(kinds, ", ")
			if total.opaque {
				note += " (partly not followed)"
			}
			ob.OK(where, note)
		}
	}
}

// defaultPathCoverage (C15.R5): the default output name is a function of the input names, the parameter values and the
// tag values (besides process name, port name and extension, which are not data of the task): the string the default
// path function returns has, as value-flow sources, FileIP.Path of in-IPs, the parameter table and the tag table.
func (e *Env) defaultPathCoverage(rule string, fn *ssa.Function) {
	ob := e.R.Ob(rule, "default-path:covers-inputs+params+tags", "the default output name is assembled from the paths of the in-IPs, the parameter values and the tag values of the task (each read from its own table)")
	g := e.XG(fn)
	if g == nil {
		return
	}
	ff := e.formatter()
	fi := &fmtInfo{e: e, g: g, modsFn: ff.modsFn, ipTempPath: ff.ipTempPath, ipPath: ff.ipPath, ipFifoPath: ff.ipFifoPath}
	res := g.Run(core.Scenario{Start: g.Entry, AtEntry: true})
	w := &flowWalker{fi: fi, res: res, busy: map[flowKey]bool{}}
	var total flowRes
	where := core.FuncName(fn)
	for _, n := range g.Nodes {
		if n.Kind != core.KRootRet {
			continue
		}
		rt, ok := n.Instr.(*ssa.Return)
		if !ok || len(rt.Results) != 1 {
			continue
		}
		where = g.Where(n)
		total.merge(w.value(n.Ctx, rt.Results[0]))
	}
	if !total.seen {
		ob.Unknown(where, "the returned name could not be followed")
		return
	}
	var miss []string
	for _, k := range [][2]string{{"Path", "the paths of the in-IPs"}, {"params", "the parameter values"}, {"tags", "the tag values"}} {
		if !total.srcs[k[0]] {
			miss = append(miss, k[1])
		}
	}
	var kinds []string
	for k := range total.srcs {
		kinds = append(kinds, k)
	}
	sort.Strings(kinds)
	// definite only when the assembly itself was followed (a strings.Join over an append-built list): then a missing
	// source is missing from the name, whatever else (process name, port name) is opaque
	if len(miss) > 0 && (!total.opaque || total.must&fvJoin != 0) {
		ob.Fail(where, "the default output name does not contain "+strings.Join(miss, ", ")+" (sources found: "+strings.Join(kinds, ", ")+"): tasks that differ only in those get the same default output path and overwrite / skip each other")
		return
	}
	if len(miss) > 0 {
		// (part of) the name is assembled in a way this walk does not follow (a Builder, Sprintf ...): a definite-defect
		// detector stays silent then
		ob.OK(where, "sources "+strings.Join(kinds, ", ")+" (partly not followed; nothing definite against coverage)")
		return
	}
	ob.OK(where, "sources "+strings.Join(kinds, ", "))
}

// varargElems: all elements stored into the array behind a varargs slice ([]interface{}{a, b, ...}[:]).
func varargElems(v ssa.Value) []ssa.Value {
	sl, ok := v.(*ssa.Slice)
	if !ok {
		return nil
	}
	al, ok := sl.X.(*ssa.Alloc)
	if !ok || al.Referrers() == nil {
		return nil
	}
	var out []ssa.Value
	for _, r := range *al.Referrers() {
		if ia, ok := r.(*ssa.IndexAddr); ok && ia.Referrers() != nil {
			for _, r2 := range *ia.Referrers() {
				if st, ok := r2.(*ssa.Store); ok && st.Addr == ia {
					out = append(out, st.Val)
				}
			}
		}
	}
	return out
}
