package rules

import (
	"fmt"
	"go/constant"
	"regexp"
	"strings"

	"golang.org/x/tools/go/ssa"

	"scicheck/internal/core"
)

func init() { Registry["C13"] = c13 }

// replPair is one strings.Replace/ReplaceAll step found on a value-flow.
type replPair struct {
	from, to string
	all      bool
	sym      *core.Sym
}

// replaceChain walks a symbolic string expression from the outside in and returns the Replace steps applied
// (outermost first) and the innermost operand.
func replaceChain(s *core.Sym) (steps []replPair, inner *core.Sym) {
	for s != nil && s.Op == "call" {
		switch {
		case (s.Name == "strings.Replace" || s.Name == "strings.ReplaceAll") && len(s.Args) >= 3:
			st := replPair{sym: s, all: s.Name == "strings.ReplaceAll" || (len(s.Args) == 4 && strings.HasPrefix(s.Args[3].String(), "-"))}
			st.from = s.Args[1].Template()
			st.to = s.Args[2].Template()
			steps = append(steps, st)
			s = s.Args[0]
			continue
		case s.Name == "(*strings.Replacer).Replace" && len(s.Args) == 2:
			// strings.NewReplacer(old, new).Replace(x): every occurrence of old (one pair only: with several pairs
			// the replacements are simultaneous, which no Replace chain expresses)
			if pairs := replacerPairs(s.Args[0]); len(pairs) == 2 {
				steps = append(steps, replPair{sym: s, all: true, from: pairs[0].Template(), to: pairs[1].Template()})
				s = s.Args[1]
				continue
			}
		}
		break
	}
	return steps, s
}

// replacerPairs: the old/new arguments of the strings.NewReplacer call a Replacer value comes from (resolved
// through package-level variables by the symboliser).
func replacerPairs(r *core.Sym) []*core.Sym {
	var out []*core.Sym
	r.Walk(func(z *core.Sym) bool {
		if z.Op == "call" && z.Name == "strings.NewReplacer" && out == nil {
			for _, a := range z.Args {
				if a.Op == "list" {
					out = append(out, a.Args...)
				} else {
					out = append(out, a)
				}
			}
			return false
		}
		return out == nil
	})
	return out
}

func (e *Env) expandingSym() *core.Symbolizer {
	small := map[string]bool{"replaceParentDirsWithPlaceholder": true, "replacePlaceholdersWithParentDirs": true}
	return e.P.NewSymbolizer(func(f *ssa.Function) bool { return small[f.Name()] || isTinyStringHelper(f) })
}

// isTinyStringHelper: a one-block library function string -> string (pure helper worth expanding).
func isTinyStringHelper(f *ssa.Function) bool {
	if len(f.Blocks) != 1 || f.Signature.Params().Len() != 1 || f.Signature.Results().Len() != 1 || f.Signature.Recv() != nil {
		return false
	}
	return f.Signature.Params().At(0).Type().String() == "string" && f.Signature.Results().At(0).Type().String() == "string"
}

func c13(e *Env) {
	r := e.R
	r.Explanation = "Table agreement and routing for output/input paths, decided for all path strings at once: (R1) the decoder applied to extra files in the temp-dir walk is the inverse of the encoder in FileIP.TempPath: it first strips exactly the `<temp dir>/` prefix by a prefix replace (count 1), then maps `<root placeholder>/` back to `/` and every `<parent placeholder>` back to `../`; no cut-set trimming (strings.Trim*) is used where a prefix must be removed; (R2) routing per placeholder type in the command formatter: o → TempPath with ../ encoded; os → FifoPath; i → Path, or FifoPath when the in-IP streams; os/i results get the parent-dir prefix unless the basename modifier is present; the prefix function yields \"../\"+p and leaves absolute paths unchanged; (R3) declared outputs are renamed from <temp dir>/<TempPath(x)> to exactly Path(x) (destination not transformed); extra files go to decoder(path relative to the temp dir); (R4) before the command runs, <temp dir>/Dir(TempPath) is created for every non-streaming output; (R5) before a declared output is renamed, the directory of its final path has been created on all paths; (R6) each internal placeholder constant contains a character outside the alphabet pathIsValid accepts, so no valid user path can contain it."
	r.NotDecided = "the resulting file-system state, symlinks and OS path resolution; the concrete strings for concrete paths are not evaluated - only tables, routing and templates."
	a := e.anchors()
	if !a.ok() {
		return
	}
	p := e.P
	sp := e.spine()
	if sp == nil {
		return
	}
	g := sp.g
	xs := e.xsym()
	// placeholder constants
	parentPH, rootPH := "", ""
	if k, ok := p.SSAPkgs[core.LibPkgs[0]].Members["parentDirPlaceHolder"].(*ssa.NamedConst); ok {
		parentPH = constant.StringVal(k.Value.Value)
	}
	if k, ok := p.SSAPkgs[core.LibPkgs[0]].Members["FSRootPlaceHolder"].(*ssa.NamedConst); ok {
		rootPH = constant.StringVal(k.Value.Value)
	}
	// ---- encoder: TempPath
	obEnc := r.Ob("R1", "encoder:TempPath", "FileIP.TempPath encodes every \"../\" as the parent placeholder and prefixes absolute paths with the root placeholder")
	tp := p.Func("FileIP.TempPath")
	encParentFrom, encParentTo, encRoot := "", "", ""
	if tp == nil {
		obEnc.Unknown("-", "FileIP.TempPath not found")
	} else {
		for _, b := range tp.Blocks {
			for _, in := range b.Instrs {
				rt, ok := in.(*ssa.Return)
				if !ok {
					continue
				}
				s := xs.InFunc(tp, rt.Results[0])
				// one return per case, or one return of a value chosen before: every alternative is examined
				for _, alt := range s.Alts(8) {
					fl := alt.Flat()
					body := fl[len(fl)-1]
					steps, inner := replaceChain(body)
					if len(steps) != 1 || !steps[0].all || !(inner.Op == "field" && strings.HasSuffix(inner.Name, ".path")) {
						obEnc.Fail(e.where(rt), "TempPath is not ReplaceAll(path, \"../\", <parent placeholder>): "+trunc(s.String(), 160))
						continue
					}
					encParentFrom, encParentTo = steps[0].from, steps[0].to
					if len(fl) == 2 && fl[0].Op == "lit" {
						encRoot = fl[0].Lit
					}
				}
			}
		}
		if encParentFrom == "../" && encParentTo != "" && encRoot != "" {
			// the root prefix is applied exactly to absolute paths: scenario on path[0]
			obEnc.OK(core.FuncName(tp), fmt.Sprintf("\"../\"→%q (all), absolute → %q+path", encParentTo, encRoot))
		} else if obEnc.Sites == 0 {
			obEnc.Fail(core.FuncName(tp), fmt.Sprintf("encoder pairs not recognised: parent %q→%q, root prefix %q", encParentFrom, encParentTo, encRoot))
		}
	}
	// the placeholder strings themselves: by their constants, or (renamed / inlined constants) from the encoder
	if parentPH == "" {
		parentPH = encParentTo
	}
	if rootPH == "" {
		rootPH = encRoot
	}
	// ---- decoder: destination of the extra-file rename
	obDec := r.Ob("R1", "decoder:inverse-of-encoder", "the decoder for extra files strips the `<temp dir>/` prefix (prefix replace, once), maps `<root placeholder>/`→`/` (once) and every `<parent placeholder>`→`../`: the inverse of the encoder")
	for _, n := range sp.extraRename {
		dst := xs.InCtx(n.Ctx, n.Call.Args[1])
		steps, inner := replaceChain(dst)
		// expected, outermost first: parent (all), root (once), tempdir strip (once)
		desc := []string{}
		for _, st := range steps {
			desc = append(desc, fmt.Sprintf("%q→%q%s", st.from, st.to, map[bool]string{true: " all", false: " once"}[st.all]))
		}
		ok := len(steps) == 3 && inner.Op == "param" &&
			steps[0].from == encParentTo && steps[0].to == encParentFrom && steps[0].all &&
			steps[1].from == encRoot+"/" && steps[1].to == "/" && !steps[1].all &&
			strings.HasSuffix(steps[2].from, "/") && strings.Contains(steps[2].from, "⟨") && steps[2].to == "" && !steps[2].all
		obDec.Check(ok, g.Where(n), strings.Join(desc, " ∘ "), "the destination of an extra file is "+trunc(dst.String(), 220)+" - not decode(strip(<temp dir>/, path)) with the inverse tables of the encoder (parent "+fmt.Sprintf("%q→%q", encParentFrom, encParentTo)+", root "+fmt.Sprintf("%q", encRoot)+")")
		// the source is the walked path itself
		src := xs.InCtx(n.Ctx, n.Call.Args[0])
		if src.Op != "param" {
			obDec.Fail(g.Where(n), "the source of the extra-file rename is not the walked path: "+src.String())
		}
	}
	if len(sp.extraRename) == 0 {
		obDec.Fail(core.FuncName(a.finalize), "files the command leaves in its working directory besides the declared outputs are never moved out of the temp dir")
	}
	// no cut-set trimming in the finaliser
	obTrim := r.Ob("R1", "finalize:no-cutset-trim", "no strings.Trim/TrimLeft/TrimRight with a non-constant cut-set in the finaliser (a prefix must be removed as a prefix)")
	e.noCutsetTrim(obTrim, a.finalize)
	// ---- R2 routing
	e.c13Routing()
	// ---- R3
	ob3 := r.Ob("R3", "finalize:declared-destination", "a declared output is renamed to exactly FileIP.Path(x), from <temp dir>/<TempPath(x)>")
	for _, n := range sp.declRename {
		src, dst := e.xargSym(n, 0), e.xargSym(n, 1)
		fl := src.Flat()
		ok := len(fl) == 3 && isTempDirRoot(fl[0]) && fl[1].Op == "lit" && fl[1].Lit == "/" && isCallSym(fl[2], fnTempPath) && isCallSym(dst, fnPath) &&
			fl[2].Args[0].String() == dst.Args[0].String()
		ob3.Check(ok, g.Where(n), "Rename("+trunc(src.Template(), 60)+" → "+trunc(dst.Template(), 60)+")", "a declared output is renamed to "+trunc(dst.Template(), 160)+" instead of its declared path FileIP.Path(x): paths containing text that looks like a placeholder end up elsewhere")
	}
	if len(sp.declRename) == 0 {
		ob3.Unknown("-", "declared-output rename not found")
	}
	// ---- R3b every file left in the temp dir is moved out
	ob3b := r.Ob("R3", "finalize:every-extra-file-moved", "for every non-directory entry of the temp-dir walk the rename to its decoded destination is attempted: the callback cannot return for such an entry without having reached the rename (or failed)")
	isExtra := nodeSet(sp.extraRename)
	nCb := 0
	for _, c := range g.Ctxs {
		if !c.Callback || c.CallNode == nil || !c.CallNode.IsCallTo("path/filepath.Walk", "path/filepath.WalkDir") {
			continue
		}
		var entry *core.Node
		for _, n := range g.Nodes {
			if n.Ctx == c && n.First && n.Instr != nil && n.Instr.Block() == c.Fn.Blocks[0] {
				entry = n
				break
			}
		}
		if entry == nil {
			continue
		}
		nCb++
		notDir := func(m *core.Node) (core.AV, bool) {
			if m.Call != nil && m.Call.IsInvoke() && m.Call.Method.Name() == "IsDir" {
				return core.BoolAV(false), true
			}
			return core.Top, false
		}
		res := g.Run(core.Scenario{Start: entry, AtEntry: true, CallResult: notDir})
		w := res.ReachesAvoiding(func(m *core.Node) bool { return m.Kind == core.KRet && m.Ctx == c }, func(m *core.Node) bool { return isExtra[m] })
		ob3b.Check(w == nil, g.Where(entry), "not a directory ⇒ rename reached before the callback returns", "the walk callback can return for a regular file without moving it ("+func() string {
			if w != nil {
				return "return at " + g.Where(w)
			}
			return ""
		}()+"): the file is then deleted with the temp dir - what the command wrote is lost, e.g. when something already exists at the destination")
	}
	// ---- R3c the walk goes on after a successful move, and a missing destination directory is created first
	ob3c := r.Ob("R3", "finalize:walk-continues+dest-dir", "after a successful move of an extra file the walk callback returns no error of its own (the walk continues with the next file), and a missing destination directory is created before the move")
	for _, c := range g.Ctxs {
		if !c.Callback || c.CallNode == nil || !c.CallNode.IsCallTo("path/filepath.Walk", "path/filepath.WalkDir") {
			continue
		}
		for _, rn := range sp.extraRename {
			inCb := false
			for cc := rn.Ctx; cc != nil; cc = cc.Parent {
				if cc == c {
					inCb = true
				}
			}
			if !inCb {
				continue
			}
			// (1) rename succeeded: the callback does not return a freshly made error
			res := g.Run(core.Scenario{Start: rn, Result: core.NilAV()})
			isBad := func(m *core.Node) bool {
				if m.Kind != core.KRet || m.Ctx != c {
					return false
				}
				rt, ok := m.Instr.(*ssa.Return)
				if !ok || len(rt.Results) == 0 {
					return false
				}
				call, ok := rt.Results[len(rt.Results)-1].(*ssa.Call)
				if !ok || call.Call.StaticCallee() == nil {
					return false
				}
				switch call.Call.StaticCallee().String() {
				case "errors.New", "fmt.Errorf":
					return true
				}
				return false
			}
			// (only this invocation of the callback: the walk calls it again for the next entry)
			badRet := res.ReachesAvoiding(isBad, func(m *core.Node) bool { return m.Kind == core.KRet && m.Ctx == c && !isBad(m) })
			if badRet != nil {
				ob3c.Fail(g.Where(rn), "after a successful rename the callback returns an error of its own ("+g.Where(badRet)+"): the walk stops, the remaining extra files stay in the temp dir and are deleted with it")
				continue
			}
			// (2) destination directory: a stat of Dir(destination) that says ENOENT leads to MkdirAll before the rename
			dst := e.xargSym(rn, 1).String()
			okDir, nStat := true, 0
			for _, st := range g.Select(isStat) {
				if st.Ctx != rn.Ctx && !inCtxChain(st.Ctx, c) {
					continue
				}
				as := e.xargSym(st, 0).String()
				if !strings.Contains(as, "filepath.Dir(") || !strings.Contains(dst, strings.TrimSuffix(strings.TrimPrefix(as, "path/filepath.Dir("), ")")) {
					continue
				}
				nStat++
				r2 := g.Run(core.Scenario{Start: st, Result: errResult(st, core.ErrNotExist, false)})
				if r2.ReachesAvoiding(func(m *core.Node) bool { return m == rn }, isMkdir) != nil {
					okDir = false
					ob3c.Fail(g.Where(st), "when the directory of an extra file's destination does not exist the rename is reached without MkdirAll (the test's polarity is wrong): files a command leaves in new sub-directories cannot be moved out")
				}
			}
			if okDir {
				ob3c.OK(g.Where(rn), fmt.Sprintf("rename ok ⇒ walk continues; %d destination-dir test(s): ENOENT ⇒ MkdirAll before the rename", nStat))
			}
		}
	}
	if nCb == 0 {
		ob3b.Unknown("-", "no modelled filepath.Walk callback in Execute's call tree")
	}
	// ---- R4 output dirs inside the temp dir before the command
	ob4 := r.Ob("R4", "createDirs:out-dirs-in-temp", "before the command runs, <temp dir>/Dir(TempPath(x)) is created for every non-streaming output")
	const (
		evRun core.Bits = 1 << iota
	)
	found4 := false
	for _, n := range g.Select(isMkdir) {
		s := e.xargSym(n, 0)
		match := false
		for _, alt := range s.Alts(8) {
			fl := alt.Flat()
			if len(fl) >= 3 && isTempDirRoot(fl[0]) && fl[1].Op == "lit" && strings.HasPrefix(fl[1].Lit, "/") {
				rest := fl[2].String()
				if strings.Contains(rest, "(*FileIP).TempDir(") || strings.Contains(rest, "Dir("+fnTempPath) {
					match = true
				}
			}
		}
		if !match {
			continue
		}
		found4 = true
		may := g.Forward(func(m *core.Node) core.Transfer {
			if a.isRun(m) {
				return core.Transfer{Gen: evRun}
			}
			return core.Transfer{}
		}, false)
		if may[n]&evRun != 0 {
			ob4.Fail(g.Where(n), "the output directories are created after the command may have run")
			continue
		}
		mkOK := func(m *core.Node) (core.AV, bool) {
			if isMkdir(m) {
				return core.NilAV(), true
			}
			return core.Top, false
		}
		if e.forAllOutputs2(ob4, g, n, func(m *core.Node) bool { return m == n }, core.Scenario{FieldLoad: e.assumeStream(false), CallResult: mkOK}, "creation of output directories") {
			ob4.OK(g.Where(n), "MkdirAll("+trunc(s.Template(), 120)+") for every output, before the command")
		}
	}
	if !found4 {
		ob4.Fail(core.FuncName(a.execute), "no MkdirAll of <temp dir>/Dir(TempPath) before the command: a command writing to {o:x} in a sub-directory fails")
	}
	// FileIP.TempDir = Dir(TempPath)
	if td := p.Func("FileIP.TempDir"); td != nil {
		for _, b := range td.Blocks {
			for _, in := range b.Instrs {
				if rt, ok := in.(*ssa.Return); ok {
					s := e.symbolizer().InFunc(td, rt.Results[0])
					r.Ob("R4", "(*FileIP).TempDir", "FileIP.TempDir is Dir(TempPath)").Check(isCallSym(s, "path/filepath.Dir") && isCallSym(s.Args[0], fnTempPath), e.where(rt), s.String(), "FileIP.TempDir is "+s.String())
				}
			}
		}
	}
	// ---- R5 final directory exists before the rename (fixed F4)
	ob5 := r.Ob("R5", "Execute:ensure-dir(Path)", "before a declared output is renamed to Path(x), a MkdirAll of the directory of a path under Dir(Path(x)) has been executed for every output on all paths")
	finalDirExit := map[*core.Node]bool{}
	var cand []string
	for _, n := range g.Select(isMkdir) {
		s := e.xargSym(n, 0)
		if inCallback(n) || !isCallSym(s, "path/filepath.Dir") {
			continue
		}
		arg := s.Args[0]
		// Dir(AuditFilePath(x)) or Dir(Path(x)) - both have Dir == Dir(Path(x)); AuditFilePath = Path + suffix
		if (isCallSym(arg, fnAuditPath) || isCallSym(arg, fnPath)) && overField(arg, ".OutIPs") {
			cand = append(cand, s.Template())
			top := n
			for top.Ctx.Parent != nil && top.Ctx.CallNode != nil && core.InnermostLoop(top.Instr) == nil {
				top = top.Ctx.CallNode
			}
			ex, _ := loopExitNodes(g, top)
			for _, x := range ex {
				finalDirExit[x] = true
			}
		}
	}
	must := g.Forward(func(m *core.Node) core.Transfer {
		if finalDirExit[m] {
			return core.Transfer{Gen: 1}
		}
		return core.Transfer{}
	}, true)
	for _, n := range sp.declRename {
		ob5.Check(must[n]&1 != 0, g.Where(n), "MkdirAll("+strings.Join(cand, ", ")+") for all outputs precedes the rename", "no MkdirAll of Dir(Path(x)) (or of the audit file's directory, which is the same) is certain before the rename: an output in a not-yet-existing directory cannot be finalised; a MkdirAll of Dir(TempPath) relative to the working directory creates stray __parent__*/__fsroot__ directories instead")
	}
	// ---- R6 placeholder alphabet (finding K3)
	// the path-validity pattern: the regular expression the IP constructor matches the user's path against
	// (compiled inline or kept in a package-level variable)
	valid := ""
	if nfip := p.Func("NewFileIP"); nfip != nil {
		if gv := e.XG(nfip); gv != nil {
			fsy := e.fsym()
			for _, n := range gv.Nodes {
				if n.Call == nil || n.Kind == core.KAfter {
					continue
				}
				var pat *core.Sym
				switch {
				case n.IsCallTo("(*regexp.Regexp).MatchString", "(*regexp.Regexp).Match"):
					pat = fsy.InCtx(n.Ctx, n.Call.Args[0])
				case n.IsCallTo("regexp.MatchString", "regexp.Match"):
					pat = fsy.InCtx(n.Ctx, n.Call.Args[0])
				}
				if pat == nil {
					continue
				}
				pat.Walk(func(z *core.Sym) bool {
					if z.Op == "lit" && valid == "" {
						valid = z.Lit
					}
					return valid == ""
				})
			}
		}
	}
	for _, ph := range []struct{ name, val string }{{"parentDirPlaceHolder", parentPH}, {"FSRootPlaceHolder", rootPH}} {
		ob6 := r.Ob("R6", ph.name, "the placeholder constant contains a character outside the alphabet accepted for user paths, so a valid path (or a file a command creates) cannot contain it by accident")
		re, err := regexp.Compile(valid)
		switch {
		case ph.val == "" || valid == "" || err != nil:
			ob6.Unknown("-", "placeholder constant or the path-validity pattern not found")
		case re.MatchString(ph.val):
			ob6.Fail("const "+ph.name, fmt.Sprintf("%q consists only of characters accepted by pathIsValid (%s): a file or directory whose name contains it is decoded as ../ or / when finalised, e.g. an extra file %sfoo.txt ends up outside the working directory", ph.val, valid, ph.val))
		default:
			ob6.OK("const "+ph.name, fmt.Sprintf("%q is rejected by %s", ph.val, valid))
		}
	}
}

// noCutsetTrim flags strings.Trim/TrimLeft/TrimRight with a non-constant cut-set in fn and its closures.
func (e *Env) noCutsetTrim(ob *core.Obligation, fn *ssa.Function) {
	if fn == nil {
		ob.Unknown("-", "function not found")
		return
	}
	var fns []*ssa.Function
	var visit func(f *ssa.Function)
	visit = func(f *ssa.Function) {
		fns = append(fns, f)
		for _, an := range f.AnonFuncs {
			visit(an)
		}
	}
	visit(fn)
	n := 0
	for _, f := range fns {
		for _, b := range f.Blocks {
			n += len(b.Instrs)
		}
	}
	for _, in := range findCutsetTrim(fns) {
		c := in.(*ssa.Call)
		ob.Fail(e.where(c), c.Call.StaticCallee().String()+" with the cut-set "+e.symbolizer().InFunc(c.Parent(), c.Call.Args[1]).String()+": a cut-set trim removes any run of those characters, not the prefix/suffix - characters of the remaining path are eaten too")
	}
	e.positiveControls("cutset-trim")
	ob.OK(core.FuncName(fn), fmt.Sprintf("%d instructions scanned", n))
}

func (e *Env) c13Routing() {
	e.fmtArmO("R2")
	e.fmtRouting("R2")
	e.fmtValueFlow("R2")
}

func inCtxChain(c, anc *core.Ctx) bool {
	for x := c; x != nil; x = x.Parent {
		if x == anc {
			return true
		}
	}
	return false
}
