package rules

import (
	"strings"

	"golang.org/x/tools/go/ssa"

	"scicheck/internal/core"
)

// ----------------------------------------------------------------------------
// The Task.Execute spine: classification of the file-system events of Execute's
// expanded CFG by the symbolic form of their path arguments.
// ----------------------------------------------------------------------------

const (
	fnTempDir   = "(*Task).TempDir"
	fnPath      = "(*FileIP).Path"
	fnTempPath  = "(*FileIP).TempPath"
	fnFifoPath  = "(*FileIP).FifoPath"
	fnAuditPath = "(*FileIP).AuditFilePath"
)

type spine struct {
	g           *core.XG
	leftover    []*core.Node // os.Stat(TempDir(t))
	skipStat    []*core.Node // os.Stat(Path(oip)) over Task.OutIPs
	ensureStat  []*core.Node // os.Stat(TempDir(t)/TempPath(oip))
	mkTemp      []*core.Node // MkdirAll(TempDir(t))
	declRename  []*core.Node // os.Rename(<dir>/TempPath(x), Path(x))
	extraRename []*core.Node // os.Rename inside the walk callback
	rmTemp      []*core.Node // os.RemoveAll(TempDir(t))
	auditWrite  []*core.Node // WriteFile(AuditFilePath(oip), ...)
	runs        []*core.Node
	walks       []*core.Node
}

func isCallSym(s *core.Sym, name string) bool { return s != nil && s.Op == "call" && s.Name == name }

// overField: the expression mentions an element of the named collection field and of no other task collection.
func overField(s *core.Sym, field string) bool {
	return s != nil && strings.Contains(s.String(), field)
}

func inCallback(n *core.Node) bool {
	for c := n.Ctx; c != nil; c = c.Parent {
		if c.Callback {
			return true
		}
	}
	return false
}

// isTempDirRoot: the symbolic value denotes the executing task's temp dir: Task.TempDir(t) itself
// (possibly passed down as a parameter, which the symboliser has already resolved).
func isTempDirRoot(s *core.Sym) bool { return isCallSym(s, fnTempDir) }

func (e *Env) spine() *spine {
	if e.sp != nil {
		return e.sp
	}
	a := e.anchors()
	g := e.XG(a.execute)
	if g == nil {
		return nil
	}
	sp := &spine{g: g}
	e.sp = sp
	for _, n := range g.Nodes {
		switch {
		case a.isRun(n):
			sp.runs = append(sp.runs, n)
		case n.IsCallTo("path/filepath.Walk", "path/filepath.WalkDir"):
			sp.walks = append(sp.walks, n)
		case isStat(n):
			s := e.argSym(n, 0)
			fl := s.Flat()
			switch {
			case isTempDirRoot(s):
				sp.leftover = append(sp.leftover, n)
			case isCallSym(s, fnPath) && overField(s, ".OutIPs"):
				sp.skipStat = append(sp.skipStat, n)
			case len(fl) == 3 && isTempDirRoot(fl[0]) && fl[1].Op == "lit" && fl[1].Lit == "/" && isCallSym(fl[2], fnTempPath) && overField(fl[2], ".OutIPs"):
				sp.ensureStat = append(sp.ensureStat, n)
			}
		case isMkdir(n):
			if isTempDirRoot(e.argSym(n, 0)) {
				sp.mkTemp = append(sp.mkTemp, n)
			}
		case isRemoveAll(n):
			if isTempDirRoot(e.argSym(n, 0)) {
				sp.rmTemp = append(sp.rmTemp, n)
			}
		case isRename(n):
			if inCallback(n) {
				sp.extraRename = append(sp.extraRename, n)
			} else {
				sp.declRename = append(sp.declRename, n)
			}
		case isWriteFile(n) || n.IsCallTo("os.OpenFile", "os.Create"):
			if isCallSym(e.argSym(n, 0), fnAuditPath) {
				sp.auditWrite = append(sp.auditWrite, n)
			}
		}
	}
	return sp
}

// loopExitNodes returns, for the innermost loop around instruction in (in n's context), the nodes that are
// entered when the loop is left through its header (normal exhaustion of the range / counted loop).
func loopExitNodes(g *core.XG, n *core.Node) (exit []*core.Node, l *core.Loop) {
	l = core.InnermostLoop(n.Instr)
	if l == nil {
		return nil, nil
	}
	_, iff := core.HeaderTest(l)
	if iff == nil {
		return nil, l
	}
	for _, m := range g.Nodes {
		if m.Ctx == n.Ctx && m.Instr == ssa.Instruction(iff) && len(m.Succs) == 2 {
			// the successor that leaves the loop
			for i, s := range iff.Block().Succs {
				if !l.Blocks[s] {
					exit = append(exit, m.Succs[i])
				}
			}
		}
	}
	return exit, l
}

// loopHeadNext returns the node of the `next` instruction of the range loop around n (same context).
func loopHeadNext(g *core.XG, n *core.Node) *core.Node {
	l := core.InnermostLoop(n.Instr)
	if l == nil {
		return nil
	}
	for _, in := range l.Header.Instrs {
		if nx, ok := in.(*ssa.Next); ok {
			for _, m := range g.Nodes {
				if m.Ctx == n.Ctx && m.Instr == ssa.Instruction(nx) {
					return m
				}
			}
		}
	}
	return nil
}

// errResult builds the abstract result of a call in which the error result is non-nil (class cls)
// and every other result is unknown.
func errResult(n *core.Node, cls core.ErrClass, isNil bool) core.AV {
	v, ok := n.Instr.(ssa.Value)
	if !ok {
		return core.Top
	}
	mk := func() core.AV {
		if isNil {
			return core.NilAV()
		}
		return core.NonNilAV(cls)
	}
	sig := n.Call.Signature()
	if sig.Results().Len() <= 1 {
		_ = v
		return mk()
	}
	t := make([]core.AV, sig.Results().Len())
	t[len(t)-1] = mk()
	return core.TupleAV(t...)
}

// forAllOutputs checks the ForAll idiom for an action executed for every element of a ranged collection:
// (1) the loop around the action cannot be left early (break / return), (2) under the given field
// assumption every iteration that goes on to the next one executes the action.
func (e *Env) forAllOutputs(ob *core.Obligation, g *core.XG, action *core.Node, isAction func(*core.Node) bool, assume core.Scenario, what string) bool {
	l := core.InnermostLoop(action.Instr)
	if l == nil {
		ob.Fail(g.Where(action), what+" is not inside a loop over the task's outputs")
		return false
	}
	if kind, _ := core.HeaderTest(l); kind != "range" && kind != "counted" {
		ob.Unknown(g.Where(action), "loop shape not recognised (header test: "+kind+")")
		return false
	}
	if ex := e.P.EarlyExits(l); len(ex) > 0 {
		ob.Fail(g.Where(action), what+": the loop over the outputs can be left before all of them were handled: "+ex[0])
		return false
	}
	head := loopHeadNext(g, action)
	if head == nil {
		ob.Unknown(g.Where(action), "range header not found")
		return false
	}
	sc := assume
	sc.Start = head
	sc.Result = core.TupleAV(core.BoolAV(true), core.Top, core.Top)
	res := g.Run(sc)
	if w := res.ReachesAvoiding(func(m *core.Node) bool { return m == head }, isAction); w != nil {
		ob.Fail(g.Where(action), what+": an iteration can reach the next one without performing the action")
		return false
	}
	return true
}
