package rules

import (
	"strings"

	"golang.org/x/tools/go/ssa"

	"scicheck/internal/core"
)

// ----------------------------------------------------------------------------
// The Task.Execute spine: classification of the file-system events of Execute's
// expanded CFG by the symbolic form of their path arguments.
// ----------------------------------------------------------------------------

const (
	fnTempDir   = "(*Task).TempDir"
	fnPath      = "(*FileIP).Path"
	fnTempPath  = "(*FileIP).TempPath"
	fnFifoPath  = "(*FileIP).FifoPath"
	fnAuditPath = "(*FileIP).AuditFilePath"
)

type spine struct {
	g           *core.XG
	leftover    []*core.Node // os.Stat(TempDir(t))
	skipStat    []*core.Node // os.Stat(Path(oip)) over Task.OutIPs
	ensureStat  []*core.Node // os.Stat(TempDir(t)/TempPath(oip))
	mkTemp      []*core.Node // MkdirAll(TempDir(t))
	declRename  []*core.Node // os.Rename(<dir>/TempPath(x), Path(x))
	extraRename []*core.Node // os.Rename inside the walk callback
	rmTemp      []*core.Node // os.RemoveAll(TempDir(t))
	auditWrite  []*core.Node // WriteFile(AuditFilePath(oip), ...)
	runs        []*core.Node
	walks       []*core.Node
}

func isCallSym(s *core.Sym, name string) bool { return s != nil && s.Op == "call" && s.Name == name }

// overField: the expression mentions an element of the named collection field and of no other task collection.
func overField(s *core.Sym, field string) bool {
	return s != nil && strings.Contains(s.String(), field)
}

func inCallback(n *core.Node) bool {
	for c := n.Ctx; c != nil; c = c.Parent {
		if c.Callback {
			return true
		}
	}
	return false
}

// isTempDirRoot: the symbolic value denotes the executing task's temp dir: Task.TempDir(t) itself
// (possibly passed down as a parameter, which the symboliser has already resolved).
func isTempDirRoot(s *core.Sym) bool { return isCallSym(s, fnTempDir) }

func (e *Env) spine() *spine {
	if e.sp != nil {
		return e.sp
	}
	a := e.anchors()
	g := e.XG(a.execute)
	if g == nil {
		return nil
	}
	sp := &spine{g: g}
	e.sp = sp
	for _, n := range g.Nodes {
		switch {
		case a.isRun(n):
			sp.runs = append(sp.runs, n)
		case n.IsCallTo("path/filepath.Walk", "path/filepath.WalkDir"):
			sp.walks = append(sp.walks, n)
		case isStat(n):
			s := e.xargSym(n, 0)
			fl := s.Flat()
			switch {
			case isTempDirRoot(s):
				sp.leftover = append(sp.leftover, n)
			case isCallSym(s, fnPath) && overField(s, ".OutIPs"):
				sp.skipStat = append(sp.skipStat, n)
			case len(fl) == 3 && isTempDirRoot(fl[0]) && fl[1].Op == "lit" && fl[1].Lit == "/" && isCallSym(fl[2], fnTempPath) && overField(fl[2], ".OutIPs"):
				sp.ensureStat = append(sp.ensureStat, n)
			}
		case isMkdir(n):
			if isTempDirRoot(e.xargSym(n, 0)) {
				sp.mkTemp = append(sp.mkTemp, n)
			}
		case isRemoveAll(n):
			if isTempDirRoot(e.xargSym(n, 0)) {
				sp.rmTemp = append(sp.rmTemp, n)
			}
		case isRename(n):
			if inCallback(n) {
				sp.extraRename = append(sp.extraRename, n)
			} else {
				sp.declRename = append(sp.declRename, n)
			}
		case isWriteFile(n) || n.IsCallTo("os.OpenFile", "os.Create"):
			if isCallSym(e.xargSym(n, 0), fnAuditPath) {
				sp.auditWrite = append(sp.auditWrite, n)
			}
		}
	}
	return sp
}

// iterLoops: the range / counted loops around n along the calling-context chain, nearest first.
func iterLoops(g *core.XG, n *core.Node) []core.LoopAt {
	var out []core.LoopAt
	for _, la := range g.EnclLoops(n) {
		if kind, _ := core.HeaderTest(la.L); kind == "range" || kind == "counted" {
			out = append(out, la)
		}
	}
	return out
}

// loopCollectionSymX: loopCollectionSym seen through small private helpers.
func (e *Env) loopCollectionSymX(g *core.XG, la core.LoopAt) *core.Sym {
	return e.loopCollectionWith(e.xsym(), g, la)
}

// loopCollectionSym: like loopCollection, as a symbolic value (nil when not recognisable).
func (e *Env) loopCollectionSym(g *core.XG, la core.LoopAt) *core.Sym {
	return e.loopCollectionWith(e.symbolizer(), g, la)
}

func (e *Env) loopCollectionWith(sy *core.Symbolizer, g *core.XG, la core.LoopAt) *core.Sym {
	for _, in := range la.L.Header.Instrs {
		if nx, ok := in.(*ssa.Next); ok {
			if rg, ok := nx.Iter.(*ssa.Range); ok {
				return sy.InCtx(la.At.Ctx, rg.X)
			}
		}
	}
	if _, iff := core.HeaderTest(la.L); iff != nil {
		if bo, ok := iff.Cond.(*ssa.BinOp); ok {
			for _, v := range []ssa.Value{bo.Y, bo.X} {
				if c, ok := v.(*ssa.Call); ok {
					if bi, ok := c.Call.Value.(*ssa.Builtin); ok && bi.Name() == "len" {
						return sy.InCtx(la.At.Ctx, c.Call.Args[0])
					}
				}
			}
		}
	}
	return nil
}

// loopCollection renders the collection a loop iterates over (the ranged map / channel, or the slice whose
// length bounds the index), in the loop's context; "" when not recognisable.
func (e *Env) loopCollection(g *core.XG, la core.LoopAt) string {
	for _, in := range la.L.Header.Instrs {
		if nx, ok := in.(*ssa.Next); ok {
			if rg, ok := nx.Iter.(*ssa.Range); ok {
				return e.symbolizer().InCtx(la.At.Ctx, rg.X).String()
			}
		}
	}
	if _, iff := core.HeaderTest(la.L); iff != nil {
		if bo, ok := iff.Cond.(*ssa.BinOp); ok {
			for _, v := range []ssa.Value{bo.Y, bo.X} {
				if c, ok := v.(*ssa.Call); ok {
					if bi, ok := c.Call.Value.(*ssa.Builtin); ok && bi.Name() == "len" {
						return e.symbolizer().InCtx(la.At.Ctx, c.Call.Args[0]).String()
					}
				}
			}
		}
	}
	return ""
}

// loopOver returns the nearest loop around n whose collection mentions substr ("" = nearest loop).
func (e *Env) loopOver(g *core.XG, n *core.Node, substr string) (core.LoopAt, bool) {
	for _, la := range iterLoops(g, n) {
		if substr == "" || strings.Contains(e.loopCollection(g, la), substr) {
			return la, true
		}
	}
	return core.LoopAt{}, false
}

// loopExitNodes returns the nodes entered when the nearest loop around n (along the context chain) is left
// through its header test (normal exhaustion of the range / counted loop).
func loopExitNodes(g *core.XG, n *core.Node) (exit []*core.Node, l *core.Loop) {
	las := iterLoops(g, n)
	if len(las) == 0 {
		return nil, nil
	}
	return g.LoopExitNodes(las[0]), las[0].L
}

// loopHeadNext returns the node computing the continuation test of the nearest loop around n.
func loopHeadNext(g *core.XG, n *core.Node) *core.Node {
	las := iterLoops(g, n)
	if len(las) == 0 {
		return nil
	}
	t, _, _ := g.LoopTest(las[0])
	return t
}

// errResult builds the abstract result of a call in which the error result is non-nil (class cls)
// and every other result is unknown.
func errResult(n *core.Node, cls core.ErrClass, isNil bool) core.AV {
	v, ok := n.Instr.(ssa.Value)
	if !ok {
		return core.Top
	}
	mk := func() core.AV {
		if isNil {
			return core.NilAV()
		}
		return core.NonNilAV(cls)
	}
	sig := n.Call.Signature()
	if sig.Results().Len() <= 1 {
		_ = v
		return mk()
	}
	t := make([]core.AV, sig.Results().Len())
	t[len(t)-1] = mk()
	return core.TupleAV(t...)
}

// forAllOutputs checks the ForAll idiom for an action executed for every element of an iterated collection:
// (1) the nearest loop around the action (along the calling-context chain, so an action extracted into a
// helper counts) cannot be left early except on paths on which the program then never continues normally
// (a `return err` that the callers turn into a fatal failure is harmless); (2) under the given assumption,
// no iteration reaches the next one without performing the action.
func (e *Env) forAllOutputs(ob *core.Obligation, g *core.XG, action *core.Node, isAction func(*core.Node) bool, assume core.Scenario, what string) bool {
	las := iterLoops(g, action)
	if len(las) == 0 {
		ob.Fail(g.Where(action), what+" is not inside a loop over the items")
		return false
	}
	return e.forAllIn(ob, g, las[0], action, isAction, assume, what)
}

func (e *Env) forAllIn(ob *core.Obligation, g *core.XG, la core.LoopAt, action *core.Node, isAction func(*core.Node) bool, assume core.Scenario, what string) bool {
	for _, ed := range e.P.EarlyExitEdges(la.L) {
		tgt := g.FirstNodeOf(la.At.Ctx, ed.To)
		if tgt == nil {
			continue // pruned: ends in a never-returning call
		}
		sc := assume
		sc.Start, sc.AtEntry, sc.Result = tgt, true, core.Top
		if w := g.Run(sc).NormalReturn(); w != nil {
			pos := "?"
			if len(ed.From.Instrs) > 0 {
				pos = e.P.InstrPos(ed.From.Instrs[len(ed.From.Instrs)-1])
			}
			ob.Fail(g.Where(action), what+": the loop over the items can be left before all of them were handled: edge out of the loop body at "+pos+", after which the program continues normally")
			return false
		}
	}
	test, enter, ok := g.LoopTest(la)
	if !ok {
		// a loop without a test in its header (`for { ...; if done { break } ... }`): an iteration starts at the
		// header's first instruction
		hd := g.FirstNodeOf(la.At.Ctx, la.L.Header)
		if hd == nil {
			ob.Unknown(g.Where(action), "loop shape not recognised (no continuation test found)")
			return false
		}
		sc := assume
		sc.Start, sc.AtEntry, sc.Result = hd, true, core.Top
		if isAction(hd) {
			return true
		}
		if w := g.Run(sc).ReachesAvoiding(func(m *core.Node) bool { return m == hd }, isAction); w != nil {
			ob.Fail(g.Where(action), what+": an iteration can reach the next one without performing the action")
			return false
		}
		return true
	}
	sc := assume
	sc.Start, sc.AtEntry = test, false
	if _, isExtract := test.Instr.(*ssa.Extract); isExtract || test.Instr != nil {
		sc.Result = core.BoolAV(enter)
	}
	res := g.Run(sc)
	if w := res.ReachesAvoiding(func(m *core.Node) bool { return m == test }, isAction); w != nil {
		ob.Fail(g.Where(action), what+": an iteration can reach the next one without performing the action")
		return false
	}
	return true
}

// ensureBeforeRename (C01.R5, shared as C09.R2): the existence test over ALL declared outputs has completed on every
// path before the FIRST rename: finalisation is all-or-nothing with respect to a missing output ("check each, rename
// each" publishes the outputs that precede the missing one before the task fails).
func (e *Env) ensureBeforeRename(rule, key string) {
	sp := e.spine()
	if sp == nil {
		return
	}
	g := sp.g
	ob := e.R.Ob(rule, key, "the existence test over all declared outputs has completed on every path before the first rename (no output of a task with a missing output is published)")
	ensureExit := map[*core.Node]bool{}
	for _, s := range sp.ensureStat {
		ex, _ := loopExitNodes(g, s)
		for _, x := range ex {
			ensureExit[x] = true
		}
	}
	must := g.Forward(func(n *core.Node) core.Transfer {
		if ensureExit[n] {
			return core.Transfer{Gen: 1}
		}
		return core.Transfer{}
	}, true)
	renames := append(append([]*core.Node{}, sp.declRename...), sp.extraRename...)
	for _, n := range renames {
		ob.Check(must[n]&1 != 0, g.Where(n), "ensure loop completed before rename", "a path reaches os.Rename without the completed existence test: outputs that are checked (and renamed) before a missing one are already at their final paths when the task fails")
	}
	if len(renames) == 0 || len(sp.ensureStat) == 0 {
		ob.Unknown("-", "existence test or rename not found in Execute's call tree")
	}
}

// auditBeforeRename (C03.R3 = C11.R4, shared as C10.R7): for every output that is going to be renamed the audit record
// is on disk next to the final path before the first rename.
func (e *Env) auditBeforeRename(rule, key string) {
	sp := e.spine()
	if sp == nil {
		return
	}
	g := sp.g
	ob := e.R.Ob(rule, key, "the audit record of every output is written next to its final path before the first output is renamed: a finalised output is never without its record, whenever the run dies")
	auditExit := map[*core.Node]bool{}
	for _, s := range sp.auditWrite {
		top := s
		for top.Ctx.Parent != nil && top.Ctx.CallNode != nil && core.InnermostLoop(top.Instr) == nil {
			top = top.Ctx.CallNode
		}
		ex, _ := loopExitNodes(g, top)
		for _, x := range ex {
			auditExit[x] = true
		}
	}
	must := g.Forward(func(n *core.Node) core.Transfer {
		if auditExit[n] {
			return core.Transfer{Gen: 1}
		}
		return core.Transfer{}
	}, true)
	for _, n := range append(append([]*core.Node{}, sp.declRename...), sp.extraRename...) {
		ob.Check(must[n]&1 != 0, g.Where(n), "audit written for all outputs first", "a path reaches os.Rename before the audit records are on disk: a death in between leaves a final output without record, which a later run adopts as finished")
	}
	if len(sp.auditWrite) == 0 || len(sp.declRename) == 0 {
		ob.Unknown("-", "audit write or rename not found in Execute's call tree")
		return
	}
	isAW := nodeSet(sp.auditWrite)
	for _, s := range sp.auditWrite {
		if !e.forAllOutputs(ob, g, s, func(m *core.Node) bool { return isAW[m] }, core.Scenario{FieldLoad: e.assumeStream(false)}, "writing the audit record next to the final path") {
			break
		}
	}
}
