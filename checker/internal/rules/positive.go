package rules

import (
	"fmt"
	"go/token"
	"path/filepath"

	"golang.org/x/tools/go/ssa"

	"scicheck/internal/core"
)

// Positive controls: the detectors behind zero-expected rules are run on testdata/positive, where each
// of them must find its construct.  A silent detector is an infrastructure failure.

func findRecover(fns []*ssa.Function) []ssa.Instruction {
	var out []ssa.Instruction
	for _, fn := range fns {
		for _, b := range fn.Blocks {
			for _, in := range b.Instrs {
				if c, ok := in.(ssa.CallInstruction); ok {
					if bi, ok := c.Common().Value.(*ssa.Builtin); ok && bi.Name() == "recover" {
						out = append(out, in)
					}
				}
			}
		}
	}
	return out
}

func findCutsetTrim(fns []*ssa.Function) []ssa.Instruction {
	var out []ssa.Instruction
	for _, f := range fns {
		for _, b := range f.Blocks {
			for _, in := range b.Instrs {
				c, ok := in.(*ssa.Call)
				if !ok || c.Call.StaticCallee() == nil {
					continue
				}
				switch c.Call.StaticCallee().String() {
				case "strings.Trim", "strings.TrimLeft", "strings.TrimRight":
					if _, isConst := c.Call.Args[1].(*ssa.Const); !isConst {
						out = append(out, in)
					}
				}
			}
		}
	}
	return out
}

func findGoOrSelect(fns []*ssa.Function) []ssa.Instruction {
	var out []ssa.Instruction
	for _, f := range fns {
		for _, b := range f.Blocks {
			for _, in := range b.Instrs {
				switch in.(type) {
				case *ssa.Go, *ssa.Select:
					out = append(out, in)
				}
			}
		}
	}
	return out
}

func findChanClose(fns []*ssa.Function) []ssa.Instruction {
	var out []ssa.Instruction
	for _, f := range fns {
		for _, b := range f.Blocks {
			for _, in := range b.Instrs {
				if c, ok := in.(*ssa.Call); ok {
					if bi, ok := c.Call.Value.(*ssa.Builtin); ok && bi.Name() == "close" {
						if u, ok := c.Call.Args[0].(*ssa.UnOp); ok && u.Op == token.MUL {
							if _, ok := u.X.(*ssa.FieldAddr); ok {
								out = append(out, in)
							}
						}
					}
				}
			}
		}
	}
	return out
}

// positiveControls runs the named detectors on the positive-control package.
func (e *Env) positiveControls(which ...string) {
	dir := filepath.Join(e.Verif, "checker", "testdata", "positive")
	pp, err := core.LoadPlain(dir)
	if err != nil {
		e.R.Infra = append(e.R.Infra, "positive-control package does not load: "+err.Error())
		return
	}
	var fns []*ssa.Function
	fns = append(fns, pp.LibFuncs...)
	det := map[string]func([]*ssa.Function) []ssa.Instruction{
		"recover": findRecover, "cutset-trim": findCutsetTrim, "go-or-select": findGoOrSelect, "chan-close": findChanClose,
	}
	res := map[string]int{}
	for _, w := range which {
		n := len(det[w](fns))
		res[w] = n
		if n == 0 {
			e.R.Infra = append(e.R.Infra, fmt.Sprintf("positive control silent: detector %q found nothing in testdata/positive (a zero-expected rule would pass vacuously)", w))
		}
	}
	e.R.Analysed["positive_controls"] = res
}
