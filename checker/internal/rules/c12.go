package rules

import (
	"fmt"
	"go/types"
	"sort"
	"strings"

	"golang.org/x/tools/go/ssa"

	"scicheck/internal/core"
)

func init() { Registry["C12"] = c12 }

// runPhaseFuncs: functions that can execute concurrently with other library goroutines while a workflow
// runs: the call-graph closure of every `go` target in the library and of every WorkflowProcess.Run.
func (e *Env) runPhaseFuncs() (set map[*ssa.Function]bool, roots []string) {
	p := e.P
	var rs []*ssa.Function
	for _, fn := range p.LibFuncs {
		for _, b := range fn.Blocks {
			for _, in := range b.Instrs {
				gi, ok := in.(*ssa.Go)
				if !ok {
					continue
				}
				for _, c := range p.CalleesOf(gi) {
					if p.IsLib(c) {
						rs = append(rs, c)
						roots = append(roots, core.FuncName(fn)+"→go "+core.FuncName(c))
					}
				}
			}
		}
	}
	for nm, run := range e.processTypes() {
		rs = append(rs, run)
		roots = append(roots, nm+".Run")
	}
	sort.Strings(roots)
	all := p.Reachable(rs...)
	set = map[*ssa.Function]bool{}
	for f := range all {
		if p.IsLib(f) {
			set[f] = true
		}
	}
	return set, roots
}

type fieldWrite struct {
	fn    *ssa.Function
	in    ssa.Instruction
	kind  string // store mapupdate delete
	owner string // Type.field
}

// fieldWrites lists every write to a field of a library struct type: stores, and updates/deletes of a map loaded from the field.
func (e *Env) fieldWrites() []fieldWrite {
	p := e.P
	var out []fieldWrite
	name := func(fa *ssa.FieldAddr) string {
		return typeNameOf(fa.X.Type()) + "." + fieldOfAddr(fa).Name()
	}
	for _, fn := range p.LibFuncs {
		for _, b := range fn.Blocks {
			for _, in := range b.Instrs {
				switch x := in.(type) {
				case *ssa.Store:
					if fa, ok := x.Addr.(*ssa.FieldAddr); ok {
						out = append(out, fieldWrite{fn, in, "store", name(fa)})
					}
				case *ssa.MapUpdate:
					if u, ok := x.Map.(*ssa.UnOp); ok {
						if fa, ok := u.X.(*ssa.FieldAddr); ok {
							out = append(out, fieldWrite{fn, in, "mapupdate", name(fa)})
						}
					}
				case *ssa.Call:
					if bi, ok := x.Call.Value.(*ssa.Builtin); ok && bi.Name() == "delete" {
						if u, ok := x.Call.Args[0].(*ssa.UnOp); ok {
							if fa, ok := u.X.(*ssa.FieldAddr); ok {
								out = append(out, fieldWrite{fn, in, "delete", name(fa)})
							}
						}
					}
				}
			}
		}
	}
	return out
}

func c12(e *Env) {
	r := e.R
	r.Explanation = "RacerD-style field-based inventory, judged by an explicit, reasoned table (instance-insensitivity is resolved by the table, not guessed): (R1) guarded: the audit-record cache of an IP (BaseIP.auditInfo) is read and written only with the IP lock held; delete/len/close on an in-port's RemotePorts/Chan hold the port's closeLock; slot-channel sends hold the slot mutex; (R2) constructor-confined: Task fields are stored only in NewTask (before the task is published on the feed channel); FileIP.path/doStream/SubStream are stored only in the IP's constructor, NewTask or - for SubStream - before the carrier's single send; (R3) wiring-confined: readiness flags, owning-process links, PortInfo, Process.PathFuncs/PortInfo and Workflow.procs/driver/sink are never written from the run phase (the call-graph closure of every go target and every Run implementation), initialisation of a freshly constructed object excepted; the BaseProcess port maps and OutPort.RemotePorts are owner-confined (touched in the run phase only by the owning process's own goroutine, e.g. lazily initialising accessors and Close) and are deliberately not in the table; (R4) ownership transfer: after a component sends an IP on an out-port it does not touch that IP's audit record again in the same iteration; (R5) received IPs are immutable: no process mutates the audit record / tags of an IP it received from an in-port (the same *FileIP is delivered to every consumer of a fanned-out port); (R6) no goroutine is started in the wiring phase (before Run), where the unlocked wiring accessors of the ports are still in use; (R7) package-level variables used by the run phase are not written there and are of a kind that is safe for concurrent use (loggers, compiled regular expressions, read-only tables)."
	r.NotDecided = "races inside user-supplied functions and custom processes; anything the field-based abstraction cannot separate is resolved conservatively through the table. The Go race detector's happens-before is not modelled; this is a lockset/ownership discipline, i.e. sufficient-condition style for the listed fields only."
	a := e.anchors()
	if !a.ok() {
		return
	}
	p := e.P
	run, roots := e.runPhaseFuncs()
	r.Analysed["goroutine_roots"] = roots
	r.Analysed["run_phase_functions"] = len(run)
	// ---- R1 guarded
	obA := r.Ob("R1", "BaseIP.auditInfo:guarded-by-IP-lock", "every read and write of an IP's cached audit record holds the IP lock")
	cache := e.auditCacheField()
	nAcc := 0
	// entry points: a function that touches the cache is judged in its own right when it is exported (or has no
	// caller); a private one is judged in the context of every exported entry point that reaches it through
	// private functions only ("the caller must hold the lock" helpers)
	touchers := map[*ssa.Function]bool{}
	for _, fn := range p.LibFuncs {
		for _, b := range fn.Blocks {
			for _, in := range b.Instrs {
				if fa, ok := in.(*ssa.FieldAddr); ok && fieldOfAddr(fa) == cache && cache != nil {
					touchers[fn] = true
				}
			}
		}
	}
	rootSet := map[*ssa.Function]bool{}
	seenUp := map[*ssa.Function]bool{}
	var up func(fn *ssa.Function)
	up = func(fn *ssa.Function) {
		if seenUp[fn] {
			return
		}
		seenUp[fn] = true
		callers := p.Callers(fn)
		if (fn.Object() != nil && fn.Object().Exported()) || len(callers) == 0 || fn.Parent() != nil {
			rootSet[fn] = true
			return
		}
		for _, c := range callers {
			if p.IsLib(c) {
				up(c)
			}
		}
	}
	for fn := range touchers {
		up(fn)
	}
	var rootsR1 []*ssa.Function
	for _, fn := range p.LibFuncs {
		if rootSet[fn] {
			rootsR1 = append(rootsR1, fn)
		}
	}
	for _, fn := range rootsR1 {
		g := e.XG(fn)
		if g == nil {
			continue
		}
		li := e.locksets(g)
		for _, n := range g.Nodes {
			if n.Ctx != g.Root && (!touchers[n.Ctx.Fn] || (n.Ctx.Fn.Object() != nil && n.Ctx.Fn.Object().Exported())) {
				continue // an exported callee is judged as its own entry point
			}
			isAcc := false
			switch x := n.Instr.(type) {
			case *ssa.Store:
				if fa, ok := x.Addr.(*ssa.FieldAddr); ok && fieldOfAddr(fa) == cache {
					isAcc = true
				}
			case *ssa.UnOp:
				if fieldOfLoad(x) == cache {
					isAcc = true
				}
			}
			if !isAcc {
				continue
			}
			nAcc++
			held := li.held(li.must[n])
			ok := false
			for _, h := range held {
				if strings.HasSuffix(h, "."+e.ipLockName()) {
					ok = true
				}
			}
			// composite-literal initialisation of a fresh object needs no lock
			if _, isStore := n.Instr.(*ssa.Store); isStore && freshBase(n.Instr.(*ssa.Store).Addr) {
				ok = true
			}
			obA.Check(ok, g.Where(n), core.FuncName(fn)+": lock held", "access to the audit-record cache in "+core.FuncName(fn)+" without the IP lock (must-held lockset {"+strings.Join(held, ",")+"})")
		}
	}
	if nAcc == 0 {
		obA.Unknown("-", "no access to BaseIP.auditInfo found")
	}
	for _, typ := range []string{"InPort", "InParamPort"} {
		e.c04CloseConnectionAs("R1", typ)
	}
	obS := r.Ob("R1", "slot-channel:guarded-by-slot-mutex", "every send on the slot channel holds the slot mutex")
	for _, fn := range a.acquire {
		g := e.XG(fn)
		if g == nil {
			continue
		}
		li := e.locksets(g)
		for _, n := range g.Select(a.isSlotSend) {
			held := li.held(li.must[n])
			ok := false
			for _, h := range held {
				if strings.HasSuffix(h, "."+a.slotMutex.Name()) {
					ok = true
				}
			}
			obS.Check(ok, g.Where(n), "slot mutex held", "slot send without the slot mutex")
		}
	}
	// ---- R2 / R3 tables
	writes := e.fieldWrites()
	type rule struct {
		field   string
		policy  string // ctor: allowed functions ; wiring: not in run phase
		allowed []string
		why     string
	}
	table := []rule{
		{"Task.*", "ctor", []string{"NewTask"}, "a task is published on the feed channel after NewTask returned"},
		{"FileIP.doStream", "ctor", []string{"NewTask", "NewFileIP"}, "set on the fresh out-IP before the task is published"},
		{"FileIP.SubStream", "ctor", []string{"NewFileIP", "(*components.StreamToSubStream).Run"}, "assigned on the fresh carrier before its single send (C18.R4)"},
		{"BaseIP.path", "ctor", []string{"NewBaseIP"}, "immutable after construction"},
		{"BaseIP.id", "ctor", []string{"NewBaseIP"}, "immutable after construction"},
		{"FileIP." + e.ipLockName(), "ctor", []string{"NewFileIP"}, "immutable after construction"},
		{"FileIP.BaseIP", "ctor", []string{"NewFileIP"}, "immutable after construction"},
		{"PortInfo.*", "wiring", nil, "filled by initPortsFromCmdPattern while the process is built"},
		{"Workflow.procs", "wiring", nil, "process registration happens before Run"},
		{"Workflow.driver", "wiring", nil, "chosen by reconnectDeadEndConnections in the main goroutine before any process starts"},
		{"Workflow.sink", "wiring", nil, ""},
		{"InPort.ready", "wiring", nil, ""}, {"OutPort.ready", "wiring", nil, ""}, {"InParamPort.ready", "wiring", nil, ""}, {"OutParamPort.ready", "wiring", nil, ""},
		{"InPort.process", "wiring", nil, ""}, {"OutPort.process", "wiring", nil, ""}, {"InParamPort.process", "wiring", nil, ""}, {"OutParamPort.process", "wiring", nil, ""},
		{"Process.PathFuncs", "wiring", nil, ""}, {"Process.PortInfo", "wiring", nil, ""},
	}
	match := func(field, pat string) bool {
		if strings.HasSuffix(pat, ".*") {
			return strings.HasPrefix(field, pat[:len(pat)-1])
		}
		return field == pat
	}
	for _, rl := range table {
		rid := "R2"
		if rl.policy == "wiring" {
			rid = "R3"
		}
		ob := r.Ob(rid, rl.field+":"+rl.policy+"-confined", map[string]string{
			"ctor":   "the field is written only in its constructor(s) " + strings.Join(rl.allowed, ", ") + " - before the object is published to another goroutine",
			"wiring": "the field is never written from the run phase (no write reachable from a goroutine root or a Run implementation)",
		}[rl.policy])
		n := 0
		for _, w := range writes {
			if !match(w.owner, rl.field) {
				continue
			}
			n++
			top := w.fn
			for top.Parent() != nil {
				top = top.Parent()
			}
			switch rl.policy {
			case "ctor":
				ok := false
				for _, al := range rl.allowed {
					if core.FuncName(w.fn) == al || core.FuncName(top) == al {
						ok = true
					}
					// a private helper that is only ever called from the constructor's call tree is part of it
					if ctor := e.funcByName(al); ctor != nil && !ok {
						tree := e.P.Reachable(ctor)
						if tree[w.fn] {
							only := true
							for _, c := range e.P.Callers(w.fn) {
								if e.P.IsLib(c) && !tree[c] && c != ctor && c.Synthetic == "" {
									only = false
								}
							}
							if only && (!run[w.fn] || al == "NewTask" || run[ctor]) {
								ok = true // (a run-phase "constructor", e.g. a component's Run that builds the object, may be split into helpers)
							}
						}
					}
				}
				if st, isStore := w.in.(*ssa.Store); isStore && freshBase(st.Addr) {
					ok = true // composite literal of a fresh object
				}
				ob.Check(ok, e.where(w.in), "", w.kind+" of "+w.owner+" in "+core.FuncName(w.fn)+": outside its constructor, i.e. possibly after the object was published to other goroutines")
			case "wiring":
				if st, isStore := w.in.(*ssa.Store); isStore && freshBase(st.Addr) {
					ob.OK(e.where(w.in), "")
					continue // initialisation of a freshly constructed object
				}
				ob.Check(!run[w.fn], e.where(w.in), "", w.kind+" of "+w.owner+" in "+core.FuncName(w.fn)+", which is reachable from the run phase ("+e.runRootOf(w.fn)+"): concurrent with the unlocked readers of the wiring data")
			}
		}
		if n == 0 && !strings.Contains(rl.field, "sink") {
			ob.OK("-", "no write site at all")
		} else if ob.Status == core.Discharged || ob.Sites == 0 {
			ob.OK("-", fmt.Sprintf("%d write sites examined", n))
		}
	}
	// ---- R4 / R5 ownership of IPs
	e.c12Ownership()
	// ---- R6 no go in the wiring phase
	ob6 := r.Ob("R6", "wiring-phase:no-go", "no goroutine is started by a wiring-phase function (a function that is not itself reachable from Run): goroutines start only once the workflow runs")
	nGo := 0
	startSet := p.Reachable(p.DeclaredMethod("scipipe", "Workflow", "Run"), p.DeclaredMethod("scipipe", "Workflow", "RunToProcs"))
	for _, fn := range p.LibFuncs {
		for _, b := range fn.Blocks {
			for _, in := range b.Instrs {
				gi, ok := in.(*ssa.Go)
				if !ok {
					continue
				}
				nGo++
				top := fn
				for top.Parent() != nil {
					top = top.Parent()
				}
				if run[fn] || startSet[fn] || startSet[top] {
					continue // run phase, or the start-up code of Workflow.Run / RunTo* itself
				}
				// wiring-phase function starting a goroutine
				o := ob6
				if core.FuncName(top) == "(*InParamPort).FromStr" {
					o = r.Ob("R6", "(*InParamPort).FromStr:go", "no goroutine is started in the wiring phase")
				}
				o.Fail(e.where(gi), core.FuncName(fn)+" starts a goroutine while the workflow is still being wired: its locked writes to the port's RemotePorts (delete in CloseConnection) race with the unlocked wiring-phase accesses of the same map (AddRemotePort, the RunTo upstream traversal)")
			}
		}
	}
	ob6.OK("-", fmt.Sprintf("%d go statements in the library examined", nGo))
	// ---- R7 package-level state shared by all goroutines
	e.c12Globals(run)
}

// concurrencySafeGlobal: types whose values may be used (not reassigned) by several goroutines at once - by
// their documentation or because using them is a read. Anything else that the run phase touches is reported.
func concurrencySafeGlobal(t types.Type) (bool, string) {
	switch s := t.String(); s {
	case "*log.Logger", "*regexp.Regexp", "*strings.Replacer", "*text/template.Template", "*html/template.Template",
		"sync.Mutex", "sync.RWMutex", "sync.Once", "sync.WaitGroup", "sync.Pool", "sync.Map", "*sync.Mutex", "*sync.RWMutex", "*sync.Pool", "*sync.Map":
		return true, s + " is documented as safe for concurrent use"
	}
	switch u := t.Underlying().(type) {
	case *types.Basic:
		return true, "a value that is only read"
	case *types.Slice, *types.Array, *types.Map:
		return true, "a table that is only read (writes are checked separately)"
	case *types.Signature:
		return true, "a function value that is only read"
	case *types.Struct:
		for i := 0; i < u.NumFields(); i++ {
			if ok, _ := concurrencySafeGlobal(u.Field(i).Type()); !ok {
				return false, ""
			}
		}
		return true, "a struct of read-only values"
	}
	return false, ""
}

// c12Globals (R7): a package-level variable of the library that the run phase uses is shared by every process
// and task goroutine without any lock: it must not be written there, and what is done with it must be safe for
// concurrent use (e.g. one shared *rand.Rand is not).
func (e *Env) c12Globals(run map[*ssa.Function]bool) {
	r := e.R
	p := e.P
	type use struct {
		write bool
		where string
	}
	uses := map[*ssa.Global][]use{}
	isLibGlobal := func(v ssa.Value) *ssa.Global {
		g, ok := v.(*ssa.Global)
		if !ok || g.Pkg == nil {
			return nil
		}
		for _, lp := range core.LibPkgs[:2] {
			if g.Pkg.Pkg.Path() == lp {
				return g
			}
		}
		return nil
	}
	var fns []*ssa.Function
	for _, fn := range p.LibFuncs {
		if run[fn] && fn.Name() != "init" {
			fns = append(fns, fn)
		}
	}
	for _, fn := range fns {
		for _, b := range fn.Blocks {
			for _, in := range b.Instrs {
				// direct store, or store / update through an element or field address of the global
				var target ssa.Value
				switch x := in.(type) {
				case *ssa.Store:
					target = x.Addr
				case *ssa.MapUpdate:
					if u, ok := x.Map.(*ssa.UnOp); ok {
						target = u.X
					}
				}
				for target != nil {
					if g := isLibGlobal(target); g != nil {
						uses[g] = append(uses[g], use{true, e.where(in)})
						break
					}
					switch a := target.(type) {
					case *ssa.IndexAddr:
						target = a.X
					case *ssa.FieldAddr:
						target = a.X
					case *ssa.UnOp:
						target = a.X
					default:
						target = nil
					}
				}
				for _, op := range in.Operands(nil) {
					if *op == nil {
						continue
					}
					if g := isLibGlobal(*op); g != nil {
						uses[g] = append(uses[g], use{false, e.where(in)})
					}
				}
			}
		}
	}
	var gs []*ssa.Global
	for g := range uses {
		gs = append(gs, g)
	}
	sort.Slice(gs, func(i, j int) bool { return gs[i].String() < gs[j].String() })
	ob := r.Ob("R7", "package-state:run-phase", "package-level variables used by the run phase (shared by all process and task goroutines, no lock) are not written there and are of a kind that is safe for concurrent use")
	for _, g := range gs {
		t := g.Type().(*types.Pointer).Elem()
		wr := ""
		for _, u := range uses[g] {
			if u.write {
				wr = u.where
			}
		}
		okT, why := concurrencySafeGlobal(t)
		switch {
		case wr != "":
			ob.Fail(wr, "package-level variable "+g.Name()+" is written in the run phase, where every process and task goroutine may execute this code concurrently, without a lock")
		case !okT:
			ob.Fail(uses[g][0].where, "package-level variable "+g.Name()+" ("+t.String()+") is used by the run phase, i.e. concurrently by every process and task goroutine, and its type is not known to be safe for concurrent use (e.g. a shared *rand.Rand is not): guard it or keep it per call")
		default:
			ob.OK(uses[g][0].where, g.Name()+": "+why)
		}
	}
	if len(gs) == 0 {
		ob.OK("-", "the run phase uses no package-level variable")
	}
	r.Analysed["run_phase_globals"] = len(gs)
}

// freshBase: the address is a field of an object allocated in the same function (composite literal / new).
func freshBase(addr ssa.Value) bool {
	fa, ok := addr.(*ssa.FieldAddr)
	if !ok {
		return false
	}
	switch b := fa.X.(type) {
	case *ssa.Alloc:
		return true
	case *ssa.FieldAddr:
		return freshBase(b)
	case *ssa.Call:
		// the object was just returned by a constructor (New*) called in this function
		if f := b.Call.StaticCallee(); f != nil && strings.HasPrefix(f.Name(), "New") {
			return true
		}
	}
	return false
}

func (e *Env) runRootOf(fn *ssa.Function) string {
	// a short explanation: which Run / go target reaches fn
	p := e.P
	for nm, run := range e.processTypes() {
		if p.Reachable(run)[fn] {
			return "reached from " + nm + ".Run"
		}
	}
	return "reached from a go target"
}

// c04CloseConnectionAs re-evaluates the closeLock obligation of C04.R2 under another rule id.
func (e *Env) c04CloseConnectionAs(rule, typ string) {
	r := e.R
	fn := e.P.DeclaredMethod("scipipe", typ, "CloseConnection")
	ob := r.Ob(rule, typ+".RemotePorts/Chan:guarded-by-closeLock", "delete, emptiness test and close in CloseConnection hold the port's closeLock")
	if fn == nil {
		ob.Unknown("-", "not found")
		return
	}
	g := e.XG(fn)
	if g == nil {
		return
	}
	li := e.locksets(g)
	n0 := 0
	for _, n := range g.Nodes {
		isMapRead := false
		switch x := n.Instr.(type) {
		case *ssa.Lookup:
			if f := fieldOfLoad(x.X); f != nil && f.Name() == "RemotePorts" {
				isMapRead = true // `_, ok := pt.RemotePorts[name]`: a read of the map another closer deletes from
			}
		case *ssa.Range:
			if f := fieldOfLoad(x.X); f != nil && f.Name() == "RemotePorts" {
				isMapRead = true
			}
		}
		if !(n.IsBuiltin("delete") || n.IsBuiltin("len") || n.IsBuiltin("close") || isMapRead) || n.Kind == core.KAfter {
			continue
		}
		n0++
		held := li.held(li.must[n])
		ok := false
		for _, h := range held {
			// a mutex that is a field of the port itself (the receiver) - whatever it is called
			if len(fn.Params) > 0 && strings.Contains(h, "$"+core.ParamName(fn.Params[0])+".") {
				ok = true
			}
		}
		ob.Check(ok, g.Where(n), "closeLock held", nodeDesc(n)+" without closeLock (must-held {"+strings.Join(held, ",")+"}): two upstream goroutines closing into the same in-port write the map concurrently and may both close the channel")
	}
	if n0 == 0 {
		ob.Fail(core.FuncName(fn), "no delete/len/close found")
	}
}

// auditTouching: FileIP methods that read or write the audit record / tags.
var auditTouching = map[string]string{
	"(*FileIP).AuditInfo": "r", "(*FileIP).Tags": "r", "(*FileIP).Tag": "r", "(*FileIP).Param": "r", "(*FileIP).WriteAuditLogToFile": "r",
	"(*FileIP).AddTag": "w", "(*FileIP).AddTags": "w", "(*FileIP).SetAuditInfo": "w",
}

func (e *Env) c12Ownership() {
	r := e.R
	pts := e.processTypes()
	var names []string
	for k := range pts {
		names = append(names, k)
	}
	sort.Strings(names)
	sy := e.symbolizer()
	ob4 := r.Ob("R4", "components:no-touch-after-send", "after an IP was sent on an out-port the sending component does not read or write that IP's audit record in the same iteration (ownership passed to the consumers)")
	ob5 := r.Ob("R5", "components:received-IP-immutable", "no process mutates the audit record / tags of an IP it received from an in-port (every consumer of a fanned-out port holds the same *FileIP)")
	n4, n5 := 0, 0
	for _, nm := range names {
		run := pts[nm]
		g := e.XG(run)
		if g == nil {
			continue
		}
		// R4: for each send node, later audit-touching calls on the same IP value within the iteration
		for _, sn := range g.Nodes {
			if _, ok := isPortSend(sn); !ok || sn.Kind == core.KAfter || sn.Ctx != g.Root {
				continue
			}
			ipv := sn.Call.Args[1]
			n4++
			// stay within the iteration: stop at the first node of the enclosing loop's header block
			var hdr *ssa.BasicBlock
			if l := core.InnermostLoop(sn.Instr); l != nil {
				hdr = l.Header
			}
			reach := g.ReachableFrom(sn, func(m *core.Node) bool {
				return hdr != nil && m.Ctx == sn.Ctx && m.First && m.Instr != nil && m.Instr.Block() == hdr
			})
			bad := ""
			for m := range reach {
				if m == sn || m.Ctx != g.Root || m.Callee == nil || m.Kind == core.KAfter {
					continue
				}
				if _, t := auditTouching[core.FuncName(m.Callee)]; t && len(m.Call.Args) > 0 && m.Call.Args[0] == ipv {
					// must really be after the send: not reachable only via the loop back edge (excluded by stop at head)
					bad = core.FuncName(m.Callee) + " at " + g.Where(m)
				}
			}
			if bad != "" {
				o := ob4
				o.Fail(g.Where(sn), nm+".Run still calls "+bad+" on the IP after sending it: the consumers already own it (a consumer's AddTag races with this access)")
			}
		}
		// R5: mutation of received IPs
		for _, m := range g.Nodes {
			if m.Callee == nil || m.Kind == core.KAfter || m.Ctx != g.Root || m.Call == nil || len(m.Call.Args) == 0 {
				continue
			}
			if auditTouching[core.FuncName(m.Callee)] != "w" {
				continue
			}
			n5++
			recv := sy.InCtx(m.Ctx, m.Call.Args[0]).String()
			fromPort := strings.HasPrefix(recv, "recv(") && strings.Contains(recv, ".Chan") && !strings.Contains(recv, "NewFileIP")
			if fromPort {
				key := nm + ".Run:" + m.Callee.Name() + "(received IP)"
				r.Ob("R5", key, "no process mutates the audit record / tags of an IP it received").Fail(g.Where(m), nm+".Run calls "+core.FuncName(m.Callee)+" on "+trunc(recv, 80)+", an IP received from an in-port: the same *FileIP (and its AuditInfo, shared by all outputs of the producing task and embedded in downstream records) is concurrently read by sibling consumers (FileIP.Tags in task creation, json.MarshalIndent in WriteAuditLogToFile) without a common lock")
			}
		}
	}
	ob4.OK("-", fmt.Sprintf("%d sends in %d Run implementations examined", n4, len(names)))
	ob5.OK("-", fmt.Sprintf("%d mutating calls examined", n5))
}

var _ = types.Typ

// funcByName resolves the short names used in the confinement table.
func (e *Env) funcByName(name string) *ssa.Function {
	for _, fn := range e.P.LibFuncs {
		if core.FuncName(fn) == name {
			return fn
		}
	}
	return nil
}
