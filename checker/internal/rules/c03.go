package rules

import (
	"golang.org/x/tools/go/ssa"

	"scicheck/internal/core"
)

func init() { Registry["C03"] = c03 }

func c03(e *Env) {
	r := e.R
	r.Explanation = "Structural necessary conditions of crash/restart convergence, decided for every path (= every crash point) of Task.Execute and Process.Run: (R1) scenario 'the leftover test found the task's temp dir' ⇒ a never-returning call is inevitable and no acquire/mkdir/command/rename is reachable; the leftover test precedes the skip test and any Done signal (leftovers are refused, not adopted, even when outputs exist); (R2) bracket: the temp dir is created before every other file-system effect of Execute and nothing is written or renamed after its removal, so any crash between the first and the last effect leaves the temp dir, which R1 turns into a refusal; (R3) the audit record of every output is written before the first rename, so whatever a restart finds finalised has its provenance; (R4) Process.Run: an existing FIFO ⇒ exit before CreateFifo and before the task goroutine starts; (R5) shared: finished tasks are skipped (C02.R2); (R7) shared with C17.R6: a task that the re-run skips still opens and drains the pipes of its streaming inputs, concurrently and until the producing process has removed them, so the re-run of a workflow with streaming connections completes; (R6) contradiction rule: one missing declared output must not be treated as 'task complete' (skip predicate vs one independent rename per output)."
	r.NotDecided = "equality of file contents with an uninterrupted run (needs deterministic commands), crashes inside the OS calls themselves, convergence as a whole (a history property)."
	a := e.anchors()
	if !a.ok() {
		return
	}
	sp := e.spine()
	if sp == nil {
		return
	}
	g := sp.g
	// ---- R1
	ob1 := r.Ob("R1", "leftover:exists⇒exit", "an existing temp dir of the task makes a never-returning call inevitable before any effect")
	effect := func(n *core.Node) bool { return a.isAcquire(n) || a.isRun(n) || isFSEffect(n) || a.isDoneSend(n) }
	for _, n := range sp.leftover {
		res := g.Run(core.Scenario{Start: n, Result: errResult(n, core.ErrAny, true)})
		if w := res.NormalReturn(); w != nil {
			ob1.Fail(g.Where(n), "with the temp dir already present Execute can return normally (leftovers are adopted or ignored)")
		} else if w := res.Reaches(effect); w != nil {
			ob1.Fail(g.Where(n), "with the temp dir already present "+nodeDesc(w)+" is still reachable at "+g.Where(w))
		} else {
			ob1.OK(g.Where(n), "temp dir exists ⇒ exit")
		}
	}
	if len(sp.leftover) == 0 {
		ob1.Unknown(core.FuncName(a.execute), "no os.Stat of Task.TempDir in Execute's call tree: leftovers of a crashed run are never detected")
	}
	const (
		evLeft core.Bits = 1 << iota
		evMkTemp
		evRmTemp
		evAuditDone
	)
	isLeft, isMk, isRm := nodeSet(sp.leftover), nodeSet(sp.mkTemp), nodeSet(sp.rmTemp)
	auditExit := map[*core.Node]bool{}
	for _, s := range sp.auditWrite {
		// the loop over the outputs that contains the call chain down to the write: use the outermost context below Execute
		top := s
		for top.Ctx.Parent != nil && top.Ctx.CallNode != nil && core.InnermostLoop(top.Instr) == nil {
			top = top.Ctx.CallNode
		}
		ex, _ := loopExitNodes(g, top)
		for _, x := range ex {
			auditExit[x] = true
		}
	}
	tf := func(n *core.Node) core.Transfer {
		var b core.Bits
		if isLeft[n] {
			b |= evLeft
		}
		if isMk[n] {
			b |= evMkTemp
		}
		if isRm[n] {
			b |= evRmTemp
		}
		if auditExit[n] {
			b |= evAuditDone
		}
		return core.Transfer{Gen: b}
	}
	must := g.Forward(tf, true)
	may := g.Forward(tf, false)
	ob1b := r.Ob("R1", "Execute:leftover≺skip", "the leftover test is made on every path before the skip test and before any Done signal")
	for _, n := range append(append([]*core.Node{}, sp.skipStat...), g.Select(a.isDoneSend)...) {
		ob1b.Check(must[n]&evLeft != 0, g.Where(n), "leftover test precedes", "a path reaches "+nodeDesc(n)+" without the leftover test: a task with existing outputs AND a leftover temp dir would be skipped instead of refused")
	}
	// ---- R2 bracket
	ob2a := r.Ob("R2", "Execute:mkTemp≺effects", "the temp dir is created before every other file-system effect of Execute")
	for _, n := range g.Select(isFSEffect) {
		if isMk[n] {
			continue
		}
		ob2a.Check(must[n]&evMkTemp != 0, g.Where(n), "", "a path reaches "+nodeDesc(n)+" before the temp dir exists: a crash right after it leaves no trace a restart would refuse")
	}
	ob2b := r.Ob("R2", "finalize:effects≺RemoveAll", "no rename, write or directory creation can follow the removal of the temp dir")
	for _, n := range g.Select(func(n *core.Node) bool { return isRename(n) || isWriteFile(n) || isMkdir(n) || isCreate(n) }) {
		ob2b.Check(may[n]&evRmTemp == 0, g.Where(n), "", nodeDesc(n)+" may execute after the temp dir was removed: a crash there leaves a half-finalised task that a restart cannot recognise")
	}
	if len(sp.rmTemp) == 0 {
		ob2b.Unknown("-", "no os.RemoveAll of the temp dir found")
	}
	// ---- R3 audit before rename
	ob3 := r.Ob("R3", "Execute:auditWrite≺rename", "the audit record has been written for every output before the first rename")
	for _, n := range append(append([]*core.Node{}, sp.declRename...), sp.extraRename...) {
		ob3.Check(must[n]&evAuditDone != 0, g.Where(n), "", "a path reaches os.Rename before the audit records of all outputs are on disk: a crash in between leaves a finalised output without provenance, which a restart then skips")
	}
	if len(sp.auditWrite) == 0 {
		ob3.Unknown("-", "no audit write found in Execute's call tree")
	}
	// ... and "written" means: at <final path>.audit.json, for every output that will be renamed (stream flag false) - an
	// audit file parked in the temp dir and moved later is finalised AFTER its output
	{
		isAW := nodeSet(sp.auditWrite)
		for _, s := range sp.auditWrite {
			if !e.forAllOutputs(ob3, g, s, func(m *core.Node) bool { return isAW[m] }, core.Scenario{FieldLoad: e.assumeStream(false)}, "writing the audit record next to the final path") {
				break
			}
		}
	}
	// ---- R4 FIFO leftovers in Process.Run
	e.fifoLeftoverRule("R4")
	// ---- R7 shared with C17.R6: the re-run completes also past streaming connections (a skipped consumer drains its pipes)
	e.c17DrainOnSkip("R7")
	// ---- R6 contradiction rule (finding K7)
	ob6 := r.Ob("R6", "Execute:skip-any×rename-each", "a task with one declared output missing is not treated as complete (the skip predicate must agree with one independent rename per output)")
	for _, n := range sp.skipStat {
		res := g.Run(core.Scenario{Start: n, Result: errResult(n, core.ErrNotExist, false), FieldLoad: e.assumeStream(false)})
		// is a normal return reachable that avoids the command (= the task is skipped)?
		if w := res.ReachesAvoiding(func(m *core.Node) bool { return m.Kind == core.KRootRet }, a.isRun); w != nil && len(sp.declRename) > 0 && core.InnermostLoop(sp.declRename[0].Instr) != nil {
			ob6.Fail(g.Where(n), "os.Stat of one output returned ENOENT, yet the task can still be skipped (another output exists), while finalisation renames outputs one by one: after a crash between two renames plus the documented clean-up the restart skips the task with an output missing")
		} else {
			ob6.OK(g.Where(n), "a missing output prevents skipping")
		}
	}
}

// fifoLeftoverRule: in Process.Run, scenario "a FIFO of a streaming output already exists" before the task is started.
func (e *Env) fifoLeftoverRule(rule string) {
	r := e.R
	a := e.anchors()
	ob := r.Ob(rule, "Process.Run:fifo-exists⇒exit", "an already existing FIFO of a streaming output makes exit inevitable before the FIFO is (re)created and before the task goroutine starts")
	g := e.XG(a.procRun)
	if g == nil {
		return
	}
	isGoExec := func(n *core.Node) bool { return n.IsGo && n.Callee == a.execute }
	isMkfifo := func(n *core.Node) bool {
		if !n.IsCallTo("os/exec.Command") {
			return false
		}
		s := e.argSym(n, len(n.Call.Args)-1)
		return s != nil && containsLit(s, "mkfifo")
	}
	n0 := 0
	for _, n := range g.Select(isStat) {
		s := e.argSym(n, 0)
		if !isCallSym(s, fnFifoPath) {
			continue
		}
		// only the test made before the task is started in this iteration
		reach := g.ReachableFrom(n, func(m *core.Node) bool { _, ok := m.Instr.(*ssa.Select); return ok })
		pre := false
		for m := range reach {
			if isGoExec(m) {
				pre = true
			}
		}
		if !pre {
			continue
		}
		// skip the stat inside CreateFifo itself (it is after the decision)
		if n.Ctx.Fn != nil && core.FuncName(n.Ctx.Fn) == "(*FileIP).CreateFifo" {
			continue
		}
		n0++
		res := g.Run(core.Scenario{Start: n, Result: errResult(n, core.ErrAny, true)})
		// within the same iteration: reachable without passing the select again
		bad := res.ReachesAvoiding(func(m *core.Node) bool { return isGoExec(m) || isMkfifo(m) }, func(m *core.Node) bool { _, ok := m.Instr.(*ssa.Select); return ok })
		if bad != nil {
			ob.Fail(g.Where(n), "with the FIFO already present "+nodeDesc(bad)+" is still reachable at "+g.Where(bad))
		} else {
			ob.OK(g.Where(n), "FIFO exists ⇒ exit before mkfifo / go Execute")
		}
	}
	if n0 == 0 {
		ob.Unknown(core.FuncName(a.procRun), "no existence test of FileIP.FifoPath before the task goroutine is started")
	}
}

func containsLit(s *core.Sym, sub string) bool {
	found := false
	s.Walk(func(z *core.Sym) bool {
		if z.Op == "lit" && len(z.Lit) >= len(sub) {
			for i := 0; i+len(sub) <= len(z.Lit); i++ {
				if z.Lit[i:i+len(sub)] == sub {
					found = true
				}
			}
		}
		return !found
	})
	return found
}
