package rules

import (
	"go/constant"
	"go/token"
	"go/types"
	"strings"

	"golang.org/x/tools/go/ssa"

	"scicheck/internal/core"
)

func init() { Registry["C18"] = c18 }

func c18(e *Env) {
	r := e.R
	r.Explanation = "Structural conditions for joined in-ports: (R1) NewTask drains the sub-stream channel of the carrier IP by a range to closure (loop not left early), appending every received IP, in order, to a slice that is fresh for each joined port (no slice shared between ports), and stores it under the port's name; (R2) the joined replacement in the command formatter is strings.Join over that slice in index order, each member being prefix(modifiers(Path(member))) - modifiers and the parent-dir prefix applied per member, not to the joined string - with the separator taken from the port's PortInfo, which is rooted in the capture group of the `join:(…)` pattern; (R3) the members enter the temp-dir identity and the audit Upstream (shared: C14.R1, C10.R1, re-evaluated here); (R4) StreamToSubStream assigns its in-port as the carrier's SubStream before its single send of the carrier."
	r.NotDecided = "that exactly one task runs per sub-stream under all timings of the upstream producers (needs the channel network's behaviour); content and existence of the member files."
	a := e.anchors()
	if !a.ok() {
		return
	}
	p := e.P
	sy := e.symbolizer()
	// ---- R1 drain in NewTask
	ob1 := r.Ob("R1", "NewTask:drain-sub-stream", "the carrier's SubStream channel is ranged to closure and every received IP is appended, in order, to a slice fresh for this port")
	fi0 := e.formatter()
	gt := fi0.g
	if gt == nil {
		ob1.Unknown("-", "NewTask's expanded CFG not available")
		return
	}
	xs := e.xsym()
	nStores := 0
	for _, mn := range gt.Nodes {
		mu, ok := mn.Instr.(*ssa.MapUpdate)
		if !ok {
			continue
		}
		// the per-port member table: a map[string][]*FileIP (the task's field, or a local map that is stored into it)
		if mt, ok := mu.Map.Type().Underlying().(*types.Map); !ok || !isFileIPSlice(mt.Elem()) {
			continue
		}
		nStores++
		v := xs.InCtx(mn.Ctx, mu.Value)
		k := xs.InCtx(mn.Ctx, mu.Key).String()
		alts := map[string]*core.Sym{}
		var collect func(z *core.Sym, d int)
		collect = func(z *core.Sym, d int) {
			if z.Op == "phi" && d < 5 {
				for _, x := range z.Args {
					collect(x, d+1)
				}
				return
			}
			alts[z.String()] = z
		}
		collect(v, 0)
		bad := ""
		hasAppendRecv := false
		for s, z := range alts {
			switch {
			case s == "[]" || s == "makeslice()" || s == "nil" || (strings.HasPrefix(s, "slice(") && strings.HasSuffix(s, ", 0)") && strings.Contains(s, "makeslice") && !strings.Contains(s, "↺")):
				// a fresh empty slice: it must be created anew for every joined port, i.e. inside the loop over the ports
				if in, ok := z.Val.(ssa.Instruction); ok && z.Fn != nil {
					inLoop := false
					for _, cn := range gt.Nodes {
						if cn.Instr == in {
							if len(iterLoops(gt, cn)) > 0 {
								inLoop = true
							}
						}
					}
					if sl, isSl := z.Val.(*ssa.Slice); isSl {
						if al, isAl := sl.X.(*ssa.Alloc); isAl {
							for _, cn := range gt.Nodes {
								if cn.Instr == ssa.Instruction(al) && len(iterLoops(gt, cn)) > 0 {
									inLoop = true
								}
							}
						}
					}
					if !inLoop && s != "nil" {
						bad = "the slice the members are collected into is created outside the per-port loop"
					}
				}
			case s == "↺":
			case strings.HasPrefix(s, "builtin.append(↺, [") && strings.Contains(s, "recv(") && strings.Contains(s, ".SubStream.Chan") && strings.Count(s, "builtin.append(") == 1:
				hasAppendRecv = true
			default:
				bad = "the stored slice can be " + trunc(s, 120)
			}
		}
		okLoop := false
		for _, rn := range gt.Nodes {
			if u, ok := rn.Instr.(*ssa.UnOp); ok && u.Op == token.ARROW && u.CommaOk {
				chs := xs.InCtx(rn.Ctx, u.X).String()
				if strings.Contains(chs, ".SubStream.Chan") {
					las := iterLoops(gt, rn)
					if len(las) > 0 {
						okLoop = e.loopHarmlessExits(gt, las[0])
						if !okLoop {
							bad = "the drain loop can be left before the sub-stream is closed"
						}
					} else if l := core.InnermostLoop(u); l != nil {
						// an explicit `for { v, ok := <-ch; if !ok { break }; ... }`: with the channel still open (ok = true)
						// the loop must not be left before the next receive
						res := gt.Run(core.Scenario{Start: rn, Result: core.TupleAV(core.Top, core.BoolAV(true))})
						w := res.ReachesAvoiding(func(m *core.Node) bool {
							return m.Ctx == rn.Ctx && m.Instr != nil && m.Kind != core.KAfter && !l.Blocks[m.Instr.Block()]
						}, func(m *core.Node) bool { return m == rn })
						okLoop = w == nil
						if !okLoop {
							bad = "the drain loop can be left before the sub-stream is closed"
						}
					}
				}
			}
		}
		switch {
		case bad != "":
			ob1.Fail(gt.Where(mn), bad+" (the members of one joined port would leak into / be overwritten by another port's, or be incomplete)")
		case !hasAppendRecv || !okLoop:
			ob1.Fail(gt.Where(mn), "the stored slice is not built by appending what is received from the carrier's SubStream channel until it is closed: "+trunc(v.String(), 160))
		default:
			ob1.OK(gt.Where(mn), "subStreamIPs["+trunc(k, 40)+"] = all IPs received from that port's SubStream, fresh slice per port")
		}
	}
	if nStores == 0 {
		ob1.Fail("NewTask", "NewTask's call tree never fills Task.subStreamIPs")
	}
	// the drain happens exactly when the formatter will join: under the assumption that makes the formatter's join
	// arm reachable (join flag set, non-empty separator) the receive on the carrier's SubStream channel is reached
	if fi0.joinFld != nil {
		obG := r.Ob("R1", "NewTask:drain-guard≙join-guard", "whenever the formatter joins a port (join flag set, separator non-empty) NewTask has drained that port's sub-stream: the receive on SubStream.Chan is reachable under that very assumption")
		resJ := fi0.arm("i", false, true)
		reachedJ := resJ.ReachedNodes()
		found, reached := false, false
		for _, rn := range gt.Nodes {
			u, ok := rn.Instr.(*ssa.UnOp)
			if !ok || u.Op != token.ARROW || rn.Kind == core.KAfter {
				continue
			}
			if !strings.Contains(xs.InCtx(rn.Ctx, u.X).String(), ".SubStream.Chan") {
				continue
			}
			found = true
			if reachedJ[rn] {
				reached = true
			}
		}
		switch {
		case !found:
			obG.Unknown("NewTask", "no receive on a SubStream channel in NewTask's call tree")
		case !reached:
			obG.Fail("NewTask", "with the join flag set and a non-empty separator - the condition under which the formatter joins - the sub-stream is never drained: the guard of the drain disagrees with the guard of the join, the placeholder is replaced by the empty string")
		default:
			obG.OK("NewTask", "drain reachable under the join assumption")
		}
	}
	// ---- R2 joined replacement
	e.fmtJoin("R2")
	e.fmtValueFlow("R2")
	ob2b := r.Ob("R2", "PortInfo.joinSep←join:(…)", "the separator stored in PortInfo comes from the capture group of the `join:(…)` pattern of the placeholder")
	if ip := p.Func("NewProc"); ip != nil {
		found := false
		if gi := e.XG(ip); gi != nil {
			fsy := e.fsym()
			for _, n := range gi.Nodes {
				st, ok := n.Instr.(*ssa.Store)
				if !ok {
					continue
				}
				fa, ok := st.Addr.(*ssa.FieldAddr)
				if !ok || !e.formatter().isPortInfoStringField(fieldOfAddr(fa)) {
					continue
				}
				s := fsy.InCtx(n.Ctx, st.Val).String()
				if !strings.Contains(s, "join:") && fieldOfAddr(fa).Name() != "joinSep" {
					continue // another textual attribute (type tag, extension)
				}
				found = true
				okS := strings.Contains(s, "FindStringSubmatch(regexp.MustCompile(\"join:(") && strings.HasSuffix(s, "[1]")
				ob2b.Check(okS, gi.Where(n), trunc(s, 120), "joinSep is "+trunc(s, 160))
			}
		}
		if !found {
			ob2b.Fail(core.FuncName(ip), "PortInfo.joinSep is never set from the command pattern")
		}
	} else {
		ob2b.Unknown("-", "NewProc not found")
	}
	// ---- R3 shared
	ob3a := r.Ob("R3", "TempDir:sub-stream-paths", "the members' paths are part of the task's temp-dir identity")
	if td := p.Func("Task.TempDir"); td != nil {
		okT := false
		if id := e.tempDirIdentity(td); id != nil {
			for _, pc := range id.pieces {
				if ps := pc.String(); strings.Contains(ps, fnPath+"(") && strings.Contains(ps, "$t."+e.subFieldName()+"[") {
					okT = true
				}
			}
		}
		ob3a.Check(okT, core.FuncName(td), "Path of every member appended to the hash pieces", "the members of a sub-stream do not enter the temp-dir identity: two tasks joining different file sets share a temp dir")
	}
	ob3b := r.Ob("R3", "audit-builder:Upstream(join)", "every member of the sub-stream is recorded as upstream in the task's audit record")
	if sp := e.spine(); sp != nil {
		if bfn, _ := e.auditBuilder(); bfn != nil {
			found := false
			for _, u := range e.recordUpdates() {
				if u.field != "Upstream" {
					continue
				}
				k := u.key.String()
				if strings.Contains(k, e.subFieldName()+"[") {
					found = true
					okL := false
					for _, la := range iterLoops(sp.g, u.n) {
						// the loop over the members: its collection (looked at through small helpers) is a slice taken
						// out of the sub-stream map
						if c := e.loopCollectionSymX(sp.g, la); c != nil && isSubStreamSlice(c) {
							okL = e.loopHarmlessExits(sp.g, la)
							break
						}
					}
					ob3b.Check(okL, sp.g.Where(u.n), "Upstream["+trunc(k, 80)+"] for every member", "the loop over the members can be left early or is missing")
				}
			}
			if !found {
				ob3b.Fail("task.go", "the members of a joined sub-stream are not recorded under Upstream")
			}
		}
	}
	// ---- R4 StreamToSubStream
	ob4 := r.Ob("R4", "StreamToSubStream.Run:SubStream≺Send", "the carrier IP gets the component's in-port as its SubStream before it is sent, and it is sent exactly once")
	run := p.DeclaredMethod("components", "StreamToSubStream", "Run")
	if run == nil {
		ob4.Unknown("-", "StreamToSubStream.Run not found")
		return
	}
	g := e.XG(run)
	if g == nil {
		return
	}
	isSubStore := func(n *core.Node) bool {
		st, ok := n.Instr.(*ssa.Store)
		if !ok {
			return false
		}
		fa, ok := st.Addr.(*ssa.FieldAddr)
		return ok && fieldOfAddr(fa).Name() == "SubStream"
	}
	var sends []*core.Node
	for _, n := range g.Nodes {
		if _, ok := isPortSend(n); ok && n.Kind != core.KAfter {
			sends = append(sends, n)
		}
	}
	must := g.Forward(func(n *core.Node) core.Transfer {
		if isSubStore(n) {
			return core.Transfer{Gen: 1}
		}
		return core.Transfer{}
	}, true)
	if len(sends) != 1 {
		ob4.Fail(core.FuncName(run), "the carrier is sent "+strings.Repeat("x", len(sends))+" ("+itoa(len(sends))+") times; exactly one send expected")
		return
	}
	n := sends[0]
	st := g.Select(func(m *core.Node) bool { return isSubStore(m) })
	okV := false
	for _, m := range st {
		v := sy.InCtx(m.Ctx, m.Instr.(*ssa.Store).Val).String()
		if strings.Contains(v, "InPort(") || strings.Contains(v, ".In(") {
			okV = true
		}
	}
	inLoop := len(g.EnclLoops(n)) > 0
	ob4.Check(must[n]&1 != 0 && okV && !inLoop, g.Where(n), "SubStream = p.In() ≺ single Send(carrier)", "the carrier can be sent before its SubStream is set to the component's in-port (the consumer would drain an empty default sub-stream), or is sent in a loop")
	_ = constant.MakeBool
}

func itoa(i int) string {
	if i == 0 {
		return "0"
	}
	s := ""
	for i > 0 {
		s = string(rune('0'+i%10)) + s
		i /= 10
	}
	return s
}

// isFileIPSlice: []*FileIP.
func isFileIPSlice(t types.Type) bool {
	sl, ok := t.Underlying().(*types.Slice)
	return ok && typeNamed(sl.Elem()) != nil && typeNamed(sl.Elem()).Obj().Name() == "FileIP"
}
