package rules

import (
	"go/constant"
	"go/token"
	"strings"

	"golang.org/x/tools/go/ssa"

	"scicheck/internal/core"
)

func init() { Registry["C18"] = c18 }

func c18(e *Env) {
	r := e.R
	r.Explanation = "Structural conditions for joined in-ports: (R1) NewTask drains the sub-stream channel of the carrier IP by a range to closure (loop not left early), appending every received IP, in order, to a slice that is fresh for each joined port (no slice shared between ports), and stores it under the port's name; (R2) the joined replacement in the command formatter is strings.Join over that slice in index order, each member being prefix(modifiers(Path(member))) - modifiers and the parent-dir prefix applied per member, not to the joined string - with the separator taken from the port's PortInfo, which is rooted in the capture group of the `join:(…)` pattern; (R3) the members enter the temp-dir identity and the audit Upstream (shared: C14.R1, C10.R1, re-evaluated here); (R4) StreamToSubStream assigns its in-port as the carrier's SubStream before its single send of the carrier."
	r.NotDecided = "that exactly one task runs per sub-stream under all timings of the upstream producers (needs the channel network's behaviour); content and existence of the member files."
	a := e.anchors()
	if !a.ok() {
		return
	}
	p := e.P
	sy := e.symbolizer()
	// ---- R1 drain in NewTask
	ob1 := r.Ob("R1", "NewTask:drain-sub-stream", "the carrier's SubStream channel is ranged to closure and every received IP is appended, in order, to a slice fresh for this port")
	nt := a.newTask
	var stores []*ssa.MapUpdate
	for _, b := range nt.Blocks {
		for _, in := range b.Instrs {
			if mu, ok := in.(*ssa.MapUpdate); ok {
				if f := fieldOfLoad(mu.Map); f != nil && f.Name() == "subStreamIPs" {
					stores = append(stores, mu)
				}
			}
		}
	}
	if len(stores) == 0 {
		ob1.Fail(core.FuncName(nt), "NewTask never fills Task.subStreamIPs")
	}
	for _, mu := range stores {
		v := sy.InFunc(nt, mu.Value)
		k := sy.InFunc(nt, mu.Key).String()
		alts := map[string]*core.Sym{}
		var collect func(z *core.Sym, d int)
		collect = func(z *core.Sym, d int) {
			if z.Op == "phi" && d < 5 {
				for _, x := range z.Args {
					collect(x, d+1)
				}
				return
			}
			alts[z.String()] = z
		}
		collect(v, 0)
		bad := ""
		hasAppendRecv := false
		for s, z := range alts {
			switch {
			case s == "[]":
				// fresh literal: its allocation must be inside the per-port loop
				if sl, ok := z.Val.(*ssa.Slice); ok {
					if al, ok := sl.X.(*ssa.Alloc); ok {
						if core.InnermostLoop(al) == nil {
							bad = "the slice literal is allocated outside the per-port loop"
						}
					}
				}
			case s == "↺":
			case strings.HasPrefix(s, "builtin.append(↺, [recv(") && strings.Contains(s, ".SubStream.Chan"):
				hasAppendRecv = true
			default:
				bad = "the stored slice can be " + trunc(s, 120)
			}
		}
		// the receive loop is complete (range over channel)
		okLoop := false
		for _, b := range nt.Blocks {
			for _, in := range b.Instrs {
				if u, ok := in.(*ssa.UnOp); ok && u.Op == token.ARROW && u.CommaOk {
					chs := sy.InFunc(nt, u.X).String()
					if strings.Contains(chs, ".SubStream.Chan") {
						if l := core.InnermostLoop(u); l != nil {
							if ex := p.EarlyExits(l); len(ex) > 0 {
								bad = "the drain loop can be left before the sub-stream is closed: " + ex[0]
							} else {
								okLoop = true
							}
						}
					}
				}
			}
		}
		switch {
		case bad != "":
			ob1.Fail(e.where(mu), bad+" (the members of one joined port would leak into / be overwritten by another port's, or be incomplete)")
		case !hasAppendRecv || !okLoop:
			ob1.Fail(e.where(mu), "the stored slice is not built by appending what is received from the carrier's SubStream channel until it is closed: "+trunc(v.String(), 160))
		default:
			ob1.OK(e.where(mu), "subStreamIPs["+k+"] = all IPs received from "+k+"'s SubStream, fresh slice per port")
		}
	}
	// ---- R2 joined replacement
	fi := e.formatter()
	ob2 := r.Ob("R2", "formatter[arm i-join]", "the joined placeholder is Join([prefix(modifiers(Path(member))) …], PortInfo.joinSep) over all members in order")
	if len(fi.problems) > 0 {
		ob2.Unknown("-", strings.Join(fi.problems, ";"))
	} else {
		found := false
		for _, alt := range fi.arms["i"] {
			s := alt.sym
			str := s.String()
			if !strings.Contains(str, "$subStreamIPs[") {
				continue
			}
			found = true
			where := e.P.InstrPos(alt.pred.Instrs[len(alt.pred.Instrs)-1])
			if !isCallSym(s, "strings.Join") {
				ob2.Fail(where, "the replacement for a joined port is "+trunc(str, 200)+": modifiers or the prefix are applied to the joined string instead of to each member (only the first/last member is transformed)")
				continue
			}
			sep := s.Args[1].String()
			pieces := appendedPieces(s.Args[0])
			okP := len(pieces) == 1
			if okP {
				ps := pieces[0].String()
				okP = strings.HasPrefix(ps, "prependParentDirPath(applyPathModifiers("+fnPath+"($subStreamIPs[") && strings.Contains(ps, "[op+(φ(-1 | ↺), 1)]")
			}
			switch {
			case !okP:
				ob2.Fail(where, "the joined members are not prefix(modifiers(Path(member))) over the collected slice in index order: "+trunc(str, 200))
			case !strings.HasSuffix(sep, ".joinSep"):
				ob2.Fail(where, "the separator is "+sep+", not the one declared in the placeholder (PortInfo.joinSep)")
			default:
				ob2.OK(where, "Join(prefix(mods(Path(member)))…, "+sep+")")
			}
		}
		if !found {
			ob2.Fail(core.FuncName(fi.fn), "the {i:} arm has no alternative that uses the sub-stream members")
		}
	}
	ob2b := r.Ob("R2", "PortInfo.joinSep←join:(…)", "the separator stored in PortInfo comes from the capture group of the `join:(…)` pattern of the placeholder")
	if ip := p.DeclaredMethod("scipipe", "Process", "initPortsFromCmdPattern"); ip != nil {
		found := false
		for _, b := range ip.Blocks {
			for _, in := range b.Instrs {
				st, ok := in.(*ssa.Store)
				if !ok {
					continue
				}
				fa, ok := st.Addr.(*ssa.FieldAddr)
				if !ok || fieldOfAddr(fa).Name() != "joinSep" {
					continue
				}
				found = true
				s := sy.InFunc(ip, st.Val).String()
				okS := strings.Contains(s, "FindStringSubmatch(regexp.MustCompile(\"join:(") && strings.HasSuffix(s, "[1]")
				ob2b.Check(okS, e.where(st), trunc(s, 120), "joinSep is "+trunc(s, 160))
			}
		}
		if !found {
			ob2b.Fail(core.FuncName(ip), "PortInfo.joinSep is never set from the command pattern")
		}
	} else {
		ob2b.Unknown("-", "initPortsFromCmdPattern not found")
	}
	// ---- R3 shared
	ob3a := r.Ob("R3", "TempDir:sub-stream-paths", "the members' paths are part of the task's temp-dir identity")
	if td := p.Func("Task.TempDir"); td != nil {
		okT := false
		for _, b := range td.Blocks {
			for _, in := range b.Instrs {
				if c, ok := in.(*ssa.Call); ok {
					if bi, ok := c.Call.Value.(*ssa.Builtin); ok && bi.Name() == "append" {
						s := sy.InFunc(td, c.Call.Args[1]).String()
						if strings.Contains(s, fnPath+"($t.subStreamIPs[") {
							okT = true
						}
					}
				}
			}
		}
		ob3a.Check(okT, core.FuncName(td), "Path of every member appended to the hash pieces", "the members of a sub-stream do not enter the temp-dir identity: two tasks joining different file sets share a temp dir")
	}
	ob3b := r.Ob("R3", "audit-builder:Upstream(join)", "every member of the sub-stream is recorded as upstream in the task's audit record")
	if sp := e.spine(); sp != nil {
		if _, bctx := e.auditBuilder(); bctx != nil {
			found := false
			for _, n := range sp.g.Nodes {
				mu, ok := n.Instr.(*ssa.MapUpdate)
				if !ok {
					continue
				}
				in := false
				for c := n.Ctx; c != nil; c = c.Parent {
					if c == bctx {
						in = true
					}
				}
				if f := fieldOfLoad(mu.Map); !in || f == nil || f.Name() != "Upstream" {
					continue
				}
				k := sy.InCtx(n.Ctx, mu.Key).String()
				if strings.Contains(k, "subStreamIPs[") {
					found = true
					okL := true
					for _, l := range core.LoopsOf(mu) {
						if ex := p.EarlyExits(l); len(ex) > 0 {
							okL = false
						}
					}
					ob3b.Check(okL && core.InnermostLoop(mu) != nil, sp.g.Where(n), "Upstream["+trunc(k, 80)+"] for every member", "the loop over the members can be left early or is missing")
				}
			}
			if !found {
				ob3b.Fail("task.go", "the members of a joined sub-stream are not recorded under Upstream")
			}
		}
	}
	// ---- R4 StreamToSubStream
	ob4 := r.Ob("R4", "StreamToSubStream.Run:SubStream≺Send", "the carrier IP gets the component's in-port as its SubStream before it is sent, and it is sent exactly once")
	run := p.DeclaredMethod("components", "StreamToSubStream", "Run")
	if run == nil {
		ob4.Unknown("-", "StreamToSubStream.Run not found")
		return
	}
	g := e.XG(run)
	if g == nil {
		return
	}
	isSubStore := func(n *core.Node) bool {
		st, ok := n.Instr.(*ssa.Store)
		if !ok {
			return false
		}
		fa, ok := st.Addr.(*ssa.FieldAddr)
		return ok && fieldOfAddr(fa).Name() == "SubStream"
	}
	var sends []*core.Node
	for _, n := range g.Nodes {
		if _, ok := isPortSend(n); ok && n.Ctx == g.Root && n.Kind != core.KAfter {
			sends = append(sends, n)
		}
	}
	must := g.Forward(func(n *core.Node) core.Transfer {
		if isSubStore(n) && n.Ctx == g.Root {
			return core.Transfer{Gen: 1}
		}
		return core.Transfer{}
	}, true)
	if len(sends) != 1 {
		ob4.Fail(core.FuncName(run), "the carrier is sent "+strings.Repeat("x", len(sends))+" ("+itoa(len(sends))+") times; exactly one send expected")
		return
	}
	n := sends[0]
	st := g.Select(func(m *core.Node) bool { return isSubStore(m) && m.Ctx == g.Root })
	okV := false
	for _, m := range st {
		v := sy.InCtx(m.Ctx, m.Instr.(*ssa.Store).Val).String()
		if strings.Contains(v, "InPort(") || strings.Contains(v, ".In(") {
			okV = true
		}
	}
	inLoop := core.InnermostLoop(n.Instr) != nil
	ob4.Check(must[n]&1 != 0 && okV && !inLoop, g.Where(n), "SubStream = p.In() ≺ single Send(carrier)", "the carrier can be sent before its SubStream is set to the component's in-port (the consumer would drain an empty default sub-stream), or is sent in a loop")
	_ = constant.MakeBool
}

func itoa(i int) string {
	if i == 0 {
		return "0"
	}
	s := ""
	for i > 0 {
		s = string(rune('0'+i%10)) + s
		i /= 10
	}
	return s
}
