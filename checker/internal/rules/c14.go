package rules

import (
	"fmt"
	"go/constant"
	"go/token"
	"go/types"
	"os"
	"regexp"
	"strings"

	"golang.org/x/tools/go/ssa"

	"scicheck/internal/core"
)

func init() { Registry["C14"] = c14 }

// appendedPieces collects the elements of a slice built up by literals and append calls (elements of variadic
// lists; a spread argument that is itself such a slice is looked into, any other spread value - e.g. the result
// of a path-splitting function - counts as one piece).
func appendedPieces(s *core.Sym) []*core.Sym {
	var out []*core.Sym
	seen := map[string]bool{}
	add := func(z *core.Sym) {
		k := z.String()
		if !seen[k] {
			seen[k] = true
			out = append(out, z)
		}
	}
	var rec func(z *core.Sym, d int)
	isSliceExpr := func(z *core.Sym) bool {
		return z.Op == "list" || z.Op == "phi" || (z.Op == "call" && z.Name == "builtin.append")
	}
	rec = func(z *core.Sym, d int) {
		if d > 12 {
			return
		}
		switch {
		case z.Op == "list":
			for _, a := range z.Args {
				add(a)
			}
		case z.Op == "phi":
			for _, a := range z.Args {
				if isSliceExpr(a) {
					rec(a, d+1)
				}
			}
		case z.Op == "call" && z.Name == "builtin.append" && len(z.Args) == 2:
			if isSliceExpr(z.Args[0]) {
				rec(z.Args[0], d+1)
			}
			if isSliceExpr(z.Args[1]) {
				rec(z.Args[1], d+1)
			} else if z.Args[1].Op != "cycle" {
				add(z.Args[1])
			}
		}
	}
	rec(s, 0)
	return out
}

func c14(e *Env) {
	r := e.R
	r.Explanation = "Static decision of the temp-dir naming obligations: (R1) coverage: the SHA-1 pre-image built in Task.TempDir has, as value-flow roots, the task name, the path of every in-IP (loop over the sorted keys of Task.InIPs), the path of every sub-stream member, and key AND value of every parameter and of every tag, each value rooted in its own map; (R2) order determinism: every map that feeds the pre-image is traversed through a helper that sorts its keys; no direct map range reaches the pre-image; (R3) encoding injectivity: the pieces are joined with a non-empty separator (or are length-prefixed); (R4) shape: result = prefix \".\" hex(sha1); the prefix is folded into the hash when longer than a threshold T with T + 1 + 40 <= 255 and the fallback prefix is the short constant; the sanitiser replaces '/' (single path segment); no clock/random/temp-file value enters; (R5) the IP that merely carries a sub-stream (random temp-file path) is excluded from the identity."
	r.NotDecided = "collision resistance of SHA-1 (assumed); that two different identities really yield different pre-images is decided only through R1+R3 (coverage and injective encoding), not by evaluating the function."
	p := e.P
	td := p.Func("Task.TempDir")
	if td == nil {
		r.Ob("R1", "TempDir", "anchor").Unknown("-", "(*Task).TempDir not found")
		return
	}
	id := e.tempDirIdentity(td)
	ob1 := func(k, d string) *core.Obligation { return r.Ob("R1", "TempDir:"+k, d) }
	if id == nil {
		ob1("hash", "the identity pieces are joined (or streamed) into one SHA-1").Unknown(core.FuncName(td), "no sha1.Sum(Join(pieces, sep)) and no hash.Write loop over pieces found in Task.TempDir's call tree")
		return
	}
	sy, g, ret, pre, piecesSym, sepSym, where, joinWhere, pieces := id.sy, id.g, id.ret, id.pre, id.piecesSym, id.sepSym, id.where, id.joinWhere, id.pieces
	joinSym := &core.Sym{Op: "call", Name: "strings.Join", Args: []*core.Sym{piecesSym, sepSym}}
	var strs []string
	for _, pc := range pieces {
		strs = append(strs, pc.String())
	}
	if os.Getenv("RULE_DEBUG") == "C14" {
		fmt.Println("pre:", pre.String())
		fmt.Println("piecesSym:", piecesSym.String())
		for _, x := range strs {
			fmt.Println("  piece:", x)
		}
	}
	has := func(pred func(pc *core.Sym, s string) bool) (string, bool) {
		for i, pc := range pieces {
			if pred(pc, strs[i]) {
				return strs[i], true
			}
		}
		return "", false
	}
	chk := func(key, desc string, pred func(pc *core.Sym, s string) bool, miss string) {
		ob := ob1(key, desc)
		if s, ok := has(pred); ok {
			ob.OK(where, trunc(s, 160))
		} else {
			ob.Fail(where, miss)
		}
	}
	chk("Name", "the task (process) name is part of the hashed identity",
		func(pc *core.Sym, s string) bool { return s == "$t.Name" }, "Task.Name is not among the hashed pieces: tasks of different processes with equal inputs share a temp dir")
	chk("InIP-paths", "the path of every in-IP is part of the hashed identity",
		func(pc *core.Sym, s string) bool {
			return strings.Contains(s, fnPath+"(") && strings.Contains(s, "$t.InIPs") && !strings.Contains(s, e.subFieldName()+"[")
		}, "FileIP.Path of the elements of Task.InIPs is not among the hashed pieces")
	chk("sub-stream-paths", "the path of every sub-stream member is part of the hashed identity",
		func(pc *core.Sym, s string) bool {
			return strings.Contains(s, fnPath+"(") && strings.Contains(s, "$t."+e.subFieldName()+"[")
		}, "the paths of the sub-stream members are not among the hashed pieces")
	kv := func(field, accessor string) func(pc *core.Sym, s string) bool {
		return func(pc *core.Sym, s string) bool {
			fl := pc.Flat()
			if len(fl) < 2 {
				return false
			}
			keyOK, valOK := false, false
			for i, h := range fl {
				if h.Op == "lit" {
					continue
				}
				hs := h.String()
				isVal := strings.Contains(hs, accessor+"(") || strings.Contains(hs, "$t."+field+"[")
				if isVal {
					// the value must come from its own map: no other task map indexed
					other := "Params"
					if field == "Params" {
						other = "Tags"
					}
					if !strings.Contains(hs, "$t."+other+"[") {
						valOK = true
					}
				} else if strings.Contains(hs, "$t."+field) && i == 0 {
					keyOK = true
				}
			}
			return keyOK && valOK
		}
	}
	// key and value may also be written as pieces of their own (streaming form): then both kinds must be present
	kvSplit := func(field, accessor string) func(pc *core.Sym, s string) bool {
		other := "Params"
		if field == "Params" {
			other = "Tags"
		}
		hasKey, hasVal := false, false
		for i, pc := range pieces {
			_ = pc
			hs := strs[i]
			isVal := (strings.Contains(hs, accessor+"(") || strings.Contains(hs, "$t."+field+"[")) && !strings.Contains(hs, "$t."+other+"[")
			if isVal {
				hasVal = true
			} else if strings.Contains(hs, "($t."+field+")[") {
				hasKey = true
			}
		}
		return func(pc *core.Sym, s string) bool { return hasKey && hasVal }
	}
	either := func(a, b func(pc *core.Sym, s string) bool) func(pc *core.Sym, s string) bool {
		return func(pc *core.Sym, s string) bool { return a(pc, s) || b(pc, s) }
	}
	chk("param-key+value", "name and value of every parameter are part of the hashed identity",
		either(kv("Params", "(*Task).Param"), kvSplit("Params", "(*Task).Param")), "no hashed piece combines a key of Task.Params with the value of that parameter")
	chk("tag-key+value", "name and value of every tag are part of the hashed identity",
		either(kv("Tags", "(*Task).Tag"), kvSplit("Tags", "(*Task).Tag")), "no hashed piece combines a key of Task.Tags with the value of that tag (e.g. the value is read from another map): tasks differing only in a tag value share a temp dir")
	// completeness: the loops that contribute pieces cannot be left early (a `break` where a `continue` was meant drops
	// the identity of everything that sorts after the skipped element)
	obAll := ob1("loops-complete", "every loop that contributes pieces of the identity runs to the end of its collection (no break / early return that lets TempDir continue)")
	{
		nL := 0
		okAll := true
		seenLoop := map[*core.Loop]bool{}
		for _, n := range g.Nodes {
			if n.Kind == core.KAfter || n.Instr == nil {
				continue
			}
			contributes := false
			if c, ok := n.Instr.(*ssa.Call); ok {
				if n.IsBuiltin("append") && len(c.Call.Args) == 2 {
					if sl, ok := c.Call.Args[0].Type().Underlying().(*types.Slice); ok {
						if b, ok := sl.Elem().Underlying().(*types.Basic); ok && b.Kind() == types.String {
							contributes = true
						}
					}
				}
				if n.IsCallTo("(*strings.Builder).WriteString", "io.WriteString", "fmt.Fprint", "fmt.Fprintf") || (c.Call.IsInvoke() && c.Call.Method.Name() == "Write") {
					contributes = true
				}
			}
			if !contributes {
				continue
			}
			for _, la := range iterLoops(g, n) {
				if seenLoop[la.L] {
					continue
				}
				seenLoop[la.L] = true
				nL++
				if !e.loopHarmlessExits(g, la) {
					okAll = false
					obAll.Fail(g.Where(n), "a loop that adds pieces of the task's identity to the hash can be left before its collection is exhausted: what comes after the element at which it stops is not part of the identity, so different tasks share a temp dir")
				}
			}
		}
		if okAll {
			obAll.OK(where, fmt.Sprintf("%d contributing loops, none can be left early", nL))
		}
	}
	// ---- R2 order determinism
	ob2 := r.Ob("R2", "TempDir:order", "every map feeding the pre-image is traversed in sorted key order (no direct map range reaches the hash or the prefix)")
	badOrder := ""
	// the result: every return of TempDir (the short and the folded name may be two return statements)
	full := sy.InFunc(td, ret.Results[0])
	{
		var alts []*core.Sym
		for _, b := range td.Blocks {
			for _, in := range b.Instrs {
				if rt, ok := in.(*ssa.Return); ok && len(rt.Results) == 1 {
					alts = append(alts, sy.InFunc(td, rt.Results[0]))
				}
			}
		}
		if len(alts) > 1 {
			full = &core.Sym{Op: "phi", Name: "returns", Args: alts}
		}
	}
	for _, z := range []*core.Sym{pre, full} {
		z.Walk(func(w *core.Sym) bool {
			if w.Op == "rangekey" || w.Op == "rangeval" {
				badOrder = w.String()
			}
			return badOrder == ""
		})
	}
	if badOrder != "" {
		ob2.Fail(where, "a value taken from a direct map range ("+badOrder+") reaches the temp-dir name: the name depends on Go's random map iteration order")
	} else {
		// the helpers that deliver keys must sort them
		helpers := map[*ssa.Function]bool{}
		pre.Walk(func(w *core.Sym) bool {
			if w.Op == "call" && w.Callee != nil && p.IsLib(w.Callee) && w.Callee.Blocks != nil {
				helpers[w.Callee] = true
			}
			return true
		})
		okAll := true
		n := 0
		for h := range helpers {
			if !returnsSlice(h) || !rangesMap(h) {
				continue
			}
			n++
			if !sortsResult(h) {
				okAll = false
				ob2.Fail(e.where(h.Blocks[0].Instrs[0]), core.FuncName(h)+" collects map keys for the temp-dir identity but does not sort them before returning")
			}
		}
		if okAll {
			ob2.OK(where, fmt.Sprintf("no direct map range in the pre-image; %d key helpers sort their result", n))
		}
	}
	// ---- R3 injectivity (finding K1)
	ob3 := r.Ob("R3", "TempDir:join-separator", "the hashed pieces are joined with a non-empty separator that cannot occur inside a piece (or are length-prefixed), so different identities give different pre-images")
	sep := joinSym.Args[1]
	if sep.Op == "lit" && sep.Lit == "" {
		jw := joinWhere
		ob3.Fail(jw, "strings.Join(pieces, \"\"): the encoding is not injective - e.g. in-paths ab/c and a/bc, or parameters {x=1y_2,y=3} and {x=1,y=2y_3}, produce the same pre-image and therefore the same temp dir")
	} else if sep.Op == "lit" {
		ob3.OK(where, "separator "+sep.String())
	} else {
		ob3.Unknown(where, "separator is not a constant: "+sep.String())
	}
	// ---- R4 shape and length
	e.c14Shape(g, sy, td, full, pre, where, id.writes)
	// ---- R5 carrier excluded (fixed F5)
	ob5 := r.Ob("R5", "TempDir:joined-port-carrier-excluded", "the path of an in-IP that only carries a sub-stream (joined port; random temp-file name) does not enter the identity")
	found := false
	for _, n := range g.Nodes {
		if !n.IsBuiltin("append") || n.Kind == core.KAfter || len(n.Call.Args) < 2 {
			continue
		}
		// (without looking through helper calls: a slice assembled by a helper is judged at the helper's own appends)
		as := e.symbolizer().InCtx(n.Ctx, n.Call.Args[1]).String()
		if !(strings.Contains(as, fnPath+"(") && strings.Contains(as, "$t.InIPs") && !strings.Contains(as, e.subFieldName()+"[")) {
			continue
		}
		found = true
		gs := core.GuardString(g.Guards(n, sy))
		if strings.Contains(gs, e.subFieldName()) || strings.Contains(gs, "."+e.joinFlagName()) {
			ob5.OK(g.Where(n), "guarded by "+trunc(gs, 160))
		} else {
			ob5.Fail(g.Where(n), "the path of every in-IP is hashed unconditionally, including the carrier IP of a joined port whose path is a fresh ioutil.TempFile name: the same task gets a different temp dir in every run, so leftovers are never detected")
		}
	}
	if !found {
		ob5.Unknown(where, "append of the in-IP paths not found")
	}
}

// tdIdentity: the SHA-1 pre-image of the temp-dir name, as found in Task.TempDir's call tree.
type tdIdentity struct {
	sy                *core.Symbolizer
	g                 *core.XG
	ret               *ssa.Return
	pre               *core.Sym
	piecesSym, sepSym *core.Sym
	pieces            []*core.Sym
	where, joinWhere  string
	writes            []*core.Node // streaming form: the nodes that write a piece into the hash / builder
}

func (e *Env) tempDirIdentity(td *ssa.Function) *tdIdentity {
	p := e.P
	// a symboliser that looks through every private helper, whatever its size: the identity may be assembled
	// by helper functions
	// by helper functions. Helpers that collect the keys of a map into a slice stay opaque: R2 checks that they sort.
	sy := p.NewSymbolizer(func(f *ssa.Function) bool {
		return isPrivateFunc(f) && !(rangesMap(f) && returnsSlice(f))
	})
	sy.MaxDepth = 10
	g := e.XG(td)
	if g == nil {
		return nil
	}
	var ret *ssa.Return
	for _, b := range td.Blocks {
		for _, in := range b.Instrs {
			if x, ok := in.(*ssa.Return); ok {
				ret = x
			}
		}
	}
	// the pre-image: (a) sha1.Sum([]byte(strings.Join(pieces, sep)))  (b) h := sha1.New(); h.Write([]byte(piece)) in a loop over pieces
	var pre, sepSym *core.Sym
	var piecesSym *core.Sym
	where := core.FuncName(td)
	var joinWhere string
	for _, n := range g.Nodes {
		switch {
		case n.IsCallTo("crypto/sha1.Sum", "crypto/sha256.Sum256"):
			pre = sy.InCtx(n.Ctx, n.Call.Args[0])
			where = g.Where(n)
			pre.Walk(func(z *core.Sym) bool {
				if z.Op == "call" && z.Name == "strings.Join" && piecesSym == nil && len(z.Args) == 2 {
					piecesSym, sepSym = z.Args[0], z.Args[1]
				}
				if z.Op == "concat" && z.Name == "join" && piecesSym == nil {
					piecesSym, sepSym = &core.Sym{Op: "list", Args: z.Args}, &core.Sym{Op: "lit", Lit: "?"}
				}
				return piecesSym == nil
			})
			joinWhere = where
		}
	}
	// the hashed string may be accumulated in a strings.Builder: its WriteString calls are the pieces
	var accBuilder *core.Sym
	var accWrites []*core.Node
	if pre != nil && piecesSym == nil {
		pre.Walk(func(z *core.Sym) bool {
			if z.Op == "call" && z.Name == "(*strings.Builder).String" && len(z.Args) == 1 && accBuilder == nil {
				accBuilder = z.Args[0]
			}
			return accBuilder == nil
		})
	}
	if pre == nil || accBuilder != nil {
		// streaming form: h := sha1.New(); then h.Write([]byte(piece)) / io.WriteString(h, piece) / fmt.Fprint(h, piece),
		// directly or through a helper or closure, for single pieces or in a loop over a slice of pieces
		var written []*core.Sym
		isHash := func(c *core.Ctx, v ssa.Value) bool {
			if strings.Contains(v.Type().String(), "hash.Hash") {
				return true
			}
			return strings.Contains(sy.InCtx(c, v).String(), "crypto/sha1.New(")
		}
		for _, n := range g.Nodes {
			if n.Call == nil || n.Kind == core.KAfter {
				continue
			}
			var arg ssa.Value
			switch {
			case accBuilder == nil && n.Call.IsInvoke() && (n.Call.Method.Name() == "Write" || n.Call.Method.Name() == "WriteString") && isHash(n.Ctx, n.Call.Value) && len(n.Call.Args) == 1:
				arg = n.Call.Args[0]
			case accBuilder != nil:
				if n.IsCallTo("(*strings.Builder).WriteString", "(*strings.Builder).Write") {
					if rc := sy.InCtx(n.Ctx, n.Call.Args[0]); rc.Val != nil && rc.Val == accBuilder.Val {
						arg = n.Call.Args[1]
					}
				}
			case n.IsCallTo("io.WriteString") && isHash(n.Ctx, n.Call.Args[0]):
				arg = n.Call.Args[1]
			case n.IsCallTo("fmt.Fprint", "fmt.Fprintf") && isHash(n.Ctx, n.Call.Args[0]):
				arg = n.Call.Args[len(n.Call.Args)-1]
			}
			if arg == nil {
				continue
			}
			a := sy.InCtx(n.Ctx, arg)
			for a.Op == "call" && a.Name == "convert" && len(a.Args) == 1 {
				a = a.Args[0]
			}
			where, joinWhere = g.Where(n), g.Where(n)
			accWrites = append(accWrites, n)
			var coll *core.Sym
			if (a.Op == "elem" || a.Op == "rangeval") && len(a.Args) > 0 {
				if _, ok := e.loopOver(g, n, ""); ok {
					coll = a.Args[0]
				}
			}
			if coll != nil {
				written = append(written, coll)
			} else {
				written = append(written, &core.Sym{Op: "list", Args: []*core.Sym{a}})
			}
			pre = a
		}
		if len(written) == 1 {
			piecesSym = written[0]
		} else if len(written) > 1 {
			// several writes: the pre-image is their concatenation
			acc := written[0]
			for _, w := range written[1:] {
				acc = &core.Sym{Op: "call", Name: "builtin.append", Args: []*core.Sym{acc, w}}
			}
			piecesSym = acc
		}
		if piecesSym != nil {
			pre = piecesSym
			sepSym = &core.Sym{Op: "lit", Lit: ""}
		}
	}
	if pre == nil || piecesSym == nil || ret == nil {
		return nil
	}
	return &tdIdentity{sy: sy, g: g, ret: ret, pre: pre, piecesSym: piecesSym, sepSym: sepSym, pieces: appendedPieces(piecesSym), where: where, joinWhere: joinWhere, writes: accWrites}
}

func returnsSlice(f *ssa.Function) bool {
	if f.Signature.Results().Len() != 1 {
		return false
	}
	_, ok := f.Signature.Results().At(0).Type().Underlying().(interface{ Elem() interface{} })
	_ = ok
	return strings.HasPrefix(f.Signature.Results().At(0).Type().String(), "[]")
}

func rangesMap(f *ssa.Function) bool {
	for _, b := range f.Blocks {
		for _, in := range b.Instrs {
			if _, ok := in.(*ssa.Range); ok {
				return true
			}
		}
	}
	return false
}

// sortsResult: every returned slice value has been passed to sort.Strings / sort.Slice / sort.Sort before the return.
func sortsResult(f *ssa.Function) bool {
	sorted := map[ssa.Value]bool{}
	sortedCell := map[*ssa.Alloc]bool{}
	for _, b := range f.Blocks {
		for _, in := range b.Instrs {
			if c, ok := in.(*ssa.Call); ok && c.Call.StaticCallee() != nil {
				switch c.Call.StaticCallee().String() {
				case "sort.Strings", "sort.Slice", "sort.SliceStable", "sort.Sort", "sort.Stable", "sort.Ints", "slices.Sort", "slices.SortFunc", "slices.SortStableFunc":
					a := c.Call.Args[0]
					for {
						// sort.Slice takes an interface{}, sort.Sort a sort.Interface conversion of the slice
						if mi, ok := a.(*ssa.MakeInterface); ok {
							a = mi.X
							continue
						}
						if ct, ok := a.(*ssa.ChangeType); ok {
							a = ct.X
							continue
						}
						break
					}
					sorted[a] = true
					sorted[c.Call.Args[0]] = true
					// a slice captured by the comparator closure lives in a cell: every load of that cell is the slice
					if u, ok := a.(*ssa.UnOp); ok {
						if al, ok := u.X.(*ssa.Alloc); ok {
							sortedCell[al] = true
						}
					}
				}
			}
		}
	}
	okAny := false
	for _, b := range f.Blocks {
		for _, in := range b.Instrs {
			if rt, ok := in.(*ssa.Return); ok {
				if len(rt.Results) != 1 {
					return false
				}
				if u, ok := rt.Results[0].(*ssa.UnOp); ok {
					if al, ok := u.X.(*ssa.Alloc); ok && sortedCell[al] {
						okAny = true
						continue
					}
				}
				if !sorted[rt.Results[0]] {
					// ... or handed to a helper of the module that sorts what it returns
					c, isCall := rt.Results[0].(*ssa.Call)
					if !isCall || c.Call.StaticCallee() == nil || c.Call.StaticCallee() == f || c.Call.StaticCallee().Blocks == nil || !sortsResult(c.Call.StaticCallee()) {
						return false
					}
				}
				// the sort call must dominate the return
				okAny = true
			}
		}
	}
	return okAny
}

func (e *Env) c14Shape(g *core.XG, sy *core.Symbolizer, td *ssa.Function, full, pre *core.Sym, where string, accWrites []*core.Node) {
	r := e.R
	_ = e.P
	ob := r.Ob("R4", "TempDir:template", "the name is <prefix> \".\" hex(sha1(pre-image)): one hash of the whole identity, hex encoded")
	fullAlts := full.Alts(8)
	if len(fullAlts) == 0 {
		fullAlts = []*core.Sym{full}
	}
	okTpl := true
	for _, alt := range fullAlts {
		fl := alt.Flat()
		last := fl[len(fl)-1]
		isHex := isCallSym(last, "encoding/hex.EncodeToString") || (last.Op == "call" && last.Name == "fmt%x")
		if isHex {
			// what is rendered is the SHA-1 digest: a [20]byte value, or the Sum of a hash.Hash
			isDigest := false
			last.Walk(func(z *core.Sym) bool {
				if z.Val != nil {
					if ts := z.Val.Type().String(); strings.Contains(ts, "[20]byte") || strings.Contains(ts, "hash.Hash") {
						isDigest = true
					}
				}
				if z.Op == "call" && strings.Contains(z.Name, "crypto/sha1.") {
					isDigest = true
				}
				return !isDigest
			})
			isHex = isDigest
		}
		// (a constant prefix and the dot may be merged into one literal, "_scipipe_tmp.")
		if !(len(fl) >= 2 && isHex && fl[len(fl)-2].Op == "lit" && strings.HasSuffix(fl[len(fl)-2].Lit, ".")) {
			okTpl = false
		}
	}
	ob.Check(okTpl, where, full.Template(), "result template is "+trunc(full.Template(), 200)+", not <prefix>.<hex of the hash>")
	// no nondeterministic source
	obS := r.Ob("R4", "TempDir:no-clock-or-random", "no clock, random or temp-file value enters the temp-dir name")
	bad := ""
	for _, z := range []*core.Sym{full, pre} {
		for c := range z.Calls() {
			if strings.HasPrefix(c, "time.") || strings.HasPrefix(c, "math/rand") || strings.Contains(c, "TempFile") || strings.Contains(c, "TempDir(\"") || c == "os.Getpid" || c == "randSeqLC" {
				bad = c
			}
		}
	}
	obS.Check(bad == "", where, "roots are task fields and constants only", "the temp-dir name depends on "+bad)
	// length threshold
	obL := r.Ob("R4", "TempDir:length", "an over-long prefix is folded into the hash: with threshold T on len(prefix), T + 1 + 40 <= 255, and the fallback prefix is the short constant")
	// the fold: the append that puts the name prefix (a piece mentioning the sanitised process name, which is not
	// the bare task name) among the hashed pieces; its guard is the length test
	var fold *core.Node
	isAccWrite := map[*core.Node]bool{}
	for _, n := range accWrites {
		isAccWrite[n] = true
	}
	for _, n := range g.Nodes {
		if !(n.IsBuiltin("append") || isAccWrite[n]) || n.Kind == core.KAfter || len(n.Call.Args) < 1 {
			continue
		}
		argV := n.Call.Args[len(n.Call.Args)-1]
		if isAccWrite[n] {
			// a write of one element of a collected slice is not the fold itself (the append to the slice is)
			a := sy.InCtx(n.Ctx, argV)
			for a.Op == "call" && a.Name == "convert" && len(a.Args) == 1 {
				a = a.Args[0]
			}
			if (a.Op == "elem" || a.Op == "rangeval") && !(len(a.Args) > 0 && a.Args[0].Op == "list") {
				continue // (an element of a literal argument list - a variadic helper called with the piece - does count)
			}
		}
		argSym := sy.InCtx(n.Ctx, argV)
		if isAccWrite[n] {
			// an element of a literal argument list stands for each listed value
			var alts []*core.Sym
			for _, alt := range argSym.DeepAlts(6) {
				alts = append(alts, alt)
			}
			argSym = &core.Sym{Op: "list", Args: alts}
		}
		for _, pc := range appendedPieces(&core.Sym{Op: "call", Name: "builtin.append", Args: []*core.Sym{{Op: "nil"}, argSym}}) {
			ps := pc.String()
			if ps != "$t.Name" && strings.Contains(ps, "$t.Name") && strings.Contains(ps, "ReplaceAllString") {
				fold = n
			}
		}
	}
	if fold == nil {
		obL.Fail(where, "no test of the prefix length with the prefix folded into the hash: a long process name yields a path segment over 255 bytes")
	} else {
		var maxLen int64
		okB := false
		var at *ssa.If
		for _, gd := range g.Guards(fold, sy) {
			if c, over, ok := gd.LenBound(); ok && over {
				maxLen, okB, at = c, true, gd.If
			}
		}
		hexLen := int64(40)
		if !okB {
			obL.Unknown(g.Where(fold), "the fold of the prefix into the hash is not guarded by a recognised length test (len(prefix) > T): "+core.GuardString(g.Guards(fold, sy)))
		} else if maxLen+1+hexLen > 255 {
			obL.Fail(e.where(at), fmt.Sprintf("a prefix of %d bytes is not folded into the hash: %d + 1 + %d = %d > 255 bytes, not a valid path segment", maxLen, maxLen, hexLen, maxLen+1+hexLen))
		} else {
			// fallback prefix
			alts := []string{}
			for _, fa := range fullAlts {
				ffl := fa.Flat()
				if len(ffl) == 2 && ffl[0].Op == "lit" && strings.HasSuffix(ffl[0].Lit, ".") {
					alts = append(alts, fmt.Sprintf("%q", strings.TrimSuffix(ffl[0].Lit, ".")))
				}
				ffl[0].Walk(func(z *core.Sym) bool {
					if z.Op == "phi" {
						for _, a := range z.Args {
							alts = append(alts, a.String())
						}
						return false
					}
					return true
				})
			}
			short := false
			for _, a := range alts {
				if strings.HasPrefix(a, "\"") && !strings.Contains(a, "+") && len(a) < 40 {
					short = true
				}
			}
			obL.Check(short, e.where(at), fmt.Sprintf("max unfolded prefix %d + 1 + 40 = %d <= 255; fallback prefix constant", maxLen, maxLen+41), "the fallback prefix after folding is not a short constant: "+strings.Join(alts, " | "))
		}
	}
	// sanitiser
	obZ := r.Ob("R4", "sanitiser:no-slash", "the process name is sanitised so that the result contains no '/' (a single path segment)")
	// every occurrence of the task name in the prefix lies inside a regexp ReplaceAllString call
	var pat, repl string
	var sanCall *core.Sym
	nameOutside := false
	var walk func(z *core.Sym, inside bool)
	walk = func(z *core.Sym, inside bool) {
		if z.Op == "call" && z.Name == "(*regexp.Regexp).ReplaceAllString" && len(z.Args) == 3 {
			sanCall = z
			inside = true
		}
		if z.Op == "field" && z.String() == "$t.Name" && !inside {
			nameOutside = true
		}
		for _, a := range z.Args {
			walk(a, inside)
		}
	}
	for _, fa := range fullAlts {
		ffl := fa.Flat()
		for _, part := range ffl[:max(0, len(ffl)-1)] {
			walk(part, false)
		}
	}
	// (an alternative whose readable part is a constant contains no name to sanitise)
	if sanCall == nil || nameOutside {
		obZ.Fail(where, "the process name enters the temp-dir prefix without passing through the sanitiser")
		return
	}
	sanCall.Args[0].Walk(func(z *core.Sym) bool {
		if z.Op == "call" && (z.Name == "regexp.MustCompile" || z.Name == "regexp.Compile") && len(z.Args) == 1 && z.Args[0].Op == "lit" {
			pat = z.Args[0].Lit
		}
		return true
	})
	if sanCall.Args[2].Op == "lit" {
		repl = sanCall.Args[2].Lit
	}
	sanWhere := where
	if sanCall.Val != nil {
		if in, ok := sanCall.Val.(ssa.Instruction); ok {
			sanWhere = e.where(in)
		}
	}
	re, err := regexp.Compile(pat)
	if pat == "" || err != nil {
		obZ.Unknown(sanWhere, "sanitiser pattern not a constant regular expression: "+sanCall.String())
		return
	}
	probe := "a/b\x00c d\\e..//f"
	out := re.ReplaceAllString(strings.ToLower(probe), repl)
	obZ.Check(!strings.Contains(out, "/") && !strings.Contains(repl, "/"), sanWhere, fmt.Sprintf("pattern %q replaces '/' (probe %q → %q)", pat, probe, out), fmt.Sprintf("the sanitiser pattern %q lets '/' through (probe → %q): the temp dir name is no longer a single path segment", pat, out))
}

func mentionsLen(bo *ssa.BinOp) bool {
	hit := false
	var rec func(v ssa.Value, d int)
	rec = func(v ssa.Value, d int) {
		if d > 3 {
			return
		}
		switch x := v.(type) {
		case *ssa.Call:
			if b, ok := x.Call.Value.(*ssa.Builtin); ok && b.Name() == "len" {
				hit = true
			}
		case *ssa.BinOp:
			rec(x.X, d+1)
			rec(x.Y, d+1)
		}
	}
	rec(bo, 0)
	return hit && (bo.Op == token.GTR || bo.Op == token.GEQ || bo.Op == token.LSS || bo.Op == token.LEQ)
}

// linear form a*len + b of an integer expression over len(x), constants, + and -, and encoding/hex.EncodedLen(const)
func linear(v ssa.Value) (a, b int64, ok bool) {
	switch x := v.(type) {
	case *ssa.Const:
		if x.Value != nil && x.Value.Kind() == constant.Int {
			return 0, x.Int64(), true
		}
	case *ssa.Call:
		if bi, isB := x.Call.Value.(*ssa.Builtin); isB && bi.Name() == "len" {
			return 1, 0, true
		}
		if f := x.Call.StaticCallee(); f != nil && f.String() == "encoding/hex.EncodedLen" {
			if _, c, ok := linear(x.Call.Args[0]); ok {
				return 0, 2 * c, true
			}
		}
	case *ssa.BinOp:
		a1, b1, ok1 := linear(x.X)
		a2, b2, ok2 := linear(x.Y)
		if ok1 && ok2 {
			switch x.Op {
			case token.ADD:
				return a1 + a2, b1 + b2, true
			case token.SUB:
				return a1 - a2, b1 - b2, true
			}
		}
	case *ssa.Convert:
		return linear(x.X)
	}
	return 0, 0, false
}

// maxLenWhenFalse: the largest len for which the folding condition is false (prefix kept).
func maxLenWhenFalse(bo *ssa.BinOp) (int64, bool) {
	a1, b1, ok1 := linear(bo.X)
	a2, b2, ok2 := linear(bo.Y)
	if !ok1 || !ok2 {
		return 0, false
	}
	// condition: a1*L + b1  OP  a2*L + b2   ⇔  (a1-a2)*L OP (b2-b1)
	a, c := a1-a2, b2-b1
	op := bo.Op
	if a < 0 {
		a, c = -a, -c
		switch op {
		case token.GTR:
			op = token.LSS
		case token.GEQ:
			op = token.LEQ
		case token.LSS:
			op = token.GTR
		case token.LEQ:
			op = token.GEQ
		}
	}
	if a != 1 {
		return 0, false
	}
	switch op {
	case token.GTR: // fold when L > c  → kept when L <= c
		return c, true
	case token.GEQ: // fold when L >= c → kept when L <= c-1
		return c - 1, true
	}
	return 0, false
}
