// Package rules holds the scipipe-specific rule instances, one file per property.
package rules

import (
	"fmt"
	"sort"

	"golang.org/x/tools/go/ssa"

	"scicheck/internal/core"
)

type Env struct {
	P     *core.Prog
	R     *core.Report
	Tier  string
	Verif string
	xgs   map[*ssa.Function]*core.XG
	anc   *anchors
	sym   *core.Symbolizer
	sp    *spine
	fmtc  *fmtInfo
	xs    *core.Symbolizer
	fs    *core.Symbolizer
	upds  []upd
}

var Registry = map[string]func(*Env){}

func All() []string {
	var ids []string
	for k := range Registry {
		ids = append(ids, k)
	}
	sort.Strings(ids)
	return ids
}

func NewEnv(p *core.Prog, r *core.Report, tier, verif string) *Env {
	return &Env{P: p, R: r, Tier: tier, Verif: verif, xgs: map[*ssa.Function]*core.XG{}}
}

// XG returns (and caches) the expanded CFG rooted at fn.
func (e *Env) XG(fn *ssa.Function) *core.XG {
	if g := e.xgs[fn]; g != nil {
		return g
	}
	g, err := e.P.BuildXG(fn, core.XGOpts{})
	if err != nil {
		e.R.Infra = append(e.R.Infra, fmt.Sprintf("expanded CFG of %s: %v", core.FuncName(fn), err))
		return nil
	}
	e.xgs[fn] = g
	return g
}

// Common fills the parts of the evidence shared by all properties.
func (e *Env) Common() {
	r := e.R
	r.Analysed["packages_loaded"] = e.P.NPkgs
	r.Analysed["library_packages"] = core.LibPkgs
	r.Analysed["library_functions_with_source"] = len(e.P.LibFuncs)
	r.Analysed["functions_in_program"] = len(e.P.AllFuncs)
	r.Analysed["callgraph_nodes_vta"] = len(e.P.VTA.Nodes)
	r.Analysed["no_return_functions"] = len(e.P.NoRet)
	xs := map[string]int{}
	for fn, g := range e.xgs {
		xs[core.FuncName(fn)] = len(g.Nodes)
	}
	r.Analysed["expanded_cfg_nodes"] = xs
	r.Trusted = append(r.Trusted,
		"go/packages + go/types (type-checked load of /repo's current working tree, all packages, no test files)",
		"go/ssa (SSA construction) and golang.org/x/tools callgraph CHA+VTA v0.29.0",
		"no-return seeds: os.Exit, log.Fatal*, (*log.Logger).Fatal*, log.Panic*, runtime.Goexit, panic",
		"stdlib models of DESIGN.md Appendix B (which stdlib calls are file-system effects, error predicates, pure string functions)")
	r.Assumptions = append(r.Assumptions,
		"Go channel, mutex and os.Rename semantics are as documented; user-supplied Go functions and custom WorkflowProcess implementations are outside the analysed code",
		"range loops terminate; a recursion is cut at the second occurrence of a function on the context chain")
	if len(e.P.LibFuncs) < 250 {
		r.Infra = append(r.Infra, fmt.Sprintf("only %d library functions loaded (expected > 250)", len(e.P.LibFuncs)))
	}
}

func (e *Env) where(in ssa.Instruction) string { return e.P.InstrPos(in) }
