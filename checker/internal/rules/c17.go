package rules

import (
	"fmt"
	"strconv"
	"strings"
	"syscall"

	"golang.org/x/tools/go/ssa"

	"scicheck/internal/core"
)

func init() { Registry["C17"] = c17 }

func c17(e *Env) {
	r := e.R
	r.Explanation = "Structural conditions of FIFO streaming: (R1) producer and consumer name the same pipe: the {os:} arm and the streaming {i:} arm of the command formatter both yield the parent-dir-prefixed FifoPath of the IP, and FifoPath is <Path>.fifo; (R2) in Process.Run, in the iteration that starts a task: an already existing FIFO is fatal before it is recreated (C03.R4); for every streaming output the FIFO is created and then the IP is sent downstream, and this loop over all outputs has completed before the task goroutine is started (so the pipe exists and the consumer holds the IP before the producer can open it); (R3) after the task is done the FIFO of every streaming output is removed (complete loop); (R4) with the streaming flag set, an output is exempt from the existence checks and the rename: the skip test never stats it, a missing temp file for it is not fatal, it is never renamed; with the flag false these tests apply (C01/C02); (R5) the consumer's audit record links the producer: Upstream is keyed by the in-IP's Path with that IP's record (C10.R1), and an IP that is sent downstream before its task completed must already carry the record (known finding K10: it does not)."
	r.NotDecided = "byte-exact and complete delivery through the pipe, absence of a regular file at the path (a command can do anything), and termination of a re-run of a completed streaming workflow: reading the code and an independent experiment both show that re-run HANGS on the pinned tree (the producer has no non-streaming output so it re-executes, the skipped consumer never opens the pipe; observation K5, DESIGN.md §8) - cross-process liveness that these rules do not decide. Also not decided: that the consumer's audit link is filled when the consumer finishes before the producer (schedule-dependent)."
	a := e.anchors()
	if !a.ok() {
		return
	}
	p := e.P
	fi := e.formatter()
	// ---- R1
	ob1 := r.Ob("R1", "formatter:os≡i-stream", "the producer's {os:} placeholder and the consumer's streaming {i:} placeholder resolve to the same pipe name: the ../-prefixed, modifier-processed FifoPath of the IP")
	if fi.ok(ob1) {
		mayO, mustO, nO := fi.armFacts(fi.arm("os", true, false))
		mayI, mustI, nI := fi.armFacts(fi.arm("i", true, false))
		same := (mustO&(fvFifo|fvMods) == mustI&(fvFifo|fvMods)) && (mayO&fvPrefix != 0) == (mayI&fvPrefix != 0)
		switch {
		case nO == 0 || nI == 0:
			ob1.Fail(fi.regexPos, "no substitution reachable for {os:} or for a streaming {i:}")
		case mustO&fvFifo == 0 || mustI&fvFifo == 0:
			ob1.Fail(fi.regexPos, "FifoPath is not certain on both sides: producer "+bitsStr(mustO)+", consumer "+bitsStr(mustI))
		case mayO&(fvTemp|fvPath) != 0 || mayI&fvTemp != 0:
			ob1.Fail(fi.regexPos, "another path function can be used: producer may "+bitsStr(mayO)+", consumer may "+bitsStr(mayI))
		case !same:
			ob1.Fail(fi.regexPos, "producer and consumer process the FIFO path differently: producer certain "+bitsStr(mustO)+" may "+bitsStr(mayO)+"; consumer certain "+bitsStr(mustI)+" may "+bitsStr(mayI))
		default:
			ob1.OK(fi.regexPos, "both sides: certain "+bitsStr(mustO)+", prefix available")
		}
	}
	ob1b := r.Ob("R1", "(*FileIP).FifoPath:template", "the pipe of an IP is <path>.fifo")
	if fp := p.Func("FileIP.FifoPath"); fp != nil {
		for _, b := range fp.Blocks {
			for _, in := range b.Instrs {
				if rt, ok := in.(*ssa.Return); ok {
					s := e.symbolizer().InFunc(fp, rt.Results[0])
					fl := s.Flat()
					ok := len(fl) == 2 && fl[1].Op == "lit" && fl[1].Lit == ".fifo" && (fl[0].Op == "field" || isCallSym(fl[0], fnPath))
					ob1b.Check(ok, e.where(rt), s.Template(), "FifoPath is "+s.Template())
				}
			}
		}
	} else {
		ob1b.Unknown("-", "FifoPath not found")
	}
	// ---- R2
	e.fifoLeftoverRule("R2")
	g := e.XG(a.procRun)
	if g == nil {
		return
	}
	ob2 := r.Ob("R2", "(*Process).Run:fifo+send≺go", "for every streaming output the FIFO is created and the IP sent downstream before the task goroutine starts")
	isCreateFifo := func(n *core.Node) bool {
		return n.Callee != nil && core.FuncName(n.Callee) == "(*FileIP).CreateFifo" && n.Kind != core.KAfter
	}
	isGoExec := func(n *core.Node) bool { return n.IsGo && n.Callee == a.execute }
	var streamSend []*core.Node
	for _, n := range g.Nodes {
		if n.Kind == core.KAfter {
			continue
		}
		if _, ok := isPortSend(n); ok && !strings.Contains(e.xargSym(n, 1).String(), "[0]") {
			streamSend = append(streamSend, n)
		}
	}
	creates := g.Select(isCreateFifo)
	if len(creates) == 0 || len(streamSend) == 0 {
		ob2.Fail(core.FuncName(a.procRun), "no CreateFifo / no send of a streaming out-IP in the arm that starts a task")
	} else {
		const (
			evCreate core.Bits = 1 << iota
			evLoopDone
		)
		exits := map[*core.Node]bool{}
		for _, n := range streamSend {
			ex, _ := loopExitNodes(g, n)
			for _, x := range ex {
				exits[x] = true
			}
		}
		isSel := func(n *core.Node) bool { _, ok := n.Instr.(*ssa.Select); return ok }
		must := g.Forward(func(n *core.Node) core.Transfer {
			if isSel(n) {
				return core.Transfer{Reset: true}
			}
			var b core.Bits
			if isCreateFifo(n) {
				b |= evCreate
			}
			if exits[n] {
				b |= evLoopDone
			}
			return core.Transfer{Gen: b}
		}, true)
		okAll := true
		for _, n := range streamSend {
			// within the loop iteration: create precedes send (reset at the loop header)
			head := loopHeadNext(g, n)
			mustIt := g.Forward(func(m *core.Node) core.Transfer {
				if m == head {
					return core.Transfer{Reset: true}
				}
				if isCreateFifo(m) {
					return core.Transfer{Gen: evCreate}
				}
				return core.Transfer{}
			}, true)
			if mustIt[n]&evCreate == 0 {
				okAll = false
				ob2.Fail(g.Where(n), "the streaming out-IP is sent downstream before its FIFO is created: the consumer may open a path that does not exist yet")
			}
			if !e.forAllOutputs(ob2, g, n, func(m *core.Node) bool { return m == n }, core.Scenario{FieldLoad: e.assumeStream(true), CallResult: func(m *core.Node) (core.AV, bool) {
				if isStat(m) {
					return core.TupleAV(core.Top, core.NonNilAV(core.ErrNotExist)), true
				}
				return core.Top, false
			}}, "creation and forwarding of the FIFOs") {
				okAll = false
			}
		}
		gos := g.Select(isGoExec)
		if len(gos) == 0 {
			okAll = false
			ob2.Fail(core.FuncName(a.procRun), "no `go Task.Execute` in Process.Run")
		}
		for _, n := range gos {
			if must[n]&evLoopDone == 0 && !exits[n] {
				okAll = false
				ob2.Fail(g.Where(n), "the task goroutine can start before the FIFOs of all streaming outputs are created and forwarded: the producer may block on a pipe nobody will ever open, or write a regular file")
			}
		}
		if okAll {
			ob2.OK(g.Where(streamSend[0]), "CreateFifo ≺ Send per streaming output; loop over all outputs completed ≺ go Execute")
		}
	}
	// ---- R2b the directory of the pipe exists before mkfifo
	e.c17FifoDir()
	// ---- R5 (first half) the producer's record travels with the IP
	e.recordBeforePublish("R5")
	// ---- R3
	e.fifoRemovedRule("R3")
	// ---- R6 a skipped consumer still opens its streaming inputs (re-run terminates)
	e.c17DrainOnSkip("R6")
	// ---- R4 exemptions in Execute
	sp := e.spine()
	if sp == nil {
		return
	}
	gx := sp.g
	streamOn := core.Scenario{Start: gx.Entry, FieldLoad: e.assumeStream(true)}
	res := gx.Run(streamOn)
	ob4a := r.Ob("R4", "Execute:skip-test×stream", "the skip test never looks at a streaming output")
	statOfPath := func(n *core.Node) bool {
		if !isStat(n) {
			return false
		}
		s := e.argSym(n, 0)
		return overField(s, ".OutIPs") && (isCallSym(s, fnPath) || strings.Contains(s.String(), fnPath+"(")) && !symHasCall(s, fnTempDir)
	}
	if w := res.Reaches(statOfPath); w != nil {
		ob4a.Fail(gx.Where(w), "with the streaming flag set, the final path of the output is still tested for existence before execution: a stale regular file at that path makes the producer be skipped while its FIFO was already handed to the consumer")
	} else {
		ob4a.OK(core.FuncName(a.execute), "no os.Stat(Path(out)) reachable with the streaming flag set")
	}
	ob4b := r.Ob("R4", "Execute:ensure×stream", "a streaming output that is (naturally) missing in the temp dir is not fatal")
	for _, n := range sp.ensureStat {
		if res.Reaches(func(m *core.Node) bool { return m == n }) == nil {
			ob4b.OK(gx.Where(n), "the existence test is not reached for a streaming output")
			continue
		}
		r2 := gx.Run(core.Scenario{Start: n, Result: errResult(n, core.ErrNotExist, false), FieldLoad: e.assumeStream(true)})
		ob4b.Check(r2.NormalReturn() != nil, gx.Where(n), "ENOENT on a streaming output ⇒ Execute still completes", "a streaming output missing in the temp dir stops the workflow, although it never exists there")
	}
	if len(sp.ensureStat) == 0 {
		ob4b.Unknown("-", "no existence test found")
	}
	ob4c := r.Ob("R4", "finalize:rename×stream", "a streaming output is never renamed")
	declared := nodeSet(sp.declRename)
	if w := res.Reaches(func(n *core.Node) bool { return declared[n] }); w != nil {
		ob4c.Fail(gx.Where(w), "with the streaming flag set the output is still renamed from the temp dir (where it never exists)")
	} else {
		ob4c.OK(core.FuncName(a.finalize), "declared-output rename unreachable with the streaming flag set")
	}
	// ---- R5 shared
	e.upstreamRule("R5")
}

// fifoRemovedRule: after a task is done the FIFO of every streaming output is removed (C17.R3, C05.R7).
func (e *Env) fifoRemovedRule(rule string) {
	r := e.R
	a := e.anchors()
	p := e.P
	g := e.XG(a.procRun)
	if g == nil {
		return
	}
	ob3 := r.Ob(rule, "(*Process).Run:fifo-removed", "after a task is done the FIFO of every streaming output is removed")
	n3 := 0
	for _, n := range g.Select(isRemove) {
		s := e.argSym(n, 0)
		if !isCallSym(s, fnFifoPath) {
			continue
		}
		n3++
		// lift to the root context if the removal sits in a helper
		top := n
		for top.Ctx != g.Root && top.Ctx.CallNode != nil {
			top = top.Ctx.CallNode
		}
		sc := core.Scenario{FieldLoad: e.assumeStream(true), CallResult: func(m *core.Node) (core.AV, bool) {
			if isStat(m) {
				// the pipe exists - and nothing else does: a streaming output has no file at its path and none in the
				// temp dir, so a guard that looks at the wrong path (Exists / TempFileExists) does not let the removal happen
				if isCallSym(e.xargSym(m, 0), fnFifoPath) {
					return core.TupleAV(core.Top, core.NilAV()), true
				}
				return core.TupleAV(core.Top, core.NonNilAV(core.ErrNotExist)), true
			}
			return core.Top, false
		}}
		okN := true
		// every loop around the removal (in its own function and in the callers up to Process.Run) must be complete
		nRange := 0
		for x := n; ; x = x.Ctx.CallNode {
			for _, l := range core.ExitBlockOf(x.Instr) {
				if kind, _ := core.HeaderTest(l); kind == "range" {
					okN = false
					ob3.Fail(g.Where(n), "the removal sits on the way out of the loop over the outputs (the loop is left with the first FIFO removed): the FIFOs of the task's other streaming outputs stay behind")
				}
			}
			for _, l := range core.LoopsOf(x.Instr) {
				if kind, _ := core.HeaderTest(l); kind == "range" {
					nRange++
				}
				if kind, _ := core.HeaderTest(l); kind != "range" {
					continue
				}
				if ex := p.EarlyExits(l); len(ex) > 0 {
					okN = false
					ob3.Fail(g.Where(n), "the loop removing the FIFOs can be left after the first one: "+ex[0])
				}
			}
			if x.Ctx == g.Root || x.Ctx.CallNode == nil {
				break
			}
		}
		if okN && nRange == 0 {
			okN = false
			ob3.Fail(g.Where(n), "the FIFO removal is not inside a loop over the task's outputs")
		}
		if okN && n.Ctx == g.Root {
			okN = e.forAllOutputs(ob3, g, n, func(m *core.Node) bool { return m == n }, sc, "FIFO removal")
		}
		if okN {
			ob3.OK(g.Where(n), "os.Remove("+trunc(s.Template(), 80)+") for every streaming output")
		}
	}
	if n3 == 0 {
		ob3.Fail(core.FuncName(a.procRun), "the FIFO of a streaming output is never removed")
	}
}

// c17FifoDir: when the IP streams, the directory that is created before the pipe is made is the pipe's own
// directory (Dir(FifoPath)): the FIFO lives at its final place, not below the task's temp dir, so creating
// Dir(TempPath) instead makes mkfifo fail for an output whose directory does not exist yet (and leaves stray
// __parent__/__fsroot__ directories behind).
func (e *Env) c17FifoDir() {
	r := e.R
	p := e.P
	ob := r.Ob("R2", "CreateFifo:MkdirAll(Dir(FifoPath))≺mkfifo", "before the pipe of a streaming IP is created, the directory of its FIFO path has been created on all paths")
	cf := p.Func("FileIP.CreateFifo")
	if cf == nil {
		ob.Unknown("-", "(*FileIP).CreateFifo not found")
		return
	}
	g := e.XG(cf)
	if g == nil {
		return
	}
	fsy := e.fsym()
	const (
		evCalc core.Bits = 1 << iota
		evDir
	)
	isFifoDirSym := func(z *core.Sym) bool {
		hit := false
		z.Walk(func(w *core.Sym) bool {
			if w.Op == "call" && w.Name == "path/filepath.Dir" && len(w.Args) == 1 && strings.Contains(w.Args[0].String(), fnFifoPath+"(") {
				hit = true
			}
			return !hit
		})
		return hit
	}
	isCalc := func(n *core.Node) bool {
		return n.Kind != core.KAfter && n.IsCallTo("path/filepath.Dir") && strings.Contains(fsy.InCtx(n.Ctx, n.Call.Args[0]).String(), fnFifoPath+"(")
	}
	isDir := func(n *core.Node) bool {
		return n.Kind != core.KAfter && n.IsCallTo("os.MkdirAll", "os.Mkdir") && isFifoDirSym(fsy.InCtx(n.Ctx, n.Call.Args[0]))
	}
	isMkfifo := func(n *core.Node) bool {
		if n.Kind == core.KAfter || n.Call == nil {
			return false
		}
		if n.IsCallTo("syscall.Mkfifo", "golang.org/x/sys/unix.Mkfifo") {
			return true
		}
		if !n.IsCallTo("os/exec.Command") {
			return false
		}
		for _, a := range n.Call.Args {
			if strings.Contains(fsy.InCtx(n.Ctx, a).String(), "mkfifo") {
				return true
			}
		}
		return false
	}
	mks := g.Select(isMkfifo)
	if len(mks) == 0 {
		ob.Unknown(core.FuncName(cf), "no mkfifo command / syscall found in CreateFifo's call tree")
		return
	}
	res := g.Run(core.Scenario{Start: g.Entry, AtEntry: true, FieldLoad: e.assumeStream(true)})
	must := res.Must(func(n *core.Node) core.Transfer {
		switch {
		case isCalc(n):
			return core.Transfer{Gen: evCalc}
		case isDir(n):
			return core.Transfer{Gen: evDir}
		}
		return core.Transfer{}
	})
	for _, m := range mks {
		if res.Reaches(func(x *core.Node) bool { return x == m }) == nil {
			continue
		}
		okM := must[m]&evDir != 0 && must[m]&evCalc != 0
		ob.Check(okM, g.Where(m), "Dir(FifoPath) computed and created before mkfifo (streaming flag set)", "with the streaming flag set, mkfifo can be reached without the directory of the FIFO path having been created (the directory created is that of the temp path): for a streaming output in a not yet existing directory, or with ../ or an absolute path, the pipe cannot be made")
	}
	if ob.Sites == 0 {
		ob.Unknown(core.FuncName(cf), "mkfifo not reachable with the streaming flag set")
	}
	// the pipe is really made, at its own path: when the existence test of the FIFO path says "absent" the mkfifo command
	// is issued and executed before CreateFifo returns, and the command names FifoPath
	obM := r.Ob("R2", "CreateFifo:absent⇒mkfifo(FifoPath)", "when no pipe exists at FifoPath, CreateFifo executes mkfifo for exactly that path before it returns (a regular file would silently take the pipe's place)")
	isExecRun := func(n *core.Node) bool {
		return n.Kind != core.KAfter && n.IsCallTo("(*os/exec.Cmd).Output", "(*os/exec.Cmd).Run", "(*os/exec.Cmd).CombinedOutput", "syscall.Mkfifo", "golang.org/x/sys/unix.Mkfifo")
	}
	nSt := 0
	for _, st := range g.Select(isStat) {
		if !isCallSym(fsy.InCtx(st.Ctx, st.Call.Args[0]), fnFifoPath) {
			continue
		}
		nSt++
		absent := g.Run(core.Scenario{Start: st, Result: errResult(st, core.ErrNotExist, false), FieldLoad: e.assumeStream(true)})
		isRet := func(m *core.Node) bool { return m.Kind == core.KRootRet }
		switch {
		case absent.ReachesAvoiding(isRet, isMkfifo) != nil || absent.ReachesAvoiding(isRet, isExecRun) != nil:
			obM.Fail(g.Where(st), "with no pipe at the FIFO path CreateFifo can return without having run mkfifo (the existence test has the wrong polarity, or the command is only built): the producer's `> x.fifo` then creates a regular file")
		default:
			obM.OK(g.Where(st), "ENOENT ⇒ mkfifo issued and executed")
		}
	}
	if nSt == 0 {
		// no existence test: mkfifo must be unconditional
		entry := g.Run(core.Scenario{Start: g.Entry, AtEntry: true, FieldLoad: e.assumeStream(true)})
		if entry.ReachesAvoiding(func(m *core.Node) bool { return m.Kind == core.KRootRet }, isMkfifo) != nil {
			obM.Fail(core.FuncName(cf), "CreateFifo can return without mkfifo")
		} else {
			obM.OK(core.FuncName(cf), "mkfifo on every path")
		}
	}
	for _, m := range mks {
		okPath := false
		for _, a := range m.Call.Args {
			if strings.Contains(fsy.InCtx(m.Ctx, a).String(), fnFifoPath+"(") {
				okPath = true
			}
		}
		obM.Check(okPath, g.Where(m), "mkfifo <FifoPath>", "the mkfifo command does not name FileIP.FifoPath: the pipe is made somewhere else than where producer and consumer look for it")
	}
}

// recordBeforePublish (C17.R5, shared as C10.R6): an out-IP that Process.Run hands downstream while its task has
// not completed (a streaming output: sent before the task goroutine is even started) must already carry the
// task's audit record - consumers read FileIP.AuditInfo() of their inputs when THEY finish, which may be earlier
// than the producer. IPs of completed tasks (sent after the task's Done) carry it by C05.R4 / C10.R2.
func (e *Env) recordBeforePublish(rule string) {
	r := e.R
	a := e.anchors()
	ob := r.Ob(rule, "(*Process).Run:record-attached≺publish(stream)", "an out-IP that is sent downstream before its task has completed already carries the task's audit record (SetAuditInfo precedes the send in the same iteration)")
	if !a.ok() {
		return
	}
	g := e.XG(a.procRun)
	if g == nil {
		return
	}
	isSet := func(n *core.Node) bool {
		return n.Callee != nil && core.FuncName(n.Callee) == "(*FileIP).SetAuditInfo" && n.Kind != core.KAfter
	}
	n0 := 0
	for _, n := range g.Nodes {
		if n.Kind == core.KAfter {
			continue
		}
		if _, ok := isPortSend(n); !ok || strings.Contains(e.xargSym(n, 1).String(), "[0]") {
			continue // not a send, or a send of the completed queue head's IP
		}
		n0++
		head := loopHeadNext(g, n)
		must := g.Forward(func(m *core.Node) core.Transfer {
			if m == head {
				return core.Transfer{Reset: true}
			}
			if isSet(m) {
				return core.Transfer{Gen: 1}
			}
			return core.Transfer{}
		}, true)
		ob.Check(must[n]&1 != 0, g.Where(n), "SetAuditInfo precedes the early send", "the streaming out-IP "+trunc(e.xargSym(n, 1).String(), 80)+" is sent downstream before the task has run and without an audit record attached: a consumer that finishes before the producer links an empty record as its upstream")
	}
	if n0 == 0 {
		ob.OK(core.FuncName(a.procRun), "no out-IP is sent before its task has completed")
	}
}

// c17DrainOnSkip (C17.R6): "re-running the workflow after it completed terminates". The producer of a streaming
// output is never skipped (a FIFO is not an existing output) and blocks opening its pipe for writing until somebody
// opens the other end. A consumer that is skipped because its outputs exist therefore still has to open, for
// reading, the FIFO of every streaming in-IP (itself or in a goroutine it starts); and that open must not be able
// to block forever itself (a producer that also has ordinary outputs IS skipped and never opens its end).
// Decided on Task.Execute's expanded CFG with goroutine bodies expanded at their go statements.
func (e *Env) c17DrainOnSkip(rule string) {
	r := e.R
	a := e.anchors()
	ob := r.Ob(rule, "Execute:skip⇒drain-stream-inputs", "a task skipped because its outputs exist still opens the FIFO of every streaming in-IP for reading, so that the (never skipped) producer is not left blocking on its pipe forever")
	obNB := r.Ob(rule, "Execute:drain-open-cannot-block", "the draining open does not wait for a writer (a producer that also has ordinary outputs is skipped itself and never opens its end)")
	g, err := e.P.BuildXG(a.execute, core.XGOpts{InlineGo: true})
	if err != nil || g == nil {
		ob.Unknown(core.FuncName(a.execute), "expanded CFG with goroutine bodies could not be built")
		return
	}
	isSkipStat := func(n *core.Node) bool {
		if !isStat(n) {
			return false
		}
		s := e.xargSym(n, 0)
		return isCallSym(s, fnPath) && overField(s, ".OutIPs")
	}
	isOpen := func(n *core.Node) bool {
		if !n.IsCallTo("os.Open", "os.OpenFile") {
			return false
		}
		s := e.xargSym(n, 0)
		return isCallSym(s, fnFifoPath) && overField(s, ".InIPs")
	}
	stats := g.Select(isSkipStat)
	if len(stats) == 0 {
		ob.Unknown(core.FuncName(a.execute), "skip test not found")
		return
	}
	opens := g.Select(isOpen)
	if len(opens) == 0 {
		ob.Fail(core.FuncName(a.execute), "nothing in Execute's call tree (goroutines included) opens FifoPath of the elements of Task.InIPs: a skipped consumer never opens the pipe, and the producer - which is never skipped - blocks forever when a completed workflow is run again")
		return
	}
	isRet := func(m *core.Node) bool { return m.Kind == core.KRootRet }
	for _, n := range stats {
		res := g.Run(core.Scenario{Start: n, Result: errResult(n, core.ErrAny, true)})
		if res.NormalReturn() == nil {
			continue // decided by C02.R2
		}
		// (1) the loop over the in-IPs is entered on every skipping path
		var loop core.LoopAt
		found := false
		for _, o := range opens {
			if la, ok := e.loopOver(g, o, ".InIPs"); ok {
				loop, found = la, true
				break
			}
		}
		if !found {
			ob.Fail(g.Where(opens[0]), "the FIFO open is not inside a loop over Task.InIPs")
			continue
		}
		test, _, okT := g.LoopTest(loop)
		if !okT {
			ob.Unknown(g.Where(opens[0]), "loop over the in-IPs: continuation test not recognised")
			continue
		}
		isTest := func(m *core.Node) bool { return m == test }
		missed := res.ReachesAvoiding(isRet, isTest) != nil
		if missed {
			// the decision to skip may rest on state built up before this stat (a list / counter of existing outputs):
			// explore from Execute's entry, marking the stat as "returned a nil error at some point" (as C02.R2 does)
			rm := g.Run(core.Scenario{Start: g.Entry, AtEntry: true, Marker: n, MarkerResult: errResult(n, core.ErrAny, true)})
			if rm.ReachesAfterMarker(isRet) != nil && rm.ReachesAvoidingAfterMarker(isRet, isTest) == nil {
				missed = false
			}
		}
		if missed {
			ob.Fail(g.Where(n), "with an existing output, Execute can return without looking at the task's streaming in-IPs (the never-skipped producer blocks forever on its pipe when a completed workflow is run again)")
			continue
		}
		// (2) every iteration opens the pipe (streaming flag set), and the loop is not left early
		if !e.forAllIn(ob, g, loop, opens[0], isOpen, core.Scenario{FieldLoad: e.assumeStream(true)}, "draining the streaming in-IPs of a skipped task") {
			continue
		}
		ob.OK(g.Where(n), "exists ⇒ for every streaming in-IP: "+nodeDesc(opens[0])+" ("+trunc(e.xargSym(opens[0], 0).Template(), 60)+")")
	}
	// (4) what happens after the open, by scenario on the pipe's fate: the draining part of Execute (goroutine bodies
	// expanded in place) under "open succeeded" must (a) not end while the pipe still exists - the producer may not even
	// have opened its end yet, and closing the read end then makes it block forever -, (b) end normally once the pipe is
	// gone, without a fatal call; an open that finds the pipe already removed (ENOENT) is not an error either; (c) a
	// WaitGroup that the drainers are counted with is incremented once per drainer, decremented on every path of a
	// drainer, and waited for before Execute signals Done.
	obL := r.Ob(rule, "Execute:drain-until-pipe-removed", "a drainer keeps the pipe open while it exists, ends normally when the producing process has removed it, treats an already removed pipe as done, and the drainers are awaited")
	{
		isFifoStat := func(m *core.Node) bool {
			if !isStat(m) {
				return false
			}
			return isCallSym(e.xargSym(m, 0), fnFifoPath)
		}
		mk := func(openErr core.AV, pipeExists bool) core.Scenario {
			return core.Scenario{FieldLoad: e.assumeStream(true), CallResult: func(m *core.Node) (core.AV, bool) {
				switch {
				case isOpen(m):
					return core.TupleAV(core.Top, openErr), true
				case isFifoStat(m):
					if pipeExists {
						return core.TupleAV(core.Top, core.NilAV()), true
					}
					return core.TupleAV(core.Top, core.NonNilAV(core.ErrNotExist)), true
				}
				return core.Top, false
			}}
		}
		okL := true
		for _, o := range opens {
			if o.Kind == core.KAfter {
				continue
			}
			run := func(sc core.Scenario) *core.ScnResult {
				sc.Start, sc.Result = o, core.TupleAV(core.Top, core.NilAV())
				return g.Run(sc)
			}
			// (a) pipe exists for ever: the drainer never finishes, so Execute cannot return
			sa := mk(core.NilAV(), true)
			if w := run(sa).NormalReturn(); w != nil {
				okL = false
				obL.Fail(g.Where(o), "after a successful open Execute can return although the pipe still exists: the drainer gives up (and closes its end) before the producing process has removed the pipe - a producer that has not opened its end yet then blocks forever")
			}
			// (b) pipe gone: ends normally
			sb := mk(core.NilAV(), false)
			rb := run(sb)
			if rb.NormalReturn() == nil {
				okL = false
				obL.Fail(g.Where(o), "after a successful open Execute never returns normally even when the pipe has been removed (a fatal call or an endless loop on the success path)")
			}
			// ENOENT at the open: not an error
			sc := mk(core.NonNilAV(core.ErrNotExist), false)
			sc.Start, sc.Result = o, core.TupleAV(core.Top, core.NonNilAV(core.ErrNotExist))
			if g.Run(sc).NormalReturn() == nil {
				okL = false
				obL.Fail(g.Where(o), "a pipe that the producing process has already removed (ENOENT at the open) stops the workflow: the producer was skipped or is done, there is nothing to drain")
			}
		}
		// (c) WaitGroup pairing around the drainers
		var gos []*core.Node
		for _, n := range g.Nodes {
			if n.IsGo && n.Kind == core.KCall && n.Inl != nil {
				for _, o := range opens {
					for c := o.Ctx; c != nil; c = c.Parent {
						if c == n.Inl {
							gos = append(gos, n)
						}
					}
				}
			}
		}
		isAdd := func(m *core.Node) bool { return m.IsCallTo("(*sync.WaitGroup).Add") && m.Kind != core.KAfter }
		isDone := func(m *core.Node) bool { return m.IsCallTo("(*sync.WaitGroup).Done") && m.Kind != core.KAfter }
		isWait := func(m *core.Node) bool { return m.IsCallTo("(*sync.WaitGroup).Wait") && m.Kind != core.KAfter }
		if len(g.Select(isAdd))+len(g.Select(isDone))+len(g.Select(isWait)) > 0 {
			must := g.Forward(func(n *core.Node) core.Transfer {
				switch {
				case isAdd(n):
					return core.Transfer{Gen: 1}
				case n.IsGo && n.Kind == core.KCall:
					return core.Transfer{Kill: 1}
				}
				return core.Transfer{}
			}, true)
			for _, gn := range gos {
				if must[gn]&1 == 0 {
					okL = false
					obL.Fail(g.Where(gn), "a drainer goroutine is started without a WaitGroup.Add since the previous one: Done then drives the counter negative (panic) or Wait returns too early")
				}
				// Done on every path of the drainer, whatever happens to the pipe
				body := g.FirstNodeOf(gn.Inl, gn.Inl.Fn.Blocks[0])
				if body != nil {
					sc := mk(core.Top, false)
					sc.Start, sc.AtEntry = body, true
					endOfBody := func(m *core.Node) bool { return m.Kind == core.KRet && m.Ctx == gn.Inl }
					if g.Run(sc).ReachesAvoiding(endOfBody, isDone) != nil {
						okL = false
						obL.Fail(g.Where(gn), "a drainer can finish without WaitGroup.Done: the skipped task then waits forever")
					}
				}
				sc := mk(core.NilAV(), false)
				sc.Start, sc.AtEntry = gn, true
				isRetOrDone := func(m *core.Node) bool { return m.Kind == core.KRootRet || a.isDoneSend(m) }
				if g.Run(sc).ReachesAvoiding(isRetOrDone, func(m *core.Node) bool { return isWait(m) && m.Ctx != gn.Inl }) != nil {
					// without InlineGo semantics the goroutine's end does not order anything: only Wait does
					okL = false
					obL.Fail(g.Where(gn), "Execute can signal Done / return without waiting for the drainers it started")
				}
			}
		}
		// (d) one drainer per pipe, concurrently: in Execute's own (synchronous) flow no pipe is opened - a drainer
		// stays as long as its pipe exists, so a second pipe would never be opened while the first producer is still busy
		if g0 := e.XG(a.execute); g0 != nil {
			for _, n := range g0.Select(isOpen) {
				okL = false
				obL.Fail(g0.Where(n), "the pipes of a task with several streaming inputs are drained one after the other in Execute's own flow: the first drainer does not end while its pipe exists, so the next pipe is not opened - a producer that writes several streams (`tee {os:a} > {os:b}`) blocks forever on the one that is not open yet")
				break
			}
		}
		if okL {
			obL.OK(core.FuncName(a.execute), "pipe exists ⇒ drainer stays; pipe removed ⇒ normal end; ENOENT at open ⇒ nothing to do; one concurrent drainer per pipe, counted and awaited")
		}
	}
	// (3) the open cannot block
	for _, o := range opens {
		if o.IsCallTo("os.Open") {
			obNB.Fail(g.Where(o), "os.Open of a FIFO waits until a writer opens it: when the producer is skipped as well (it has an ordinary output that exists) nobody ever does, and the skipped consumer hangs - or fails, when the producer's process has already removed the pipe")
			continue
		}
		fl := e.xargSym(o, 1)
		v, isInt := symInt(fl)
		switch {
		case !isInt:
			obNB.Unknown(g.Where(o), "open flags are not a constant: "+fl.String())
		case v&int64(syscall.O_NONBLOCK) != 0 || v&int64(syscall.O_RDWR) != 0:
			obNB.OK(g.Where(o), fmt.Sprintf("flags %#x: O_NONBLOCK or O_RDWR, the open returns without a writer", v))
		default:
			obNB.Fail(g.Where(o), fmt.Sprintf("flags %#x: a blocking read-only open of a FIFO waits for a writer that never comes when the producer is skipped as well", v))
		}
	}
}

// symInt: the value of a constant integer expression (binary | of constants is folded by the compiler already).
func symInt(s *core.Sym) (int64, bool) {
	if s == nil || s.Op != "int" {
		return 0, false
	}
	v, err := strconv.ParseInt(s.Lit, 10, 64)
	return v, err == nil
}
