package rules

import (
	"go/token"
	"go/types"
	"strings"
	"syscall"

	"golang.org/x/tools/go/ssa"

	"scicheck/internal/core"
)

// ----------------------------------------------------------------------------
// Anchors: roles resolved to program objects (DESIGN.md §4).  Exported API names
// first, stdlib objects second, structure third; never text, positions or locals.
// ----------------------------------------------------------------------------

type anchors struct {
	e *Env

	execute  *ssa.Function // (*Task).Execute
	procRun  *ssa.Function // (*Process).Run
	newTask  *ssa.Function
	finalize *ssa.Function // FinalizePaths

	slotField  *types.Var // Workflow's unique channel-typed field
	slotMutex  *types.Var
	doneField  *types.Var // Task.Done
	customFld  *types.Var // Task.CustomExecute
	streamFld  *types.Var // FileIP's streaming flag
	outIPsFld  *types.Var
	inIPsFld   *types.Var
	commandFld *types.Var
	acquire    []*ssa.Function
	release    []*ssa.Function
	problems   []string
	mxCands    []*types.Var
}

func (e *Env) anchors() *anchors {
	if e.anc != nil {
		return e.anc
	}
	a := &anchors{e: e}
	e.anc = a
	p := e.P
	a.execute = p.Func("Task.Execute")
	a.procRun = p.DeclaredMethod("scipipe", "Process", "Run")
	a.newTask = p.Func("NewTask")
	a.finalize = p.Func("FinalizePaths")
	need := func(ok bool, what string) {
		if !ok {
			a.problems = append(a.problems, what)
		}
	}
	need(a.execute != nil, "(*Task).Execute")
	need(a.procRun != nil, "(*Process).Run")
	need(a.newTask != nil, "NewTask")
	need(a.finalize != nil, "FinalizePaths")
	a.doneField = p.FieldVar("scipipe", "Task", "Done")
	a.customFld = p.FieldVar("scipipe", "Task", "CustomExecute")
	a.outIPsFld = p.FieldVar("scipipe", "Task", "OutIPs")
	a.inIPsFld = p.FieldVar("scipipe", "Task", "InIPs")
	a.commandFld = p.FieldVar("scipipe", "Task", "Command")
	need(a.doneField != nil, "Task.Done")
	need(a.customFld != nil, "Task.CustomExecute")
	need(a.outIPsFld != nil, "Task.OutIPs")
	need(a.inIPsFld != nil, "Task.InIPs")
	need(a.commandFld != nil, "Task.Command")
	// slot channel: the unique channel-typed field of Workflow; slot mutex: its sync.Mutex field
	if wf := p.Named("scipipe", "Workflow"); wf != nil {
		if st, ok := wf.Underlying().(*types.Struct); ok {
			var chans, mxs []*types.Var
			// the fields of Workflow itself and of the module's struct types it embeds or holds (a slot pool factored
			// out into a type of its own is still "the workflow's slot channel")
			var scan func(st *types.Struct, depth int)
			seenT := map[*types.Struct]bool{}
			scan = func(st *types.Struct, depth int) {
				if seenT[st] || depth > 2 {
					return
				}
				seenT[st] = true
				for i := 0; i < st.NumFields(); i++ {
					f := st.Field(i)
					if _, ok := f.Type().Underlying().(*types.Chan); ok {
						chans = append(chans, f)
					}
					if f.Type().String() == "sync.Mutex" || f.Type().String() == "*sync.Mutex" {
						mxs = append(mxs, f)
					}
					ft := f.Type()
					if pt, ok := ft.Underlying().(*types.Pointer); ok {
						ft = pt.Elem()
					}
					if nt, ok := ft.(*types.Named); ok && nt.Obj().Pkg() != nil && nt.Obj().Pkg().Path() == core.LibPkgs[0] && nt.Obj().Name() != "Sink" && !types.Implements(types.NewPointer(nt), wfProcIface(p)) {
						if sub, ok := nt.Underlying().(*types.Struct); ok {
							scan(sub, depth+1)
						}
					}
				}
			}
			scan(st, 0)
			for i := 0; i < 0; i++ {
				f := st.Field(i)
				if _, ok := f.Type().Underlying().(*types.Chan); ok {
					chans = append(chans, f)
				}
				if f.Type().String() == "sync.Mutex" || f.Type().String() == "*sync.Mutex" {
					mxs = append(mxs, f)
				}
			}
			if len(chans) == 1 {
				a.slotField = chans[0]
			}
			if len(mxs) == 1 {
				a.slotMutex = mxs[0]
			}
			a.mxCands = mxs
		}
	}
	need(a.slotField != nil, "slot channel (unique chan field of Workflow)")

	// streaming flag: the only bool field of FileIP
	if ip := p.Named("scipipe", "FileIP"); ip != nil {
		if st, ok := ip.Underlying().(*types.Struct); ok {
			var bools []*types.Var
			for i := 0; i < st.NumFields(); i++ {
				if b, ok := st.Field(i).Type().Underlying().(*types.Basic); ok && b.Kind() == types.Bool {
					bools = append(bools, st.Field(i))
				}
			}
			if len(bools) == 1 {
				a.streamFld = bools[0]
			} else if len(bools) > 1 {
				// several flags: the streaming flag is the one that decides whether Process.Run creates a FIFO
				a.streamFld = a.e.flagGuardingFifo(bools)
			}
		}
	}
	need(a.streamFld != nil, "streaming flag (unique bool field of FileIP)")
	// acquire / release: the exported Workflow methods whose call tree contains the sends / receives on the
	// slot channel (exported API first); fall back to the functions that contain them.
	if a.slotField != nil {
		for _, cand := range []struct {
			name string
			dst  *[]*ssa.Function
			send bool
		}{{"IncConcurrentTasks", &a.acquire, true}, {"DecConcurrentTasks", &a.release, false}} {
			fn := p.DeclaredMethod("scipipe", "Workflow", cand.name)
			if fn == nil {
				continue
			}
			for f := range p.Reachable(fn) {
				if !p.IsLib(f) || f.Blocks == nil {
					continue
				}
				for _, b := range f.Blocks {
					for _, in := range b.Instrs {
						switch x := in.(type) {
						case *ssa.Send:
							if cand.send && a.isFieldLoad(x.Chan, a.slotField) && len(*cand.dst) == 0 {
								*cand.dst = append(*cand.dst, fn)
							}
						case *ssa.UnOp:
							if !cand.send && x.Op == token.ARROW && a.isFieldLoad(x.X, a.slotField) && len(*cand.dst) == 0 {
								*cand.dst = append(*cand.dst, fn)
							}
						}
					}
				}
			}
		}
	}
	if a.slotField != nil && (len(a.acquire) == 0 || len(a.release) == 0) {
		a.acquire, a.release = nil, nil
		seenA, seenR := map[*ssa.Function]bool{}, map[*ssa.Function]bool{}
		for _, fn := range p.LibFuncs {
			for _, b := range fn.Blocks {
				for _, in := range b.Instrs {
					switch x := in.(type) {
					case *ssa.Send:
						if a.isFieldLoad(x.Chan, a.slotField) && !seenA[fn] {
							seenA[fn] = true
							a.acquire = append(a.acquire, fn)
						}
					case *ssa.UnOp:
						if x.Op == token.ARROW && a.isFieldLoad(x.X, a.slotField) && !seenR[fn] {
							seenR[fn] = true
							a.release = append(a.release, fn)
						}
					}
				}
			}
		}
	}
	// acquire / release by role: in Task.Execute's expanded call tree, the deepest function whose sub-tree holds
	// every slot send together with every Lock of a candidate slot mutex (resp. every slot receive). This is the
	// exported API on the pinned tree, a helper of a factored-out slot type after a refactoring, and stays the
	// function that owns the token loop when single sends are extracted into helpers.
	if a.slotField != nil && a.execute != nil {
		if g := a.e.XG(a.execute); g != nil {
			lca := func(pred func(n *core.Node) bool) *ssa.Function {
				var common []*core.Ctx
				first := true
				for _, n := range g.Nodes {
					if n.Kind == core.KAfter || !pred(n) {
						continue
					}
					// a token operation counts at the function that owns the loop around it (the helper that performs a
					// single send or receive is below that function)
					at := n
					if las := g.EnclLoops(n); len(las) > 0 {
						at = las[0].At
					}
					var chain []*core.Ctx
					for c := at.Ctx; c != nil; c = c.Parent {
						chain = append([]*core.Ctx{c}, chain...)
					}
					if first {
						common, first = chain, false
						continue
					}
					k := 0
					for k < len(common) && k < len(chain) && common[k] == chain[k] {
						k++
					}
					common = common[:k]
				}
				if len(common) <= 1 {
					return nil // nothing found, or only Execute itself in common
				}
				return common[len(common)-1].Fn
			}
			isMxLock := func(n *core.Node) bool {
				if !n.IsCallTo("(*sync.Mutex).Lock") || len(n.Call.Args) == 0 {
					return false
				}
				fa, ok := n.Call.Args[0].(*ssa.FieldAddr)
				if !ok {
					return false
				}
				for _, m := range a.mxCands {
					if fieldOfAddr(fa) == m {
						return true
					}
				}
				return false
			}
			if f := lca(func(n *core.Node) bool { return a.isSlotSend(n) || (isMxLock(n) && inAcquireSide(g, n, a)) }); f != nil {
				a.acquire = []*ssa.Function{f}
			}
			if f := lca(a.isSlotRecv); f != nil {
				a.release = []*ssa.Function{f}
			}
		}
	}
	// several mutexes in Workflow: the slot mutex is the one the acquire function locks
	if a.slotMutex == nil && len(a.mxCands) > 1 {
		for _, fn := range a.acquire {
			for f := range p.Reachable(fn) {
				if !p.IsLib(f) {
					continue
				}
				for _, b := range f.Blocks {
					for _, in := range b.Instrs {
						c, ok := in.(*ssa.Call)
						if !ok || c.Call.StaticCallee() == nil || c.Call.StaticCallee().String() != "(*sync.Mutex).Lock" || len(c.Call.Args) == 0 {
							continue
						}
						if fa, ok := c.Call.Args[0].(*ssa.FieldAddr); ok {
							for _, m := range a.mxCands {
								if fieldOfAddr(fa) == m && a.slotMutex == nil {
									a.slotMutex = m
								}
							}
						}
					}
				}
			}
		}
	}
	need(a.slotMutex != nil, "slot mutex (the sync.Mutex field of Workflow that the acquire function locks)")
	return a
}

// flagGuardingFifo: among several bool fields of FileIP, the one whose value decides, in Process.Run, whether
// CreateFifo is called for an out-IP.
func (e *Env) flagGuardingFifo(cands []*types.Var) *types.Var {
	run := e.P.DeclaredMethod("scipipe", "Process", "Run")
	if run == nil {
		return nil
	}
	g := e.XG(run)
	if g == nil {
		return nil
	}
	for _, n := range g.Nodes {
		if n.Callee == nil || core.FuncName(n.Callee) != "(*FileIP).CreateFifo" || n.Kind == core.KAfter {
			continue
		}
		for _, gd := range g.Guards(n, e.symbolizer()) {
			var hit *types.Var
			gd.Cond.Walk(func(z *core.Sym) bool {
				if z.Op == "field" && z.Val != nil {
					if f := fieldOfLoad(z.Val); f != nil {
						for _, c := range cands {
							if c == f {
								hit = c
							}
						}
					}
				}
				return hit == nil
			})
			if hit != nil {
				return hit
			}
		}
	}
	for _, c := range cands {
		if c.Name() == "doStream" {
			return c
		}
	}
	return nil
}

// ok reports unresolved anchors on the report (as an undecided obligation) and returns false if any.
func (a *anchors) ok() bool {
	if len(a.problems) == 0 {
		return true
	}
	a.e.R.Ob("R0", "anchors", "every role needed by the rules resolves to exactly one program object").
		Unknown("-", "unresolved: "+strings.Join(a.problems, ", "))
	return false
}

// isFieldLoad: v is a load (*FieldAddr or Field) of struct field f.
func (a *anchors) isFieldLoad(v ssa.Value, f *types.Var) bool {
	return fieldOfLoad(v) == f && f != nil
}

// fieldOfLoad returns the struct field a value is loaded from (nil if v is not a field load).
func fieldOfLoad(v ssa.Value) *types.Var {
	switch x := v.(type) {
	case *ssa.UnOp:
		if x.Op == token.MUL {
			if fa, ok := x.X.(*ssa.FieldAddr); ok {
				return fieldOfAddr(fa)
			}
		}
	case *ssa.Field:
		if st, ok := x.X.Type().Underlying().(*types.Struct); ok {
			return st.Field(x.Field)
		}
	}
	return nil
}

func fieldOfAddr(fa *ssa.FieldAddr) *types.Var {
	t := fa.X.Type()
	if p, ok := t.Underlying().(*types.Pointer); ok {
		t = p.Elem()
	}
	if st, ok := t.Underlying().(*types.Struct); ok {
		return st.Field(fa.Field)
	}
	return nil
}

// ---- event predicates on expanded-CFG nodes ---------------------------------

var execNames = []string{"(*os/exec.Cmd).CombinedOutput", "(*os/exec.Cmd).Run", "(*os/exec.Cmd).Output", "(*os/exec.Cmd).Start"}

func isExec(n *core.Node) bool { return n.IsCallTo(execNames...) }

func (a *anchors) isCustom(n *core.Node) bool {
	return n.IsDynCall() && !n.Call.IsInvoke() && a.isFieldLoad(n.Call.Value, a.customFld)
}

func (a *anchors) isRun(n *core.Node) bool { return isExec(n) || a.isCustom(n) }

func isRename(n *core.Node) bool    { return n.IsCallTo("os.Rename") }
func isRemoveAll(n *core.Node) bool { return n.IsCallTo("os.RemoveAll") }
func isRemove(n *core.Node) bool    { return n.IsCallTo("os.Remove") }
func isMkdir(n *core.Node) bool     { return n.IsCallTo("os.MkdirAll", "os.Mkdir") }
func isStat(n *core.Node) bool      { return n.IsCallTo("os.Stat", "os.Lstat") }
func isWriteFile(n *core.Node) bool {
	return n.IsCallTo("io/ioutil.WriteFile", "os.WriteFile")
}
func isCreate(n *core.Node) bool {
	if n.IsCallTo("os.OpenFile") && len(n.Call.Args) >= 2 {
		// a constant read-only open (O_RDONLY, possibly O_NONBLOCK etc.) creates and changes nothing
		if k, ok := n.Call.Args[1].(*ssa.Const); ok && k.Value != nil {
			if v := k.Int64(); v&int64(syscall.O_WRONLY|syscall.O_RDWR|syscall.O_CREAT|syscall.O_TRUNC|syscall.O_APPEND) == 0 {
				return false
			}
		}
	}
	return n.IsCallTo("os.Create", "os.OpenFile", "os.Link", "os.Symlink")
}

// file-system effects that create or change something at a path
func isFSEffect(n *core.Node) bool {
	return isRename(n) || isRemoveAll(n) || isRemove(n) || isMkdir(n) || isWriteFile(n) || isCreate(n)
}

func (a *anchors) isAcquire(n *core.Node) bool {
	for _, f := range a.acquire {
		if n.IsCallToFn(f) {
			return true
		}
	}
	return false
}

func (a *anchors) isRelease(n *core.Node) bool {
	for _, f := range a.release {
		if n.IsCallToFn(f) {
			return true
		}
	}
	return false
}

func (a *anchors) isSlotSend(n *core.Node) bool {
	if s, ok := n.Instr.(*ssa.Send); ok {
		return a.isFieldLoad(s.Chan, a.slotField)
	}
	// a send arm of a select (a non-blocking "try to take a slot")
	if sel, ok := n.Instr.(*ssa.Select); ok {
		for _, st := range sel.States {
			if st.Dir == types.SendOnly && a.isFieldLoad(st.Chan, a.slotField) {
				return true
			}
		}
	}
	return false
}

func (a *anchors) isSlotRecv(n *core.Node) bool {
	if sel, ok := n.Instr.(*ssa.Select); ok {
		for _, st := range sel.States {
			if st.Dir == types.RecvOnly && a.isFieldLoad(st.Chan, a.slotField) {
				return true
			}
		}
		return false
	}
	u, ok := n.Instr.(*ssa.UnOp)
	return ok && u.Op == token.ARROW && a.isFieldLoad(u.X, a.slotField)
}

func (a *anchors) isDoneSend(n *core.Node) bool {
	s, ok := n.Instr.(*ssa.Send)
	return ok && a.isFieldLoad(s.Chan, a.doneField)
}

// anySend: any channel send instruction
func isSend(n *core.Node) bool { _, ok := n.Instr.(*ssa.Send); return ok }

// argSym symbolises argument i of the call executed at n, in n's calling context.
func (e *Env) argSym(n *core.Node, i int) *core.Sym {
	if n.Call == nil || i >= len(n.Call.Args) {
		return nil
	}
	return e.symbolizer().InCtx(n.Ctx, n.Call.Args[i])
}

// xsym is a symboliser that looks through small private helper functions (unexported, at most 60
// instructions, not one of the path/identity sources the rules name): renaming, extracting or inlining such
// helpers must not change what a rule sees.
func (e *Env) xsym() *core.Symbolizer {
	if e.xs == nil {
		e.xs = e.P.NewSymbolizer(func(f *ssa.Function) bool {
			if !isPrivateFunc(f) {
				return false
			}
			n := 0
			for _, b := range f.Blocks {
				n += len(b.Instrs)
			}
			return n <= 60
		})
	}
	return e.xs
}

// fsym: a symboliser that looks through every private function of the module, whatever its size (for values
// such as timestamps that a refactoring may route through a large helper).
func (e *Env) fsym() *core.Symbolizer {
	if e.fs == nil {
		e.fs = e.P.NewSymbolizer(isPrivateFunc)
		e.fs.MaxDepth = 10
	}
	return e.fs
}

// xargSym: like argSym, through small private helpers.
func (e *Env) xargSym(n *core.Node, i int) *core.Sym {
	if n.Call == nil || i >= len(n.Call.Args) {
		return nil
	}
	return e.xsym().InCtx(n.Ctx, n.Call.Args[i])
}

func (e *Env) symbolizer() *core.Symbolizer {
	if e.sym == nil {
		e.sym = e.P.NewSymbolizer(nil)
	}
	return e.sym
}

// symHasCall: the expression contains a call to the named function (FuncName form, e.g. "(*FileIP).Path").
func symHasCall(s *core.Sym, name string) bool { return s != nil && s.Calls()[name] }

// rangeOver returns the field-name ("Task.OutIPs") when sym is (derived from) an element of a range
// or lookup over a struct field's collection.
func elemOfField(s *core.Sym) string {
	out := ""
	s.Walk(func(z *core.Sym) bool {
		if (z.Op == "rangeval" || z.Op == "rangekey" || z.Op == "elem") && len(z.Args) > 0 {
			z.Args[0].Walk(func(w *core.Sym) bool {
				if w.Op == "field" && out == "" {
					out = w.Name
				}
				return true
			})
		}
		return out == ""
	})
	return out
}

// wfProcIface: the WorkflowProcess interface (an empty interface when it cannot be found).
func wfProcIface(p *core.Prog) *types.Interface {
	if wp := p.Named("scipipe", "WorkflowProcess"); wp != nil {
		if it, ok := wp.Underlying().(*types.Interface); ok {
			return it
		}
	}
	return types.NewInterfaceType(nil, nil)
}

// inAcquireSide: a Lock of a candidate slot mutex counts for the acquire anchor only when a slot send can follow
// it (a mutex of the same type locked elsewhere in Execute's tree has nothing to do with the slots).
func inAcquireSide(g *core.XG, n *core.Node, a *anchors) bool {
	reach := g.ReachableFrom(n, nil)
	for m := range reach {
		if a.isSlotSend(m) {
			// only locks in the same calling context chain as a send: the lock's function is an ancestor-or-self
			for c := m.Ctx; c != nil; c = c.Parent {
				if c == n.Ctx {
					return true
				}
			}
		}
	}
	return false
}

// isPrivateFunc: not part of the module's exported API: an unexported function or method, a function literal,
// or a method (whatever its name) of an unexported type.
func isPrivateFunc(f *ssa.Function) bool {
	if f.Object() == nil || !f.Object().Exported() {
		return true
	}
	if recv := f.Signature.Recv(); recv != nil {
		t := recv.Type()
		if pt, ok := t.(*types.Pointer); ok {
			t = pt.Elem()
		}
		if nt, ok := t.(*types.Named); ok && !nt.Obj().Exported() {
			return true
		}
	}
	return false
}
