package rules

import (
	"fmt"
	"os"
	"scicheck/internal/core"
)

func init() { Registry["C02"] = c02 }

func c02(e *Env) {
	r := e.R
	r.Explanation = "Decides on all paths of Task.Execute's expanded call tree that an existing output means nothing executes or writes: (R1) the skip test stats FileIP.Path (the final path, not the temp path) of the elements of Task.OutIPs; (R2) scenario 'a skip-test os.Stat returned a nil error': no slot acquisition, no directory creation, no command / Go-function call, no audit write, no rename, no removal is reachable any more, Execute returns normally and every returning path signals Done (so the process still forwards the existing file downstream); (R3) the skip test over all outputs has completed before any acquire, mkdir or command on every path; (R4) an IP created for an existing file loads its audit record under the IP lock (shared with C11)."
	r.NotDecided = "file identity (inode, mtime, bytes) across runs follows from 'nothing reachable writes' but is itself a runtime fact; the reading of mixed subsets (some outputs present, some not) is decided only as 'one stat said exists ⇒ skip' (see C03.R6 for the consequence)."
	a := e.anchors()
	if !a.ok() {
		return
	}
	sp := e.spine()
	if sp == nil {
		return
	}
	g := sp.g
	ob1 := r.Ob("R1", "skip-test:path", "the skip test stats FileIP.Path of every element of Task.OutIPs")
	for _, n := range sp.skipStat {
		ob1.OK(g.Where(n), "os.Stat("+e.argSym(n, 0).Template()+")")
	}
	if len(sp.skipStat) == 0 {
		// maybe the test is on another path function
		for _, n := range g.Select(isStat) {
			s := e.argSym(n, 0)
			if overField(s, ".OutIPs") && !symHasCall(s, fnTempDir) {
				ob1.Fail(g.Where(n), "the existence test before execution stats "+s.Template()+" instead of the final path FileIP.Path (they differ for ../ and absolute paths: an existing output would be re-executed)")
			}
		}
		if ob1.Sites == 0 {
			ob1.Unknown(core.FuncName(a.execute), "no os.Stat of FileIP.Path over Task.OutIPs in Execute's call tree")
		}
		return
	}
	// ---- R2
	ob2 := r.Ob("R2", "skip-test:exists⇒no-effects", "with one existing output nothing executes or writes, and Done is still signalled")
	effect := func(n *core.Node) bool {
		return a.isAcquire(n) || a.isRun(n) || isFSEffect(n) || a.isSlotSend(n) || n.IsCallTo("os/exec.Command")
	}
	for _, n := range sp.skipStat {
		res := g.Run(core.Scenario{Start: n, Result: errResult(n, core.ErrAny, true)})
		if w := res.Reaches(effect); w != nil {
			// the decision may rest on state built up before this stat (a counter of existing outputs initialised
			// before the loop): explore from Execute's entry, marking the stat as "returned a nil error at some point"
			rm := g.Run(core.Scenario{Start: g.Entry, AtEntry: true, Marker: n, MarkerResult: errResult(n, core.ErrAny, true)})
			w2 := rm.ReachesAfterMarker(effect)
			if os.Getenv("RULE_DEBUG") == "C02" {
				fmt.Println("C02 marker run: effect after marker:", w2 != nil, "ret:", rm.ReachesAfterMarker(func(m *core.Node) bool { return m.Kind == core.KRootRet }) != nil)
				if w2 != nil {
					fmt.Println("   at", g.Where(w2), nodeDesc(w2))
				}
			}
			if w2 == nil && rm.ReachesAfterMarker(func(m *core.Node) bool { return m.Kind == core.KRootRet }) != nil &&
				rm.ReachesAvoidingAfterMarker(func(m *core.Node) bool { return m.Kind == core.KRootRet }, a.isDoneSend) == nil {
				ob2.OK(g.Where(n), "exists ⇒ no acquire/mkdir/exec/write/rename/remove reachable (decided with the history from Execute's entry); Done signalled on every returning path")
				continue
			}
			ob2.Fail(g.Where(n), "although an output exists, "+nodeDesc(w)+" is still reachable at "+g.Where(w))
			continue
		}
		if res.NormalReturn() == nil {
			ob2.Fail(g.Where(n), "although an output exists, Execute never returns normally (the workflow would stop instead of skipping)")
			continue
		}
		if w := res.ReachesAvoiding(func(m *core.Node) bool { return m.Kind == core.KRootRet }, a.isDoneSend); w != nil {
			ob2.Fail(g.Where(n), "a skipped task can return without signalling Done: the process would never forward the existing output")
			continue
		}
		ob2.OK(g.Where(n), "exists ⇒ no acquire/mkdir/exec/write/rename/remove reachable; Done signalled on every returning path")
	}
	// ---- R3
	const (
		evSkipDone core.Bits = 1 << iota
	)
	exitNodes := map[*core.Node]bool{}
	for _, s := range sp.skipStat {
		ex, _ := loopExitNodes(g, s)
		for _, x := range ex {
			exitNodes[x] = true
		}
	}
	must := g.Forward(func(n *core.Node) core.Transfer {
		if exitNodes[n] {
			return core.Transfer{Gen: evSkipDone}
		}
		return core.Transfer{}
	}, true)
	ob3 := r.Ob("R3", "Execute:skip≺effects", "the skip test over all outputs has completed before any slot acquisition, directory creation or command")
	for _, n := range g.Select(func(n *core.Node) bool { return a.isAcquire(n) || a.isRun(n) || isMkdir(n) }) {
		if inCallback(n) {
			continue
		}
		ob3.Check(must[n]&evSkipDone != 0, g.Where(n), "skip test precedes "+nodeDesc(n), "a path reaches "+nodeDesc(n)+" before the skip test has looked at the outputs")
	}
	// the skip loop itself must look at every non-streaming output
	ob3b := r.Ob("R3", "skip-test:all-outputs", "the skip test looks at every non-streaming output (loop over Task.OutIPs not left early)")
	for _, n := range sp.skipStat {
		if e.forAllOutputs(ob3b, g, n, func(m *core.Node) bool { return m == n }, core.Scenario{FieldLoad: e.assumeStream(false)}, "skip test") {
			ob3b.OK(g.Where(n), "complete range over Task.OutIPs")
		}
	}
	// ---- R4 shared with C11
	e.auditLoadRule("R4")
}
