package rules

import (
	"os"
	"time"
	"fmt"
	"go/token"
	"go/types"
	"regexp"
	"strings"

	"golang.org/x/tools/go/ssa"

	"scicheck/internal/core"
)

func init() { Registry["C19"] = c19 }

// everyIteration: the action at n is performed on every iteration of every loop around it (along the calling
// context chain), and none of these loops can be left early on a path that continues normally: the nearest loop
// performs n itself on each iteration, every outer loop reaches the test of the next inner one on each iteration.
func (e *Env) everyIteration(ob *core.Obligation, g *core.XG, n *core.Node, what string) (ok bool, nLoops int) {
	las := g.EnclLoops(n)
	if len(las) == 0 {
		return false, 0
	}
	ok = true
	for i, la := range las {
		if i == 0 {
			if !e.forAllIn(ob, g, la, n, func(m *core.Node) bool { return m == n }, core.Scenario{}, what) {
				ok = false
			}
			continue
		}
		inner := las[i-1]
		innerStart, _, okT := g.LoopTest(inner)
		if !okT {
			innerStart = g.FirstNodeOf(inner.At.Ctx, inner.L.Header)
		}
		if innerStart == nil {
			ob.Unknown(g.Where(n), "inner loop shape not recognised")
			return false, len(las)
		}
		if !e.forAllIn(ob, g, la, n, func(m *core.Node) bool { return m == innerStart || m == n }, core.Scenario{}, what+" (outer loop)") {
			ok = false
		}
	}
	// the action must not sit on the way out of a loop
	for x := n; x != nil; x = x.Ctx.CallNode {
		if x.Instr != nil && len(core.ExitBlockOf(x.Instr)) > 0 {
			ok = false
			ob.Fail(g.Where(n), what+" sits on the way out of a loop (only the first item is handled)")
		}
		if x.Ctx.Parent == nil {
			break
		}
	}
	return ok, len(las)
}

func c19(e *Env) {
	r := e.R
	r.Explanation = "Only the structural clauses of the bundled components are decided (thin by nature): (R1) sources (FileSource, ParamSource, FileGlobber, FileToParamsReader, CommandToParams): every port send sits in loop(s) over the configured items / scanned lines / glob matches that cannot be left early, and is executed on every iteration; (R2) combinators: every in-port is drained to closure before combining, one sender goroutine per out-port iterates its whole slice, WaitGroup Add/Done are paired (one Add and one go per iteration, Done on every returning path of the sender) and Wait precedes the return; the head's repetition factor in `combine` is the length of the already combined tail (value-flow: rooted in the recursive call's result); (R3) IPSelectorSync: one receive per in-port per round; if the predicate rejects any member no member of that tuple is sent; if it accepts all members, every member is sent - and this decision does not depend on earlier tuples (no loop-carried state); (R4) FileSplitter: every part is closed, then finalised, then sent, in that order; (R5) Concatenator: per input, its content and a newline are written; all handles are closed before any send. All rules are evaluated on the expanded call tree of the component's Run (helpers a Run is split into are looked through)."
	r.NotDecided = "everything data-dependent: contents and alignment of the Cartesian product beyond the repetition-factor root, split arithmetic (no part longer than the limit, parts concatenating back to the input), glob semantics, line contents, arrival-order of concatenated content. These are most of the property and are outside this family."
	pts := e.processTypes()
	// ---- R1 sources
	for _, src := range []string{"FileSource", "ParamSource", "FileGlobber", "FileToParamsReader", "CommandToParams"} {
		ob := r.Ob("R1", src+":emit-all", "every configured / matched / scanned item is sent: the send is on every iteration of loops that are not left early")
		run := pts["components."+src]
		if run == nil {
			ob.Unknown("-", "components."+src+".Run not found")
			continue
		}
		g := e.XG(run)
		if g == nil {
			continue
		}
		n0 := 0
		for _, n := range g.Nodes {
			if _, ok := isPortSend(n); !ok || n.Kind == core.KAfter {
				continue
			}
			n0++
			// a read loop over a bufio.Reader (`for { line, err := rd.ReadString(..); ...; if err == io.EOF { break } }`)
			// has no "every iteration sends": an iteration may deliver nothing. It is judged by the two reader scenarios
			// below (text with error, text without error) instead.
			if las := g.EnclLoops(n); len(las) > 0 {
				inLoop := las[0].L.Blocks
				reader := false
				for _, m := range g.Nodes {
					if m.IsCallTo("(*bufio.Reader).ReadString") && m.Ctx == las[0].At.Ctx && m.Instr != nil && inLoop[m.Instr.Block()] {
						reader = true
					}
				}
				if reader {
					ob.OK(g.Where(n), "send inside a bufio.Reader read loop (judged by the reader scenarios)")
					continue
				}
			}
			okN, nLoops := e.everyIteration(ob, g, n, "the send")
			if nLoops == 0 {
				ob.Fail(g.Where(n), "the send is not inside a loop over the items")
				continue
			}
			if okN {
				ob.OK(g.Where(n), "send of "+trunc(e.argSym(n, 1).String(), 80)+" on every iteration")
			}
		}
		if n0 == 0 {
			ob.Fail(core.FuncName(run), "the source never sends")
		}
		// a scanner loop: every token is sent (Scan()=true ⇒ a send before the next Scan or the end), and the loop ends
		// when the input does (Scan()=false ⇒ no further send): the polarity of the loop test, which no "the send is in
		// the loop" rule sees
		for _, n := range g.Nodes {
			if !n.IsCallTo("(*bufio.Scanner).Scan") || n.Kind == core.KAfter {
				continue
			}
			isSend := func(m *core.Node) bool { _, ok := isPortSend(m); return ok }
			obS := r.Ob("R1", src+":every-token-sent", "each token the scanner delivers is sent, and nothing is sent once the scanner is exhausted")
			resT := g.Run(core.Scenario{Start: n, Result: core.BoolAV(true)})
			resF := g.Run(core.Scenario{Start: n, Result: core.BoolAV(false)})
			switch {
			case resT.ReachesAvoiding(func(m *core.Node) bool { return m.Kind == core.KRootRet || m == n }, isSend) != nil:
				obS.Fail(g.Where(n), "after Scan() returned true the next Scan or the end of Run can be reached without a send: tokens are dropped")
			case resF.Reaches(isSend) != nil:
				obS.Fail(g.Where(n), "after Scan() returned false (input exhausted) a send is still reachable: the loop test is inverted or an item is invented")
			default:
				obS.OK(g.Where(n), "Scan()=true ⇒ send; Scan()=false ⇒ no send")
			}
		}
		// a reader that delivers data together with its end-of-input error (bufio.Reader.ReadString: the last line of a
		// file without a trailing newline comes with io.EOF): that data must still be sent
		for _, n := range g.Nodes {
			if !n.IsCallTo("(*bufio.Reader).ReadString") || n.Kind == core.KAfter {
				continue
			}
			obE := r.Ob("R1", src+":data-with-EOF-sent", "text that the reader returns together with its end-of-input error (a last line without newline) is still sent")
			res := g.Run(core.Scenario{Start: n, Result: core.TupleAV(core.StrAV("x"), core.NonNilAV(core.ErrAny))})
			isSend := func(m *core.Node) bool { _, ok := isPortSend(m); return ok }
			if w := res.ReachesAvoiding(func(m *core.Node) bool { return m.Kind == core.KRootRet }, isSend); w != nil {
				obE.Fail(g.Where(n), "when ReadString returns text together with an error (io.EOF after a last line without newline), Run can finish without sending that text: the last item is silently dropped")
			} else {
				obE.OK(g.Where(n), "text returned with an error is sent (or the error is fatal) on every path")
			}
			obL := r.Ob("R1", src+":every-line-sent", "a line the reader returns without error is sent before the next read")
			res2 := g.Run(core.Scenario{Start: n, Result: core.TupleAV(core.StrAV("x\n"), core.NilAV())})
			if w := res2.ReachesAvoiding(func(m *core.Node) bool { return m.Kind == core.KRootRet || m == n }, isSend); w != nil {
				obL.Fail(g.Where(n), "after ReadString returned a line without error, the next read or the end of Run can be reached without sending it")
			} else {
				obL.OK(g.Where(n), "a line read without error is sent before the next read")
			}
		}
	}
	t0 := time.Now()
	lap := func(what string) {
		if os.Getenv("RULE_TIMING") != "" {
			fmt.Fprintf(os.Stderr, "C19 %s: %.1fs\n", what, time.Since(t0).Seconds())
		}
		t0 = time.Now()
	}
	lap("sources")
	// ---- R2 combinators
	for _, cb := range []string{"FileCombinator", "ParamCombinator"} {
		e.c19Combinator(cb, pts["components."+cb])
	}
	lap("combinators")
	// ---- R3 selector
	e.c19Selector(pts["components.IPSelectorSync"])
	lap("selector")
	// ---- R4 splitter
	e.c19Splitter(pts["components.FileSplitter"])
	lap("splitter")
	// ---- R5 concatenator
	e.c19Concatenator(pts["components.Concatenator"])
	lap("concatenator")
}

// treeFuncs: the library functions in the expanded call tree of run, goroutines started in it included
// (statically resolved callees only: independent of the call graph's treatment of interface calls).
func (e *Env) treeFuncs(run *ssa.Function) map[*ssa.Function]bool {
	out := map[*ssa.Function]bool{}
	var visit func(fn *ssa.Function)
	visit = func(fn *ssa.Function) {
		if fn == nil || out[fn] || !e.P.IsLib(fn) || fn.Blocks == nil {
			return
		}
		out[fn] = true
		g := e.XG(fn)
		if g == nil {
			return
		}
		for _, n := range g.Nodes {
			if n.Callee != nil && e.P.IsLib(n.Callee) && n.Callee.Blocks != nil && !n.IsGo {
				out[n.Callee] = true
			}
			if n.IsGo && n.Call != nil {
				visit(funcOf(n.Call.Value))
			}
		}
	}
	visit(run)
	return out
}

// selfRecursive: the library function in run's call tree that calls itself and takes a map (the combiner).
func (e *Env) selfRecursive(run *ssa.Function) *ssa.Function {
	var best *ssa.Function
	for fn := range e.treeFuncs(run) {
		if !e.P.IsLib(fn) || fn.Blocks == nil {
			continue
		}
		hasMap := false
		for _, pa := range fn.Params {
			if _, ok := pa.Type().Underlying().(*types.Map); ok {
				hasMap = true
			}
		}
		if !hasMap {
			continue
		}
		for _, b := range fn.Blocks {
			for _, in := range b.Instrs {
				if c, ok := in.(*ssa.Call); ok && c.Call.StaticCallee() == fn {
					if best == nil || fn.Name() < best.Name() {
						best = fn
					}
				}
			}
		}
	}
	return best
}

var headIndexRe = regexp.MustCompile(`\$\w+\[0\]`)

func (e *Env) c19Combinator(name string, run *ssa.Function) {
	r := e.R
	p := e.P
	obD := r.Ob("R2", name+":drain", "every in-port is drained to closure before the combinations are built")
	obS := r.Ob("R2", name+":senders", "one sender goroutine per out-port sends its whole slice; WaitGroup Add/Done paired; Wait precedes the return")
	obC := r.Ob("R2", name+":combine-factor", "in combine, the head's repetition factor is the length of the already combined tail (the recursion's result)")
	if run == nil {
		obD.Unknown("-", "Run not found")
		return
	}
	g := e.XG(run)
	if g == nil {
		return
	}
	sy := e.symbolizer()
	comb := e.selfRecursive(run)
	// drain: comma-ok receive loops on val∈In*Ports().Chan, complete, nested in a complete loop over the ports
	nDrain := 0
	drainExit := map[*core.Node]bool{}
	for _, n := range g.Nodes {
		u, ok := n.Instr.(*ssa.UnOp)
		if !ok || u.Op != token.ARROW || !u.CommaOk {
			continue
		}
		chs := sy.InCtx(n.Ctx, u.X).String()
		if !strings.HasPrefix(chs, "val∈") || !strings.Contains(chs, "Ports(") {
			continue
		}
		nDrain++
		okL := true
		las := g.EnclLoops(n)
		for _, la := range las {
			if !e.loopHarmlessExits(g, la) {
				okL = false
				obD.Fail(g.Where(n), "a drain loop can be left early")
			}
		}
		if len(las) < 2 {
			okL = false
			obD.Fail(g.Where(n), "the drain is not a range over the channel nested in a range over all in-ports")
		}
		if okL {
			obD.OK(g.Where(n), "range "+chs+" to closure, for every in-port")
			for _, x := range g.LoopExitNodes(las[len(las)-1]) {
				drainExit[x] = true
			}
		}
	}
	if nDrain == 0 {
		obD.Fail(core.FuncName(run), "the in-ports are not drained")
	}
	// combine call after the drain
	isCombine := func(n *core.Node) bool {
		return comb != nil && n.Callee == comb && n.Kind != core.KAfter && n.Call != nil && !n.Ctx.Has(comb)
	}
	must := g.Forward(func(n *core.Node) core.Transfer {
		if drainExit[n] {
			return core.Transfer{Gen: 1}
		}
		return core.Transfer{}
	}, true)
	for _, n := range g.Select(isCombine) {
		if must[n]&1 == 0 && !drainExit[n] {
			obD.Fail(g.Where(n), "combine can run before all in-ports are drained")
		}
	}
	// senders
	var gos, adds, waits []*core.Node
	for _, n := range g.Nodes {
		if n.Kind == core.KAfter {
			continue
		}
		switch {
		case n.IsGo:
			gos = append(gos, n)
		case n.IsCallTo("(*sync.WaitGroup).Add"):
			adds = append(adds, n)
		case n.IsCallTo("(*sync.WaitGroup).Wait"):
			waits = append(waits, n)
		}
	}
	okS := true
	fail := func(w, msg string) { okS = false; obS.Fail(w, msg) }
	if len(gos) != 1 || len(adds) != 1 || len(waits) < 1 {
		fail(core.FuncName(run), fmt.Sprintf("%d go statements, %d wg.Add, %d wg.Wait (1/1/≥1 expected)", len(gos), len(adds), len(waits)))
	} else {
		gn, an := gos[0], adds[0]
		lg, okG := e.loopOver(g, gn, "")
		la, okA := e.loopOver(g, an, "")
		if !okG || !okA || lg.L.Header != la.L.Header || lg.At.Ctx != la.At.Ctx {
			fail(g.Where(gn), "wg.Add and the go statement are not in the same loop over the out-ports")
		} else {
			if !e.forAllIn(obS, g, lg, gn, func(m *core.Node) bool { return m == gn }, core.Scenario{}, "the go statement") ||
				!e.forAllIn(obS, g, la, an, func(m *core.Node) bool { return m == an }, core.Scenario{}, "wg.Add") {
				okS = false
			}
			if k, ok := an.Call.Args[len(an.Call.Args)-1].(*ssa.Const); !ok || k.Int64() != 1 {
				fail(g.Where(an), "wg.Add argument is not 1 per goroutine")
			}
		}
		// Wait after the loop on every returning path
		after := g.BackwardMust(func(n *core.Node) core.Bits {
			if n.IsCallTo("(*sync.WaitGroup).Wait") && !n.Deferred && n.Kind != core.KAfter {
				return 1
			}
			return 0
		})
		if after[gn]&1 == 0 {
			fail(g.Where(gn), "a returning path after starting a sender does not Wait for it: the out-ports are closed (deferred) while senders are still sending")
		}
		// the sender body
		if f := funcOf(gn.Call.Value); f != nil {
			gs := e.XG(f)
			if gs != nil {
				var sends, dones []*core.Node
				for _, m := range gs.Nodes {
					if _, ok := isPortSend(m); ok && m.Kind != core.KAfter {
						sends = append(sends, m)
					}
					if m.IsCallTo("(*sync.WaitGroup).Done") && m.Kind != core.KAfter {
						dones = append(dones, m)
					}
				}
				if len(sends) != 1 {
					fail(core.FuncName(f), fmt.Sprintf("%d sends in the sender (1 in a loop expected)", len(sends)))
				} else {
					sn := sends[0]
					if okE, nL := e.everyIteration(obS, gs, sn, "the sender's send"); !okE || nL == 0 {
						fail(gs.Where(sn), "the sender does not send every element of its slice (loop missing, left early, or send conditional)")
					}
				}
				aft := gs.BackwardMust(func(m *core.Node) core.Bits {
					if m.IsCallTo("(*sync.WaitGroup).Done") {
						return 1
					}
					return 0
				})
				if len(dones) == 0 || (aft[gs.Entry]&1 == 0 && !gs.Entry.IsCallTo("(*sync.WaitGroup).Done")) {
					fail(core.FuncName(f), "a returning path of the sender does not call wg.Done: Run waits forever")
				}
			}
		} else {
			fail(g.Where(gn), "sender is not a function literal or method")
		}
	}
	if okS {
		obS.OK(core.FuncName(run), "Add(1)+go per out-port; sender: full range + Done; Wait before return")
	}
	// combine factor
	if comb == nil {
		obC.Unknown(core.FuncName(run), "combine function (self-recursive function over a map, reachable from Run) not found")
		return
	}
	gc := e.XG(comb)
	if gc == nil {
		return
	}
	// helpers are looked through, the recursion itself stays visible as a call
	csy := p.NewSymbolizer(func(f *ssa.Function) bool { return f != comb && isPrivateFunc(f) })
	found := false
	for _, n := range gc.Nodes {
		if !n.IsBuiltin("append") || n.Kind == core.KAfter || len(n.Call.Args) < 2 {
			continue
		}
		// an element of the head row (the row of the first key) is appended ...
		isHead := false
		for _, pc := range appendedPieces(&core.Sym{Op: "call", Name: "builtin.append", Args: []*core.Sym{{Op: "nil"}, csy.InCtx(n.Ctx, n.Call.Args[1])}}) {
			ps := pc.String()
			if (pc.Op == "rangeval" || pc.Op == "elem") && headIndexRe.MatchString(ps) && !strings.Contains(ps, core.FuncName(comb)+"(") {
				isHead = true
			}
		}
		if !isHead {
			continue
		}
		// ... inside a counted loop: its bound is the repetition factor
		las := iterLoops(gc, n)
		if len(las) == 0 {
			continue
		}
		kind, iff := core.HeaderTest(las[0].L)
		if kind != "counted" {
			continue
		}
		bo, ok := iff.Cond.(*ssa.BinOp)
		if !ok {
			continue
		}
		var bound *core.Sym
		for _, v := range []ssa.Value{bo.Y, bo.X} {
			if _, isPhi := v.(*ssa.Phi); isPhi {
				continue
			}
			bound = csy.InCtx(las[0].At.Ctx, v)
			break
		}
		if bound == nil {
			continue
		}
		as := bound.String()
		if headIndexRe.MatchString(as) && !strings.Contains(as, core.FuncName(comb)+"(") && strings.HasPrefix(as, "builtin.len(") && las[0].At == n {
			// the loop that walks over the head row itself (range over a slice is an index loop): the repetition
			// loop, if any, is inside it
			if len(las) == 1 || true {
				isRow := false
				if bl, ok := bound.Args[0], len(bound.Args) == 1; ok {
					for _, pc := range appendedPieces(&core.Sym{Op: "call", Name: "builtin.append", Args: []*core.Sym{{Op: "nil"}, csy.InCtx(n.Ctx, n.Call.Args[1])}}) {
						if (pc.Op == "elem" || pc.Op == "rangeval") && len(pc.Args) > 0 && pc.Args[0].String() == bl.String() {
							isRow = true
						}
					}
				}
				if isRow {
					continue
				}
			}
		}
		found = true
		obC.Check(strings.Contains(as, core.FuncName(comb)+"(") && strings.Contains(as, "builtin.len("), gc.Where(n), "factor = "+trunc(as, 100), "the head is repeated "+trunc(as, 120)+" times, which is the length of a raw input stream, not of the combined tail: with three or more ports the out-ports get different lengths (misaligned product)")
	}
	// the other form of repetition: make([]T, factor), every element set to the head element
	for _, n := range gc.Nodes {
		st, ok := n.Instr.(*ssa.Store)
		if !ok {
			continue
		}
		ia, ok := st.Addr.(*ssa.IndexAddr)
		if !ok {
			continue
		}
		ms, ok := ia.X.(*ssa.MakeSlice)
		if !ok {
			continue
		}
		v := csy.InCtx(n.Ctx, st.Val)
		vs := v.String()
		if !((v.Op == "rangeval" || v.Op == "elem") && headIndexRe.MatchString(vs) && !strings.Contains(vs, core.FuncName(comb)+"(")) {
			continue
		}
		if _, inLoop := e.loopOver(gc, n, ""); !inLoop {
			continue
		}
		found = true
		as := csy.InCtx(n.Ctx, ms.Len).String()
		obC.Check(strings.Contains(as, core.FuncName(comb)+"(") && strings.Contains(as, "builtin.len("), gc.Where(n), "factor = "+trunc(as, 100)+" (length of the slice filled with the head element)", "the head is repeated "+trunc(as, 120)+" times, which is the length of a raw input stream, not of the combined tail: with three or more ports the out-ports get different lengths (misaligned product)")
	}
	if !found {
		obC.Unknown(core.FuncName(comb), "head-repetition loop `for i := 0; i < len(tail[k]); i++ { append(head element) }` not recognised")
	}
	// the tail rows that are repeated per head element are the rows of the already COMBINED tail (the recursion's
	// result), not the raw input rows: a whole slice appended (`append(row, s...)`) must be rooted in the recursive call
	obT := r.Ob("R2", name+":combine-tail", "the tail rows repeated for every head element are rows of the recursion's result, not of the raw inputs")
	nT := 0
	for _, n := range gc.Nodes {
		if !n.IsBuiltin("append") || n.Kind == core.KAfter || len(n.Call.Args) < 2 {
			continue
		}
		if varargElem(n.Call.Args[1]) != nil {
			continue // a single element
		}
		if _, isSl := n.Call.Args[1].(*ssa.Slice); isSl {
			if _, isAl := n.Call.Args[1].(*ssa.Slice).X.(*ssa.Alloc); isAl {
				continue // a literal list
			}
		}
		if len(iterLoops(gc, n)) == 0 {
			continue
		}
		as := csy.InCtx(n.Ctx, n.Call.Args[1]).String()
		if headIndexRe.MatchString(as) && !strings.Contains(as, core.FuncName(comb)+"(") {
			continue // the repeated head element, appended as a slice (its repetition factor is judged above)
		}
		nT++
		obT.Check(strings.Contains(as, core.FuncName(comb)+"("), gc.Where(n), "appends rows of "+trunc(as, 80), "a whole row of "+trunc(as, 120)+" is appended per head element: that is a raw input stream, not the combined tail - with three or more ports the tail out-ports get fewer items than the head port and the tuples are misaligned")
	}
	if nT == 0 {
		obT.OK(core.FuncName(comb), "no whole-slice append in the combine function (rows are built element by element)")
	}
}

func (e *Env) c19Selector(run *ssa.Function) {
	r := e.R
	obR := r.Ob("R3", "IPSelectorSync:recv-one-each", "each round takes exactly one IP from every in-port")
	obD := r.Ob("R3", "IPSelectorSync:all-or-nothing", "a tuple with a rejected member is dropped entirely; a tuple whose members are all accepted is sent entirely; the decision does not depend on earlier tuples")
	if run == nil {
		obR.Unknown("-", "Run not found")
		return
	}
	p := e.P
	sy := e.symbolizer()
	// every tuple is examined: the loops of Run around the sends (the loop over the tuples that arrive, the loops over
	// a tuple's members) cannot be left early - a `break` where a `continue` was meant stops after the first tuple
	if gr := e.XG(run); gr != nil {
		obT := r.Ob("R3", "IPSelectorSync:every-tuple-examined", "Run's loop over the arriving tuples goes on until the tuple stream is closed (it is not left after a rejected - or any - tuple)")
		nS, okAll := 0, true
		for _, n := range gr.Nodes {
			if _, isSend := isPortSend(n); !isSend || n.Kind == core.KAfter {
				continue
			}
			nS++
			if len(gr.EnclLoops(n)) < 2 {
				okAll = false
				obT.Fail(gr.Where(n), "the forwarding of a tuple's members is not inside a loop over the arriving tuples (the tuple loop never repeats): only the first tuple is handled")
			}
			for _, la := range gr.EnclLoops(n) {
				if !e.loopHarmlessExits(gr, la) {
					okAll = false
					obT.Fail(gr.Where(n), "a loop around the forwarding of a tuple can be left early: after the first tuple (or the first rejected one) the component stops forwarding, later tuples are lost")
				}
			}
		}
		if nS > 0 && okAll {
			obT.OK(core.FuncName(run), "the loops around the sends run to the end of their streams")
		}
	}
	// the function(s) receiving on the in-port channels, anywhere in Run's call graph (goroutines included)
	n0 := 0
	tree := e.treeFuncs(run)
	for _, rh := range p.LibFuncs {
		if !tree[rh] {
			continue
		}
		has := false
		for _, b := range rh.Blocks {
			for _, in := range b.Instrs {
				if u, ok := in.(*ssa.UnOp); ok && u.Op == token.ARROW {
					if s := sy.InFunc(rh, u.X).String(); strings.HasPrefix(s, "val∈") && strings.Contains(s, "Ports(") {
						has = true
					}
				}
			}
		}
		if !has {
			continue
		}
		gh := e.XG(rh)
		if gh == nil {
			continue
		}
		for _, n := range gh.Nodes {
			u, ok := n.Instr.(*ssa.UnOp)
			if !ok || u.Op != token.ARROW || n.Ctx != gh.Root {
				continue
			}
			chs := sy.InCtx(n.Ctx, u.X).String()
			if !strings.HasPrefix(chs, "val∈") {
				continue
			}
			n0++
			if e.forAllOutputs(obR, gh, n, func(m *core.Node) bool { return m == n }, core.Scenario{}, "one receive per in-port") {
				obR.OK(gh.Where(n), "receive on "+chs+" for every in-port")
			}
		}
	}
	if n0 != 1 {
		obR.Fail(core.FuncName(run), fmt.Sprintf("%d receives on in-port channels per round (exactly 1, in the loop over the ports, expected)", n0))
	}
	g := e.XG(run)
	if g == nil {
		return
	}
	isPred := func(n *core.Node) bool {
		if !n.IsDynCall() || n.Kind == core.KAfter || fieldOfLoad(n.Call.Value) == nil {
			return false
		}
		// the selection predicate: a function-typed field taking an IP and returning bool
		sig, ok := fieldOfLoad(n.Call.Value).Type().Underlying().(*types.Signature)
		return ok && sig.Params().Len() == 1 && sig.Results().Len() == 1 && isBoolType(sig.Results().At(0).Type())
	}
	isSendN := func(n *core.Node) bool { _, ok := isPortSend(n); return ok && n.Kind != core.KAfter }
	// outer loop head: the comma-ok receive from the syncRead channel
	var head *core.Node
	for _, n := range g.Nodes {
		if u, ok := n.Instr.(*ssa.UnOp); ok && u.Op == token.ARROW && u.CommaOk && n.Ctx == g.Root {
			head = n
		}
	}
	preds := g.Select(isPred)
	sends := g.Select(isSendN)
	if head == nil || len(preds) == 0 || len(sends) == 0 {
		obD.Fail(core.FuncName(run), "outer receive loop, predicate call or send not found")
		return
	}
	okAll := true
	isHead := func(m *core.Node) bool { return m == head }
	for _, pn := range preds {
		rej := g.Run(core.Scenario{Start: pn, Result: core.BoolAV(false)})
		if w := rej.ReachesAvoiding(isSendN, isHead); w != nil {
			okAll = false
			obD.Fail(g.Where(pn), "after the predicate rejected a member, a member of the same tuple is still sent at "+g.Where(w))
		}
	}
	// all accepted: every iteration sends (for every member)
	accept := func(m *core.Node) (core.AV, bool) {
		if isPred(m) {
			return core.BoolAV(true), true
		}
		return core.Top, false
	}
	// entering the send loop (its `next`) counts: a tuple without members is vacuously sent
	sendNext := map[*core.Node]bool{}
	for _, sn := range sends {
		if nx := loopHeadNext(g, sn); nx != nil {
			sendNext[nx] = true
		}
	}
	res := g.Run(core.Scenario{Start: head, Result: core.TupleAV(core.Top, core.BoolAV(true)), CallResult: accept})
	if w := res.ReachesAvoiding(isHead, func(m *core.Node) bool { return isSendN(m) || sendNext[m] }); w != nil {
		okAll = false
		obD.Fail(g.Where(head), "even when the predicate accepts every member, a tuple can be dropped: the decision depends on state carried over from earlier tuples (e.g. a flag that is never reset), or the send is conditional on something else")
	}
	for _, sn := range sends {
		la, ok := e.loopOver(g, sn, "")
		if !ok || !e.forAllIn(obD, g, la, sn, func(m *core.Node) bool { return m == sn }, core.Scenario{}, "the send of a tuple member") {
			okAll = false
			if !ok {
				obD.Fail(g.Where(sn), "not every member of an accepted tuple is sent (send loop missing)")
			}
		}
	}
	if okAll {
		obD.OK(g.Where(head), "reject ⇒ no send of this tuple; accept-all ⇒ every member sent; no loop-carried decision state")
	}
}

func (e *Env) c19Splitter(run *ssa.Function) {
	r := e.R
	ob := r.Ob("R4", "FileSplitter:close≺finalize≺send", "every part file is closed, then finalised (moved to its final path), then sent - in that order, for every send")
	if run == nil {
		ob.Unknown("-", "Run not found")
		return
	}
	// FinalizePaths is an event here, not something to look into: keeping it opaque keeps the scenarios below small
	fin := e.P.Func("FinalizePaths")
	g, err := e.P.BuildXG(run, core.XGOpts{NoInline: func(f *ssa.Function) bool { return f == fin && fin != nil }})
	if err != nil || g == nil {
		g = e.XG(run)
	}
	if g == nil {
		return
	}
	const (
		evClose core.Bits = 1 << iota
		evFin
	)
	isSendN := func(n *core.Node) bool { _, ok := isPortSend(n); return ok && n.Kind != core.KAfter }
	isFin := func(n *core.Node) bool {
		return n.Callee != nil && n.Callee.Name() == "FinalizePaths" && n.Kind != core.KAfter
	}
	isClose := func(n *core.Node) bool { return n.IsCallTo("(*os.File).Close") && !n.Deferred && n.Kind != core.KAfter }
	must := g.Forward(func(n *core.Node) core.Transfer {
		switch {
		case isSendN(n):
			return core.Transfer{Reset: true}
		case isClose(n):
			return core.Transfer{Gen: evClose, Kill: evFin}
		case isFin(n):
			return core.Transfer{Gen: evFin}
		}
		return core.Transfer{}
	}, true)
	sends := g.Select(isSendN)
	if len(sends) == 0 {
		ob.Fail(core.FuncName(run), "the splitter never sends a part")
	}
	for _, n := range sends {
		ob.Check(must[n]&evClose != 0 && must[n]&evFin != 0, g.Where(n), "Close ≺ FinalizePaths ≺ Send", "a part can be sent before it was closed and finalised (the consumer sees a missing or partial file)")
	}
	ob2 := r.Ob("R4", "FileSplitter:write-per-line", "one write per scanned line (in the scan loop, unconditionally)")
	n0 := 0
	for _, n := range g.Nodes {
		if n.IsCallTo("(*os.File).WriteString", "(*os.File).Write") && n.Kind != core.KAfter {
			n0++
			las := g.EnclLoops(n)
			if len(las) == 0 {
				ob2.Fail(g.Where(n), "the write of a line is outside the scan loop")
				continue
			}
			if e.forAllIn(ob2, g, las[0], n, func(m *core.Node) bool { return m == n }, core.Scenario{}, "the write of a line") {
				ob2.OK(g.Where(n), "write on every iteration of the scan loop")
			}
		}
	}
	if n0 == 0 {
		ob2.Fail(core.FuncName(run), "no write of the scanned lines")
	}
	// every part that is closed is then sent: from a Close of a part file a Send is inevitable before the next part is
	// created and before Run returns (a part that is written and finalised but never sent is lost to the consumers)
	obS := r.Ob("R4", "FileSplitter:every-part-sent", "every part file that is closed is sent before the next part is created and before Run returns")
	isCreatePart := func(m *core.Node) bool { return m.Kind != core.KAfter && m.IsCallTo("os.Create") }
	nCl := 0
	for _, cn := range g.Select(isClose) {
		// only closes of part files (handles that come from os.Create), not of the input file
		rs := e.xsym().InCtx(cn.Ctx, cn.Call.Args[0]).String()
		if strings.Contains(rs, "os.Open(") && !strings.Contains(rs, "os.Create(") {
			continue // the input file
		}
		nCl++
		res := g.Run(core.Scenario{Start: cn, AtEntry: true})
		if res.ReachesAvoiding(func(m *core.Node) bool { return m.Kind == core.KRootRet || isCreatePart(m) }, isSendN) != nil {
			obS.Fail(g.Where(cn), "after this part was closed the next part can be created, or Run can return, without the part having been sent")
		} else {
			obS.OK(g.Where(cn), "Close ⇒ Send before the next os.Create / return")
		}
	}
	if nCl == 0 {
		obS.OK(core.FuncName(run), "no explicit Close of a part file to start from (close≺finalize≺send is judged for every send)")
	}
	// an input whose parts do not exist yet is split: from the receive of an input IP, with every existence test saying
	// "absent", a part is sent before the next input is taken or Run returns (the skip test's polarity)
	obN := r.Ob("R4", "FileSplitter:absent⇒split", "an input whose first part does not exist yet is split (at least one part is sent before the next input is received)")
	nRecv := 0
	for _, rn := range g.Nodes {
		u, ok := rn.Instr.(*ssa.UnOp)
		if !ok || u.Op != token.ARROW || !u.CommaOk || rn.Kind == core.KAfter || rn.Ctx != g.Root {
			continue
		}
		nRecv++
		res := g.Run(core.Scenario{Start: rn, Result: core.TupleAV(core.Top, core.BoolAV(true)), CallResult: func(m *core.Node) (core.AV, bool) {
			if isStat(m) {
				return core.TupleAV(core.Top, core.NonNilAV(core.ErrNotExist)), true
			}
			return core.Top, false
		}})
		if res.ReachesAvoiding(func(m *core.Node) bool { return m.Kind == core.KRootRet || m == rn }, isSendN) != nil {
			obN.Fail(g.Where(rn), "with no part existing yet, the next input can be received (or Run can return) without any part of this input having been sent: the existence test that lets finished inputs be skipped has the wrong polarity")
		} else {
			obN.OK(g.Where(rn), "received input, parts absent ⇒ a part is sent")
		}
	}
	if nRecv == 0 {
		obN.Unknown(core.FuncName(run), "no receive of input IPs in Run")
	}
	// scanner polarity: a scanned line is written; nothing is written once the scanner is exhausted
	for _, n := range g.Nodes {
		if !n.IsCallTo("(*bufio.Scanner).Scan") || n.Kind == core.KAfter {
			continue
		}
		isW := func(m *core.Node) bool {
			return m.Kind != core.KAfter && m.IsCallTo("(*os.File).WriteString", "(*os.File).Write")
		}
		obP := r.Ob("R4", "FileSplitter:every-line-written(scan)", "each line the scanner delivers is written to a part; the scan loop ends when the scanner is exhausted")
		resT := g.Run(core.Scenario{Start: n, Result: core.BoolAV(true)})
		resF := g.Run(core.Scenario{Start: n, Result: core.BoolAV(false)})
		switch {
		case resT.ReachesAvoiding(func(m *core.Node) bool { return m.Kind == core.KRootRet || m == n }, isW) != nil:
			obP.Fail(g.Where(n), "after Scan() returned true the next Scan or the end of Run can be reached without a write: lines are dropped")
		case resF.ReachesAvoiding(isW, func(m *core.Node) bool { return m.IsCallTo("(*bufio.Scanner).Scan") && m != n || m.IsCallTo("bufio.NewScanner") }) != nil:
			obP.Fail(g.Where(n), "after Scan() returned false (input exhausted) a write is still reachable before the next input is opened: the loop test is inverted")
		default:
			obP.OK(g.Where(n), "Scan()=true ⇒ write; Scan()=false ⇒ no further write for this input")
		}
	}
	// a bufio.Reader instead of a Scanner: text that comes together with the end-of-input error (a last line without
	// newline) is still written to a part; a line read without error is written before the next read
	isWrite := func(m *core.Node) bool {
		return m.Kind != core.KAfter && m.IsCallTo("(*os.File).WriteString", "(*os.File).Write", "(*bufio.Writer).WriteString", "io.WriteString", "fmt.Fprint", "fmt.Fprintf", "fmt.Fprintln")
	}
	for _, n := range g.Nodes {
		if !n.IsCallTo("(*bufio.Reader).ReadString") || n.Kind == core.KAfter {
			continue
		}
		obE := r.Ob("R4", "FileSplitter:data-with-EOF-written", "text that the reader returns together with its end-of-input error (a last line without newline) is still written to a part")
		res := g.Run(core.Scenario{Start: n, Result: core.TupleAV(core.StrAV("x"), core.NonNilAV(core.ErrAny))})
		if res.ReachesAvoiding(func(m *core.Node) bool { return m.Kind == core.KRootRet }, isWrite) != nil {
			obE.Fail(g.Where(n), "when ReadString returns text together with an error (io.EOF after a last line without newline), Run can finish without writing that text: the parts no longer concatenate back to the input")
		} else {
			obE.OK(g.Where(n), "text returned with an error is written (or the error is fatal) on every path")
		}
		obL := r.Ob("R4", "FileSplitter:every-line-written", "a line the reader returns without error is written before the next read")
		res2 := g.Run(core.Scenario{Start: n, Result: core.TupleAV(core.StrAV("x\n"), core.NilAV())})
		if res2.ReachesAvoiding(func(m *core.Node) bool { return m.Kind == core.KRootRet || m == n }, isWrite) != nil {
			obL.Fail(g.Where(n), "after ReadString returned a line without error, the next read or the end of Run can be reached without writing it")
		} else {
			obL.OK(g.Where(n), "a line read without error is written before the next read")
		}
	}
}

func (e *Env) c19Concatenator(run *ssa.Function) {
	r := e.R
	ob := r.Ob("R5", "Concatenator:close≺send", "all output handles are closed before any output IP is sent")
	ob2 := r.Ob("R5", "Concatenator:content+newline", "for every received IP its content and then a newline are written (both group and plain branch)")
	if run == nil {
		ob.Unknown("-", "Run not found")
		return
	}
	g := e.XG(run)
	if g == nil {
		return
	}
	isSendN := func(n *core.Node) bool { _, ok := isPortSend(n); return ok && n.Kind != core.KAfter }
	isClose := func(n *core.Node) bool { return n.IsCallTo("(*os.File).Close") && n.Kind != core.KAfter }
	may := g.Forward(func(n *core.Node) core.Transfer {
		if isSendN(n) {
			return core.Transfer{Gen: 1}
		}
		return core.Transfer{}
	}, false)
	nc := 0
	for _, n := range g.Select(isClose) {
		nc++
		ob.Check(may[n]&1 == 0, g.Where(n), "no send before this Close", "an output IP may be sent before its file handle is closed")
	}
	if nc == 0 {
		ob.Fail(core.FuncName(run), "the output handles are never closed")
	}
	// every handle is closed and every output IP is sent: the one made from the configured path directly, the per-group
	// ones by complete loops over the maps that hold them
	obC := r.Ob("R5", "Concatenator:all-closed+all-sent", "the main output and every per-group output are closed and then sent on every normally returning path")
	{
		xs := e.xsym()
		isRet := func(m *core.Node) bool { return m.Kind == core.KRootRet }
		entry := g.Run(core.Scenario{Start: g.Entry, AtEntry: true})
		check := func(what string, isOp func(*core.Node) bool, argIdx int) {
			var direct, ranged []*core.Node
			for _, n := range g.Select(isOp) {
				a := xs.InCtx(n.Ctx, n.Call.Args[argIdx]).String()
				if strings.HasPrefix(a, "val∈") {
					ranged = append(ranged, n)
				} else {
					direct = append(direct, n)
				}
			}
			if len(direct) == 0 {
				obC.Fail(core.FuncName(run), "the main output is never "+what)
			} else {
				set := nodeSet(direct)
				if w := entry.ReachesAvoiding(isRet, func(m *core.Node) bool { return set[m] }); w != nil {
					obC.Fail(g.Where(direct[0]), "Run can return normally without the main output having been "+what)
				} else {
					obC.OK(g.Where(direct[0]), "main output "+what+" on every returning path")
				}
			}
			if len(ranged) == 0 {
				obC.Fail(core.FuncName(run), "the per-group outputs are never "+what)
				return
			}
			for _, n := range ranged {
				las := iterLoops(g, n)
				if len(las) == 0 || !e.loopHarmlessExits(g, las[0]) {
					obC.Fail(g.Where(n), "the loop in which the per-group outputs are "+what+" can be left early")
					continue
				}
				if e.forAllIn(obC, g, las[0], n, func(m *core.Node) bool { return m == n }, core.Scenario{}, "per-group outputs "+what) {
					test, _, okT := g.LoopTest(las[0])
					if okT && entry.ReachesAvoiding(isRet, func(m *core.Node) bool { return m == test }) != nil {
						obC.Fail(g.Where(n), "Run can return normally without the per-group outputs having been "+what)
					} else {
						obC.OK(g.Where(n), "per-group outputs "+what+" (complete loop)")
					}
				}
			}
		}
		check("closed", isClose, 0)
		check("sent", isSendN, 1)
	}
	// writes: in the receive loop, each branch has two writes: data then "\n" (a write helper called from
	// several places counts once per calling context)
	sy := e.fsym()
	data, nl := 0, 0
	for _, n := range g.Nodes {
		if !n.IsCallTo("(*os.File).Write", "(*os.File).WriteString") || n.Kind == core.KAfter {
			continue
		}
		// (one write call may serve several values in turn: a loop over a literal list of chunks)
		for _, alt := range sy.InCtx(n.Ctx, n.Call.Args[1]).DeepAlts(6) {
			s := alt.String()
			switch {
			case strings.Contains(s, "ReadFile("):
				data++
			case strings.Contains(s, "\"\\n\""):
				nl++
			}
		}
		if len(g.EnclLoops(n)) == 0 {
			ob2.Fail(g.Where(n), "a write is outside the loop over the received IPs")
		}
	}
	ob2.Check(data >= 2 && nl >= 2 && data == nl, core.FuncName(run), fmt.Sprintf("%d content writes, %d newline writes", data, nl), fmt.Sprintf("%d content writes and %d newline writes (one of each per branch expected)", data, nl))
}
