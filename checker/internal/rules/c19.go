package rules

import (
	"fmt"
	"go/token"
	"strings"

	"golang.org/x/tools/go/ssa"

	"scicheck/internal/core"
)

func init() { Registry["C19"] = c19 }

func c19(e *Env) {
	r := e.R
	r.Explanation = "Only the structural clauses of the bundled components are decided (thin by nature): (R1) sources (FileSource, ParamSource, FileGlobber, FileToParamsReader, CommandToParams): every port send sits in loop(s) over the configured items / scanned lines / glob matches that cannot be left early, and is executed on every iteration; (R2) combinators: every in-port is drained to closure before combining, one sender goroutine per out-port iterates its whole slice, WaitGroup Add/Done are paired (one Add and one go per iteration, Done on every returning path of the sender) and Wait precedes the return; the head's repetition factor in `combine` is the length of the already combined tail (value-flow: rooted in the recursive call's result); (R3) IPSelectorSync: one receive per in-port per round; if the predicate rejects any member no member of that tuple is sent; if it accepts all members, every member is sent - and this decision does not depend on earlier tuples (no loop-carried state); (R4) FileSplitter: every part is closed, then finalised, then sent, in that order; (R5) Concatenator: per input, its content and a newline are written; all handles are closed before any send."
	r.NotDecided = "everything data-dependent: contents and alignment of the Cartesian product beyond the repetition-factor root, split arithmetic (no part longer than the limit, parts concatenating back to the input), glob semantics, line contents, arrival-order of concatenated content. These are most of the property and are outside this family."
	p := e.P
	pts := e.processTypes()
	// ---- R1 sources
	for _, src := range []string{"FileSource", "ParamSource", "FileGlobber", "FileToParamsReader", "CommandToParams"} {
		ob := r.Ob("R1", src+":emit-all", "every configured / matched / scanned item is sent: the send is on every iteration of loops that are not left early")
		run := pts["components."+src]
		if run == nil {
			ob.Unknown("-", "components."+src+".Run not found")
			continue
		}
		g := e.XG(run)
		if g == nil {
			continue
		}
		n0 := 0
		for _, n := range g.Nodes {
			if _, ok := isPortSend(n); !ok || n.Kind == core.KAfter {
				continue
			}
			n0++
			okN := true
			nLoops := 0
			for x := n; ; x = x.Ctx.CallNode {
				ls := core.LoopsOf(x.Instr)
				for i, l := range ls {
					nLoops++
					if ex := p.EarlyExits(l); len(ex) > 0 {
						okN = false
						ob.Fail(g.Where(n), "an emission loop can be left early: "+ex[0])
					}
					if i == 0 && !core.OncePerIteration(l, x.Instr) {
						okN = false
						ob.Fail(g.Where(n), "the send is not executed on every iteration of its loop (items are skipped conditionally)")
					}
				}
				for _, l := range core.ExitBlockOf(x.Instr) {
					_ = l
					okN = false
					ob.Fail(g.Where(n), "the send sits on the way out of a loop (only the first item is sent)")
				}
				if x.Ctx == g.Root || x.Ctx.CallNode == nil {
					break
				}
			}
			if nLoops == 0 {
				okN = false
				ob.Fail(g.Where(n), "the send is not inside a loop over the items")
			}
			if okN {
				ob.OK(g.Where(n), "send of "+trunc(e.argSym(n, 1).String(), 80)+" on every iteration")
			}
		}
		if n0 == 0 {
			ob.Fail(core.FuncName(run), "the source never sends")
		}
	}
	// ---- R2 combinators
	for _, cb := range []string{"FileCombinator", "ParamCombinator"} {
		e.c19Combinator(cb, pts["components."+cb])
	}
	// ---- R3 selector
	e.c19Selector(pts["components.IPSelectorSync"])
	// ---- R4 splitter
	e.c19Splitter(pts["components.FileSplitter"])
	// ---- R5 concatenator
	e.c19Concatenator(pts["components.Concatenator"])
}

func (e *Env) c19Combinator(name string, run *ssa.Function) {
	r := e.R
	p := e.P
	obD := r.Ob("R2", name+":drain", "every in-port is drained to closure before the combinations are built")
	obS := r.Ob("R2", name+":senders", "one sender goroutine per out-port sends its whole slice; WaitGroup Add/Done paired; Wait precedes the return")
	obC := r.Ob("R2", name+":combine-factor", "in combine, the head's repetition factor is the length of the already combined tail (the recursion's result)")
	if run == nil {
		obD.Unknown("-", "Run not found")
		return
	}
	g := e.XG(run)
	if g == nil {
		return
	}
	sy := e.symbolizer()
	// drain: comma-ok receive loops on val∈In*Ports().Chan, complete, nested in a complete loop over the ports
	nDrain := 0
	drainExit := map[*core.Node]bool{}
	for _, n := range g.Nodes {
		u, ok := n.Instr.(*ssa.UnOp)
		if !ok || u.Op != token.ARROW || !u.CommaOk || n.Ctx != g.Root {
			continue
		}
		chs := sy.InCtx(n.Ctx, u.X).String()
		if !strings.HasPrefix(chs, "val∈") || !strings.Contains(chs, "Ports(") {
			continue
		}
		nDrain++
		okL := true
		ls := core.LoopsOf(u)
		for _, l := range ls {
			if ex := p.EarlyExits(l); len(ex) > 0 {
				okL = false
				obD.Fail(g.Where(n), "a drain loop can be left early: "+ex[0])
			}
		}
		if len(ls) < 2 {
			okL = false
			obD.Fail(g.Where(n), "the drain is not a range over the channel nested in a range over all in-ports")
		}
		if okL {
			obD.OK(g.Where(n), "range "+chs+" to closure, for every in-port")
			// exit of the outermost loop
			outer := ls[len(ls)-1]
			if _, iff := core.HeaderTest(outer); iff != nil {
				for _, m := range g.Nodes {
					if m.Ctx == g.Root && m.Instr == ssa.Instruction(iff) {
						for i, s := range iff.Block().Succs {
							if !outer.Blocks[s] {
								drainExit[m.Succs[i]] = true
							}
						}
					}
				}
			}
		}
	}
	if nDrain == 0 {
		obD.Fail(core.FuncName(run), "the in-ports are not drained")
	}
	// combine call after the drain
	isCombine := func(n *core.Node) bool {
		return n.Callee != nil && n.Callee.Name() == "combine" && n.Ctx == g.Root && n.Kind != core.KAfter && n.Call != nil
	}
	must := g.Forward(func(n *core.Node) core.Transfer {
		if drainExit[n] {
			return core.Transfer{Gen: 1}
		}
		return core.Transfer{}
	}, true)
	for _, n := range g.Select(isCombine) {
		if must[n]&1 == 0 && !drainExit[n] {
			obD.Fail(g.Where(n), "combine can run before all in-ports are drained")
		}
	}
	// senders
	var gos, adds, waits []*core.Node
	for _, n := range g.Nodes {
		if n.Ctx != g.Root {
			continue
		}
		switch {
		case n.IsGo:
			gos = append(gos, n)
		case n.IsCallTo("(*sync.WaitGroup).Add"):
			adds = append(adds, n)
		case n.IsCallTo("(*sync.WaitGroup).Wait"):
			waits = append(waits, n)
		}
	}
	okS := true
	fail := func(w, msg string) { okS = false; obS.Fail(w, msg) }
	if len(gos) != 1 || len(adds) != 1 || len(waits) < 1 {
		fail(core.FuncName(run), fmt.Sprintf("%d go statements, %d wg.Add, %d wg.Wait (1/1/≥1 expected)", len(gos), len(adds), len(waits)))
	} else {
		gn, an := gos[0], adds[0]
		lg, la := core.InnermostLoop(gn.Instr), core.InnermostLoop(an.Instr)
		if lg == nil || la == nil || lg.Header != la.Header {
			fail(g.Where(gn), "wg.Add and the go statement are not in the same loop over the out-ports")
		} else {
			if !core.OncePerIteration(lg, gn.Instr) || !core.OncePerIteration(la, an.Instr) {
				fail(g.Where(gn), "wg.Add / go are not executed exactly once per out-port")
			}
			if k, ok := an.Call.Args[len(an.Call.Args)-1].(*ssa.Const); !ok || k.Int64() != 1 {
				fail(g.Where(an), "wg.Add argument is not 1 per goroutine")
			}
			if ex := p.EarlyExits(lg); len(ex) > 0 {
				fail(g.Where(gn), "the loop starting the senders can be left early: "+ex[0])
			}
		}
		// Wait after the loop on every returning path
		after := g.BackwardMust(func(n *core.Node) core.Bits {
			if n.IsCallTo("(*sync.WaitGroup).Wait") && n.Ctx == g.Root && !n.Deferred {
				return 1
			}
			return 0
		})
		if after[gn]&1 == 0 {
			fail(g.Where(gn), "a returning path after starting a sender does not Wait for it: the out-ports are closed (deferred) while senders are still sending")
		}
		// the sender body
		if f := funcOf(gn.Call.Value); f != nil {
			gs := e.XG(f)
			if gs != nil {
				var sends, dones []*core.Node
				for _, m := range gs.Nodes {
					if _, ok := isPortSend(m); ok && m.Ctx == gs.Root && m.Kind != core.KAfter {
						sends = append(sends, m)
					}
					if m.IsCallTo("(*sync.WaitGroup).Done") {
						dones = append(dones, m)
					}
				}
				if len(sends) != 1 {
					fail(core.FuncName(f), fmt.Sprintf("%d sends in the sender (1 in a loop expected)", len(sends)))
				} else {
					sn := sends[0]
					l := core.InnermostLoop(sn.Instr)
					if l == nil || len(p.EarlyExits(l)) > 0 || !core.OncePerIteration(l, sn.Instr) {
						fail(gs.Where(sn), "the sender does not send every element of its slice (loop missing, left early, or send conditional)")
					}
				}
				aft := gs.BackwardMust(func(m *core.Node) core.Bits {
					if m.IsCallTo("(*sync.WaitGroup).Done") {
						return 1
					}
					return 0
				})
				if len(dones) == 0 || (aft[gs.Entry]&1 == 0 && !gs.Entry.IsCallTo("(*sync.WaitGroup).Done")) {
					fail(core.FuncName(f), "a returning path of the sender does not call wg.Done: Run waits forever")
				}
			}
		} else {
			fail(g.Where(gn), "sender is not a function literal")
		}
	}
	if okS {
		obS.OK(core.FuncName(run), "Add(1)+go per out-port; sender: full range + Done; Wait before return")
	}
	// combine factor
	var comb *ssa.Function
	for fn := range p.Reachable(run) {
		if fn.Name() == "combine" && p.IsLib(fn) {
			comb = fn
		}
	}
	if comb == nil {
		obC.Unknown(core.FuncName(run), "combine function not found")
		return
	}
	found := false
	for _, b := range comb.Blocks {
		iff, ok := b.Instrs[len(b.Instrs)-1].(*ssa.If)
		if !ok {
			continue
		}
		bo, ok := iff.Cond.(*ssa.BinOp)
		if !ok || bo.Op != token.LSS {
			continue
		}
		c, ok := bo.Y.(*ssa.Call)
		if !ok {
			continue
		}
		if bi, ok := c.Call.Value.(*ssa.Builtin); !ok || bi.Name() != "len" {
			continue
		}
		arg := sy.InFunc(comb, c.Call.Args[0])
		as := arg.String()
		// the head-repetition loop: bound is len(<map>[<key>]) of a slice element
		if arg.Op != "elem" {
			continue
		}
		// it must be the inner loop whose body appends the head element
		isHeadLoop := false
		if l := naturalLoopOf(b); l != nil {
			for lb := range l.Blocks {
				for _, in := range lb.Instrs {
					if cc, ok := in.(*ssa.Call); ok {
						if bi, ok := cc.Call.Value.(*ssa.Builtin); ok && bi.Name() == "append" {
							s2 := sy.InFunc(comb, cc.Call.Args[1]).String()
							if (strings.Contains(s2, "[headKey]") || strings.Contains(s2, "$keys[0]") || strings.Contains(s2, "[0]]")) && core.InnermostLoop(cc) != nil && core.InnermostLoop(cc).Header == b {
								isHeadLoop = true
							}
						}
					}
				}
			}
		}
		if !isHeadLoop {
			continue
		}
		found = true
		obC.Check(strings.Contains(as, "combine("), e.where(bo), "factor = len("+trunc(as, 100)+")", "the head is repeated len("+trunc(as, 120)+") times, which is the length of a raw input stream, not of the combined tail: with three or more ports the out-ports get different lengths (misaligned product)")
	}
	if !found {
		obC.Unknown(core.FuncName(comb), "head-repetition loop `for i := 0; i < len(tail[k]); i++` not recognised")
	}
}

func naturalLoopOf(h *ssa.BasicBlock) *core.Loop {
	if len(h.Instrs) == 0 {
		return nil
	}
	for _, l := range core.LoopsOf(h.Instrs[len(h.Instrs)-1]) {
		if l.Header == h {
			return l
		}
	}
	return nil
}

func (e *Env) c19Selector(run *ssa.Function) {
	r := e.R
	obR := r.Ob("R3", "IPSelectorSync:recv-one-each", "each round takes exactly one IP from every in-port")
	obD := r.Ob("R3", "IPSelectorSync:all-or-nothing", "a tuple with a rejected member is dropped entirely; a tuple whose members are all accepted is sent entirely; the decision does not depend on earlier tuples")
	if run == nil {
		obR.Unknown("-", "Run not found")
		return
	}
	p := e.P
	sy := e.symbolizer()
	// receive helper
	if rh := p.DeclaredMethod("components", "IPSelectorSync", "recvOneEach"); rh != nil {
		gh := e.XG(rh)
		n0 := 0
		if gh != nil {
			for _, n := range gh.Nodes {
				u, ok := n.Instr.(*ssa.UnOp)
				if !ok || u.Op != token.ARROW || n.Ctx != gh.Root {
					continue
				}
				chs := sy.InCtx(n.Ctx, u.X).String()
				if !strings.HasPrefix(chs, "val∈") {
					continue
				}
				n0++
				if e.forAllOutputs(obR, gh, n, func(m *core.Node) bool { return m == n }, core.Scenario{}, "one receive per in-port") {
					obR.OK(gh.Where(n), "receive on "+chs+" for every in-port")
				}
			}
		}
		if n0 != 1 {
			obR.Fail(core.FuncName(rh), fmt.Sprintf("%d receives on in-port channels per round (exactly 1, in the loop over the ports, expected)", n0))
		}
	} else {
		obR.Unknown("-", "recvOneEach not found")
	}
	g := e.XG(run)
	if g == nil {
		return
	}
	isPred := func(n *core.Node) bool {
		return n.IsDynCall() && n.Ctx == g.Root && fieldOfLoad(n.Call.Value) != nil && fieldOfLoad(n.Call.Value).Name() == "includeFunc"
	}
	isSendN := func(n *core.Node) bool { _, ok := isPortSend(n); return ok && n.Kind != core.KAfter && n.Ctx == g.Root }
	// outer loop head: the comma-ok receive from the syncRead channel
	var head *core.Node
	for _, n := range g.Nodes {
		if u, ok := n.Instr.(*ssa.UnOp); ok && u.Op == token.ARROW && u.CommaOk && n.Ctx == g.Root {
			head = n
		}
	}
	preds := g.Select(isPred)
	sends := g.Select(isSendN)
	if head == nil || len(preds) == 0 || len(sends) == 0 {
		obD.Fail(core.FuncName(run), "outer receive loop, predicate call or send not found")
		return
	}
	okAll := true
	isHead := func(m *core.Node) bool { return m == head }
	for _, pn := range preds {
		rej := g.Run(core.Scenario{Start: pn, Result: core.BoolAV(false)})
		if w := rej.ReachesAvoiding(isSendN, isHead); w != nil {
			okAll = false
			obD.Fail(g.Where(pn), "after the predicate rejected a member, a member of the same tuple is still sent at "+g.Where(w))
		}
	}
	// all accepted: every iteration sends (for every member)
	accept := func(m *core.Node) (core.AV, bool) {
		if isPred(m) {
			return core.BoolAV(true), true
		}
		return core.Top, false
	}
	// entering the send loop (its `next`) counts: a tuple without members is vacuously sent
	sendNext := map[*core.Node]bool{}
	for _, sn := range sends {
		if nx := loopHeadNext(g, sn); nx != nil {
			sendNext[nx] = true
		}
	}
	res := g.Run(core.Scenario{Start: head, Result: core.TupleAV(core.Top, core.BoolAV(true)), CallResult: accept})
	if w := res.ReachesAvoiding(isHead, func(m *core.Node) bool { return isSendN(m) || sendNext[m] }); w != nil {
		okAll = false
		obD.Fail(g.Where(head), "even when the predicate accepts every member, a tuple can be dropped: the decision depends on state carried over from earlier tuples (e.g. a flag that is never reset), or the send is conditional on something else")
	}
	for _, sn := range sends {
		if l := core.InnermostLoop(sn.Instr); l == nil || len(p.EarlyExits(l)) > 0 || !core.OncePerIteration(l, sn.Instr) {
			okAll = false
			obD.Fail(g.Where(sn), "not every member of an accepted tuple is sent (send loop missing, left early or conditional)")
		}
	}
	if okAll {
		obD.OK(g.Where(head), "reject ⇒ no send of this tuple; accept-all ⇒ every member sent; no loop-carried decision state")
	}
}

func (e *Env) c19Splitter(run *ssa.Function) {
	r := e.R
	ob := r.Ob("R4", "FileSplitter:close≺finalize≺send", "every part file is closed, then finalised (moved to its final path), then sent - in that order, for every send")
	if run == nil {
		ob.Unknown("-", "Run not found")
		return
	}
	g := e.XG(run)
	if g == nil {
		return
	}
	const (
		evClose core.Bits = 1 << iota
		evFin
	)
	isSendN := func(n *core.Node) bool { _, ok := isPortSend(n); return ok && n.Kind != core.KAfter && n.Ctx == g.Root }
	isFin := func(n *core.Node) bool { return n.Callee != nil && n.Callee.Name() == "FinalizePaths" && n.Ctx == g.Root && n.Kind != core.KAfter }
	isClose := func(n *core.Node) bool { return n.IsCallTo("(*os.File).Close") && n.Ctx == g.Root && !n.Deferred }
	must := g.Forward(func(n *core.Node) core.Transfer {
		switch {
		case isSendN(n):
			return core.Transfer{Reset: true}
		case isClose(n):
			return core.Transfer{Gen: evClose, Kill: evFin}
		case isFin(n):
			return core.Transfer{Gen: evFin}
		}
		return core.Transfer{}
	}, true)
	sends := g.Select(isSendN)
	if len(sends) == 0 {
		ob.Fail(core.FuncName(run), "the splitter never sends a part")
	}
	for _, n := range sends {
		ob.Check(must[n]&evClose != 0 && must[n]&evFin != 0, g.Where(n), "Close ≺ FinalizePaths ≺ Send", "a part can be sent before it was closed and finalised (the consumer sees a missing or partial file)")
	}
	ob2 := r.Ob("R4", "FileSplitter:write-per-line", "one write per scanned line (in the scan loop, unconditionally)")
	n0 := 0
	for _, n := range g.Nodes {
		if n.IsCallTo("(*os.File).WriteString", "(*os.File).Write") && n.Ctx == g.Root {
			n0++
			l := core.InnermostLoop(n.Instr)
			ob2.Check(l != nil && core.OncePerIteration(l, n.Instr), g.Where(n), "write on every iteration of the scan loop", "the write of a line is conditional or outside the scan loop")
		}
	}
	if n0 == 0 {
		ob2.Fail(core.FuncName(run), "no write of the scanned lines")
	}
}

func (e *Env) c19Concatenator(run *ssa.Function) {
	r := e.R
	ob := r.Ob("R5", "Concatenator:close≺send", "all output handles are closed before any output IP is sent")
	ob2 := r.Ob("R5", "Concatenator:content+newline", "for every received IP its content and then a newline are written (both group and plain branch)")
	if run == nil {
		ob.Unknown("-", "Run not found")
		return
	}
	g := e.XG(run)
	if g == nil {
		return
	}
	isSendN := func(n *core.Node) bool { _, ok := isPortSend(n); return ok && n.Kind != core.KAfter && n.Ctx == g.Root }
	isClose := func(n *core.Node) bool { return n.IsCallTo("(*os.File).Close") && n.Ctx == g.Root }
	may := g.Forward(func(n *core.Node) core.Transfer {
		if isSendN(n) {
			return core.Transfer{Gen: 1}
		}
		return core.Transfer{}
	}, false)
	nc := 0
	for _, n := range g.Select(isClose) {
		nc++
		ob.Check(may[n]&1 == 0, g.Where(n), "no send before this Close", "an output IP may be sent before its file handle is closed")
	}
	if nc == 0 {
		ob.Fail(core.FuncName(run), "the output handles are never closed")
	}
	// writes: in the receive loop, each branch has two writes: data then "\n"
	sy := e.symbolizer()
	var writes []*core.Node
	for _, n := range g.Nodes {
		if n.IsCallTo("(*os.File).Write", "(*os.File).WriteString") && n.Ctx == g.Root {
			writes = append(writes, n)
		}
	}
	data, nl := 0, 0
	for _, n := range writes {
		s := sy.InCtx(n.Ctx, n.Call.Args[1]).String()
		switch {
		case strings.Contains(s, "ReadFile("):
			data++
		case strings.Contains(s, "\"\\n\""):
			nl++
		}
		if core.InnermostLoop(n.Instr) == nil {
			ob2.Fail(g.Where(n), "a write is outside the loop over the received IPs")
		}
	}
	ob2.Check(data >= 2 && nl >= 2 && data == nl, core.FuncName(run), fmt.Sprintf("%d content writes, %d newline writes", data, nl), fmt.Sprintf("%d content writes and %d newline writes (one of each per branch expected)", data, nl))
}
