package rules

import (
	"fmt"
	"go/constant"
	"go/types"
	"regexp/syntax"
	"sort"
	"strings"

	"golang.org/x/tools/go/ssa"

	"scicheck/internal/core"
)

func init() { Registry["C15"] = c15 }

// placeholderTypes extracts the alternatives of the first capture group of the placeholder regex.
func (e *Env) placeholderTypes() (alts []string, lit string, where string) {
	fn := e.P.Func("getShellCommandPlaceHolderRegex")
	if fn == nil {
		return nil, "", "-"
	}
	for _, b := range fn.Blocks {
		for _, in := range b.Instrs {
			c, ok := in.(*ssa.Call)
			if !ok || c.Call.StaticCallee() == nil || !strings.HasPrefix(c.Call.StaticCallee().String(), "regexp.") {
				continue
			}
			s := e.symbolizer().InFunc(fn, c.Call.Args[0])
			if s.Op != "lit" {
				continue
			}
			lit, where = s.Lit, e.where(c)
			re, err := syntax.Parse(lit, syntax.Perl)
			if err != nil {
				return nil, lit, where
			}
			var find func(r *syntax.Regexp) *syntax.Regexp
			find = func(r *syntax.Regexp) *syntax.Regexp {
				if r.Op == syntax.OpCapture && r.Cap == 1 {
					return r
				}
				for _, s := range r.Sub {
					if x := find(s); x != nil {
						return x
					}
				}
				return nil
			}
			if cp := find(re); cp != nil {
				alts = enumerate(cp.Sub[0])
			}
		}
	}
	sort.Strings(alts)
	return
}

// enumerate lists the finite language of a small regex (literals, alternations, concatenations, ?), nil if infinite.
func enumerate(r *syntax.Regexp) []string {
	switch r.Op {
	case syntax.OpLiteral:
		return []string{string(r.Rune)}
	case syntax.OpEmptyMatch:
		return []string{""}
	case syntax.OpCharClass:
		var out []string
		for i := 0; i+1 < len(r.Rune); i += 2 {
			for c := r.Rune[i]; c <= r.Rune[i+1]; c++ {
				out = append(out, string(c))
				if len(out) > 64 {
					return nil
				}
			}
		}
		return out
	case syntax.OpAlternate:
		var out []string
		for _, s := range r.Sub {
			x := enumerate(s)
			if x == nil {
				return nil
			}
			out = append(out, x...)
		}
		return out
	case syntax.OpConcat:
		out := []string{""}
		for _, s := range r.Sub {
			x := enumerate(s)
			if x == nil {
				return nil
			}
			var nx []string
			for _, a := range out {
				for _, b := range x {
					nx = append(nx, a+b)
				}
			}
			out = nx
		}
		return out
	case syntax.OpQuest:
		x := enumerate(r.Sub[0])
		if x == nil {
			return nil
		}
		return append([]string{""}, x...)
	case syntax.OpCapture:
		return enumerate(r.Sub[0])
	}
	return nil
}

func c15(e *Env) {
	r := e.R
	r.Explanation = "Table and structure checks behind placeholder expansion: (R1) exhaustiveness: every placeholder type the regex can match (first capture group, enumerated with regexp/syntax) is an arm of the command formatter or reaches its fatal default, and likewise in the output-path pattern function of SetOut; (R2) the modifier function applies the modifier list in index order (range over the slice, no reversal), has a handler for each documented modifier (basename, dirname, %suffix, s/a/b/), and removes a suffix as a suffix (no cut-set trimming with a variable cut-set); (R3) every occurrence of a placeholder is replaced: the count operand of the substituting strings.Replace is negative in the formatter and in SetOut; (R4) a missing or empty value - absent key or present-but-empty, for parameters, tags, in-IPs and out-IPs - makes exit inevitable before a command is formed; the Task accessors Param/Tag/InIP/OutIP are fatal on absence; (R5) the default output name and the command contain no value taken from a direct map range (order determinism)."
	r.NotDecided = "the result strings of modifier chains for concrete values (regex semantics of s/a/b/, the arithmetic of %suffix trimming): that is most of the property and is not reachable by this family; only the structure around it is decided."
	p := e.P
	fi := e.formatter()
	alts, lit, where := e.placeholderTypes()
	ob1 := func(k string) *core.Obligation {
		return r.Ob("R1", "placeholder-type:"+k, "the placeholder type the regex accepts is handled by an arm or reaches the fatal default, in the command formatter and in SetOut's path function")
	}
	if len(alts) == 0 || len(fi.problems) > 0 || fi.fn == nil {
		ob1("regex").Unknown(where, "placeholder regex alternatives or formatter not resolved: "+lit+" "+strings.Join(fi.problems, ";"))
		return
	}
	// SetOut closure
	var setOutFn *ssa.Function
	if so := p.DeclaredMethod("scipipe", "Process", "SetOut"); so != nil {
		for _, an := range so.AnonFuncs {
			setOutFn = an
		}
	}
	setOutCases := map[string]bool{}
	setOutDefaultFatal := false
	if setOutFn != nil {
		for _, b := range setOutFn.Blocks {
			if iff, ok := b.Instrs[len(b.Instrs)-1].(*ssa.If); ok {
				if bo, ok := iff.Cond.(*ssa.BinOp); ok {
					for _, v := range []ssa.Value{bo.X, bo.Y} {
						if k, ok := v.(*ssa.Const); ok && k.Value != nil && k.Value.Kind() == constant.String {
							setOutCases[constant.StringVal(k.Value)] = true
						}
					}
				}
			}
		}
		gs := e.XG(setOutFn)
		if gs != nil {
			// the type tag is match[1]: find string comparisons' common operand
			for _, n := range gs.Nodes {
				if n.Ctx != gs.Root {
					continue
				}
				if bo, ok := n.Instr.(*ssa.BinOp); ok {
					if k, ok := bo.Y.(*ssa.Const); ok && k.Value != nil && k.Value.Kind() == constant.String && setOutCases[constant.StringVal(k.Value)] {
						// assume the tag value (bo.X) unknown-type: run from its definition
						for _, m := range gs.Nodes {
							if v, ok := m.Instr.(ssa.Value); ok && v == bo.X && m.Ctx == gs.Root {
								res := gs.Run(core.Scenario{Start: m, Result: core.StrAV("\x00unknown")})
								if res.NormalReturn() == nil {
									setOutDefaultFatal = true
								}
							}
						}
					}
				}
			}
		}
	}
	// formatter default fatal: C09-style scenario on NewTask's XG
	fmtDefaultFatal := false
	a := e.anchors()
	if g, err := p.BuildXG(a.newTask, core.XGOpts{NoInline: func(f *ssa.Function) bool { return f.Name() == "NewFileIP" }}); err == nil {
		for _, n := range g.Nodes {
			if n.Ctx.Fn != fi.fn {
				continue
			}
			if v, ok := n.Instr.(ssa.Value); ok && fieldOfLoad(v) == fi.tagField && fi.tagField != nil {
				if g.Run(core.Scenario{Start: n, Result: core.StrAV("\x00unknown")}).NormalReturn() == nil {
					fmtDefaultFatal = true
				}
			}
		}
	}
	for _, t := range alts {
		ob := ob1(t)
		_, inFmt := fi.arms[t]
		switch {
		case !inFmt && !fmtDefaultFatal:
			ob.Fail(core.FuncName(fi.fn), "placeholder type \""+t+"\" is accepted by the regex but has no arm in the command formatter and the default is not fatal: the placeholder is replaced by an empty string")
		case setOutFn != nil && !setOutCases[t] && !setOutDefaultFatal:
			ob.Fail(core.FuncName(setOutFn), "placeholder type \""+t+"\" has no case in SetOut's path function and its default is not fatal")
		default:
			how := "arm"
			if !inFmt {
				how = "fatal default"
			}
			ob.OK(where, "formatter: "+how+"; SetOut: "+map[bool]string{true: "case", false: "fatal default"}[setOutCases[t]])
		}
	}
	// ---- R2 modifiers
	e.c15Modifiers()
	// ---- R3 replace count
	ob3 := func(k string) *core.Obligation {
		return r.Ob("R3", k+":Replace n<0", "every occurrence of the placeholder is replaced (strings.Replace count negative, or ReplaceAll)")
	}
	chkRepl := func(fn *ssa.Function, key string, isSubst func(c *ssa.Call) bool) {
		o := ob3(key)
		if fn == nil {
			o.Unknown("-", "function not found")
			return
		}
		n := 0
		for _, b := range fn.Blocks {
			for _, in := range b.Instrs {
				c, ok := in.(*ssa.Call)
				if !ok || c.Call.StaticCallee() == nil || !isSubst(c) {
					continue
				}
				n++
				switch c.Call.StaticCallee().String() {
				case "strings.ReplaceAll":
					o.OK(e.where(c), "ReplaceAll")
				case "strings.Replace":
					k, ok := c.Call.Args[3].(*ssa.Const)
					o.Check(ok && k.Value != nil && k.Int64() < 0, e.where(c), "count "+c.Call.Args[3].String(), "the placeholder substitution replaces only "+c.Call.Args[3].String()+" occurrence(s): a pattern using the same placeholder twice keeps an unreplaced {..} in the command")
				}
			}
		}
		if n == 0 {
			o.Fail(core.FuncName(fn), "no substituting strings.Replace found")
		}
	}
	chkRepl(fi.fn, "formatter", func(c *ssa.Call) bool { return c == fi.replace })
	chkRepl(setOutFn, "SetOut", func(c *ssa.Call) bool {
		nm := c.Call.StaticCallee().String()
		if nm != "strings.Replace" && nm != "strings.ReplaceAll" {
			return false
		}
		_, isPhi := c.Call.Args[2].(*ssa.Phi)
		return isPhi
	})
	// ---- R4 missing values
	e.c15Missing()
	// ---- R5 order determinism
	ob5 := r.Ob("R5", "default-path:order", "the default output name is built from sorted keys only (no direct map range reaches it)")
	if idp := p.DeclaredMethod("scipipe", "Process", "initDefaultPathFuncs"); idp != nil && len(idp.AnonFuncs) > 0 {
		sy := e.symbolizer()
		for _, an := range idp.AnonFuncs {
			for _, b := range an.Blocks {
				for _, in := range b.Instrs {
					if rt, ok := in.(*ssa.Return); ok {
						s := sy.InFunc(an, rt.Results[0])
						bad := ""
						s.Walk(func(z *core.Sym) bool {
							// a map range inside the path function itself (the captured port name of the enclosing
							// per-port loop is one fixed key per closure, not an order-dependent accumulation)
							if (z.Op == "rangekey" || z.Op == "rangeval") && z.Fn == an {
								bad = z.String()
							}
							return bad == ""
						})
						fl := ""
						if isCallSym(s, "strings.Join") {
							fl = "Join(pieces, " + s.Args[1].String() + ")"
						}
						ob5.Check(bad == "", e.where(rt), fl+" over sorted keys", "the default output path contains "+bad+", taken from a direct map range: the file name depends on Go's random map order")
					}
				}
			}
		}
	} else {
		ob5.Unknown("-", "default path function not found")
	}
	ob5b := r.Ob("R5", "formatter:order", "the command is assembled in the order of the placeholder matches (no map range in the formatter feeds the command)")
	nRange := 0
	for _, b := range fi.fn.Blocks {
		for _, in := range b.Instrs {
			if rg, ok := in.(*ssa.Range); ok {
				if _, isMap := rg.X.Type().Underlying().(*types.Map); isMap {
					nRange++
					ob5b.Fail(e.where(rg), "the formatter ranges over a map ("+e.symbolizer().InFunc(fi.fn, rg.X).String()+")")
				}
			}
		}
	}
	if nRange == 0 {
		ob5b.OK(core.FuncName(fi.fn), "no map range in the formatter")
	}
}

func (e *Env) c15Modifiers() {
	r := e.R
	p := e.P
	fn := p.Func("applyPathModifiers")
	obO := r.Ob("R2", "modifiers:order", "modifiers are applied in list order: one range over the modifier slice, each iteration transforming the running value")
	if fn == nil {
		obO.Unknown("-", "applyPathModifiers not found")
		return
	}
	sy := e.symbolizer()
	// the loop: a counted index loop over param modifiers, ascending
	var loopOK, found bool
	for _, b := range fn.Blocks {
		for _, in := range b.Instrs {
			ia, ok := in.(*ssa.IndexAddr)
			if !ok {
				continue
			}
			if pa, ok := ia.X.(*ssa.Parameter); !ok || pa != fn.Params[1] {
				continue
			}
			found = true
			idx := sy.InFunc(fn, ia.Index).String()
			// ssa's range-over-slice index: op+(φ(-1 | ↺), 1)
			loopOK = idx == "op+(φ(-1 | ↺), 1)"
			if l := core.InnermostLoop(ia); l != nil {
				if ex := p.EarlyExits(l); len(ex) > 0 {
					loopOK = false
					obO.Fail(e.where(ia), "the modifier loop can be left early: "+ex[0])
				}
			}
		}
	}
	if !found {
		obO.Fail(core.FuncName(fn), "the modifier list is never iterated")
	} else {
		obO.Check(loopOK, core.FuncName(fn), "ascending index loop over the modifier slice", "the modifier slice is not traversed front to back")
	}
	// handlers
	consts := map[string]bool{}
	var regexes []string
	for _, b := range fn.Blocks {
		for _, in := range b.Instrs {
			for _, op := range in.Operands(nil) {
				if k, ok := (*op).(*ssa.Const); ok && k.Value != nil && k.Value.Kind() == constant.String {
					consts[constant.StringVal(k.Value)] = true
				}
			}
			if c, ok := in.(*ssa.Call); ok && c.Call.StaticCallee() != nil && strings.HasPrefix(c.Call.StaticCallee().String(), "regexp.") && len(c.Call.Args) > 0 {
				if k, ok := c.Call.Args[0].(*ssa.Const); ok && k.Value != nil {
					regexes = append(regexes, constant.StringVal(k.Value))
				}
			}
		}
	}
	type h struct{ key, desc string; ok bool }
	hasRe := func(pred func(string) bool) bool {
		for _, x := range regexes {
			if pred(x) {
				return true
			}
		}
		return false
	}
	hs := []h{
		{"basename", "handler for `basename` (docs: common.go applyPathModifiers comment)", consts["basename"]},
		{"dirname", "handler for `dirname`", consts["dirname"]},
		{"%suffix", "handler for `%suffix` trimming", hasRe(func(x string) bool { return strings.HasPrefix(x, "%") })},
		{"s/a/b/", "handler for `s/SEARCH/REPLACE/`", hasRe(func(x string) bool { return strings.HasPrefix(x, "s\\/") || strings.HasPrefix(x, "s/") })},
	}
	for _, x := range hs {
		r.Ob("R2", "modifiers:"+x.key, x.desc).Check(x.ok, core.FuncName(fn), "present", "the documented modifier "+x.key+" has no handler in "+core.FuncName(fn))
	}
	obT := r.Ob("R2", "modifiers:no-cutset-trim", "a suffix/prefix given by the user is removed as a suffix/prefix: no strings.Trim/TrimLeft/TrimRight with a variable cut-set")
	e.noCutsetTrim(obT, fn)
}

func (e *Env) c15Missing() {
	e.formatterMissingRule("R4")
	e.accessorRule("R4")
}

// formatterMissingRule: per placeholder arm, an absent or present-but-empty value is fatal.
func (e *Env) formatterMissingRule(rule string) {
	r := e.R
	a := e.anchors()
	fi := e.formatter()
	p := e.P
	nfip := p.Func("NewFileIP")
	g, err := p.BuildXG(a.newTask, core.XGOpts{NoInline: func(f *ssa.Function) bool { return f == nfip }})
	if err != nil {
		r.Ob(rule, "formatter", "missing values fatal").Unknown("-", err.Error())
		return
	}
	// per arm: every lookup of the value map that is the FIRST in its arm is tried with: absent, and present-but-empty
	for _, label := range []string{"o", "os", "i", "p", "t"} {
		ob := r.Ob(rule, "formatter["+label+"]:missing-or-empty⇒exit", "an absent or empty value for this placeholder type makes exit inevitable before the command is formed")
		if _, ok := fi.arms[label]; !ok {
			continue
		}
		okArm := false
		whyNot := "no guarded lookup found in the arm"
		for _, n := range g.Nodes {
			if n.Ctx.Fn != fi.fn {
				continue
			}
			lk, ok := n.Instr.(*ssa.Lookup)
			if !ok {
				continue
			}
			if _, isParam := lk.X.(*ssa.Parameter); !isParam {
				continue
			}
			if l, _ := armLabel(lk.Block()); l != label {
				continue
			}
			mt := lk.X.Type().Underlying().(*types.Map)
			var cases []core.AV
			switch mt.Elem().Underlying().(type) {
			case *types.Pointer:
				if lk.CommaOk {
					cases = []core.AV{core.TupleAV(core.NilAV(), core.BoolAV(false)), core.TupleAV(core.NilAV(), core.BoolAV(true))}
				} else {
					cases = []core.AV{core.NilAV()}
				}
			case *types.Basic:
				if lk.CommaOk {
					cases = []core.AV{core.TupleAV(core.StrAV(""), core.BoolAV(false)), core.TupleAV(core.StrAV(""), core.BoolAV(true))}
				} else {
					cases = []core.AV{core.StrAV("")}
				}
			default:
				continue
			}
			all := true
			for i, cs := range cases {
				if g.Run(core.Scenario{Start: n, Result: cs}).NormalReturn() != nil {
					all = false
					if lk.CommaOk && i == 1 {
						whyNot = "a value that is present but empty (\"\") passes the check at " + g.Where(n) + ": the command is formed with an empty placeholder"
					} else {
						whyNot = "an absent value passes the check at " + g.Where(n)
					}
				}
			}
			if all {
				okArm = true
				ob.OK(g.Where(n), "absent/empty "+lk.X.Name()+"[..] ⇒ exit")
				break
			}
		}
		if !okArm {
			ob.Fail(core.FuncName(fi.fn), whyNot)
		}
	}
}

// accessorRule: the Task accessors are fatal when the named value is absent.
func (e *Env) accessorRule(rule string) {
	r := e.R
	p := e.P
	for _, acc := range []string{"Param", "Tag", "InIP", "OutIP"} {
		ob := r.Ob(rule, "(*Task)."+acc, "the accessor is fatal when the named value is absent")
		fn := p.Func("Task." + acc)
		if fn == nil {
			ob.Unknown("-", "not found")
			continue
		}
		ga := e.XG(fn)
		if ga == nil {
			continue
		}
		n0 := 0
		for _, n := range ga.Nodes {
			lk, ok := n.Instr.(*ssa.Lookup)
			if !ok || n.Ctx != ga.Root {
				continue
			}
			n0++
			var missing core.AV
			if _, isPtr := lk.X.Type().Underlying().(*types.Map).Elem().Underlying().(*types.Pointer); isPtr {
				missing = core.NilAV()
			} else {
				missing = core.StrAV("")
			}
			if lk.CommaOk {
				missing = core.TupleAV(missing, core.BoolAV(false))
			}
			if ga.Run(core.Scenario{Start: n, Result: missing}).NormalReturn() != nil {
				// a later lookup of the same map in the same function may be the guarded one; only fail if none is fatal
				continue
			}
			ob.OK(ga.Where(n), "absent ⇒ exit")
		}
		if ob.Sites == 0 {
			ob.Fail(core.FuncName(fn), fmt.Sprintf("none of the %d lookups is guarded by a fatal check", n0))
		}
	}
}
