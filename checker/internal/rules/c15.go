package rules

import (
	"fmt"
	"go/constant"
	"go/token"
	"go/types"
	"regexp/syntax"
	"sort"
	"strings"

	"golang.org/x/tools/go/ssa"

	"scicheck/internal/core"
)

func init() { Registry["C15"] = c15 }

// enumerateFirstGroup returns the finite language of the first capture group of lit (nil if infinite/invalid).
func enumerateFirstGroup(lit string) []string {
	re, err := syntax.Parse(lit, syntax.Perl)
	if err != nil {
		return nil
	}
	var find func(r *syntax.Regexp) *syntax.Regexp
	find = func(r *syntax.Regexp) *syntax.Regexp {
		if r.Op == syntax.OpCapture && r.Cap == 1 {
			return r
		}
		for _, s := range r.Sub {
			if x := find(s); x != nil {
				return x
			}
		}
		return nil
	}
	cp := find(re)
	if cp == nil {
		return nil
	}
	alts := enumerate(cp.Sub[0])
	sort.Strings(alts)
	return alts
}

// enumerate lists the finite language of a small regex (literals, alternations, concatenations, ?), nil if infinite.
func enumerate(r *syntax.Regexp) []string {
	switch r.Op {
	case syntax.OpLiteral:
		return []string{string(r.Rune)}
	case syntax.OpEmptyMatch:
		return []string{""}
	case syntax.OpCharClass:
		var out []string
		for i := 0; i+1 < len(r.Rune); i += 2 {
			for c := r.Rune[i]; c <= r.Rune[i+1]; c++ {
				out = append(out, string(c))
				if len(out) > 64 {
					return nil
				}
			}
		}
		return out
	case syntax.OpAlternate:
		var out []string
		for _, s := range r.Sub {
			x := enumerate(s)
			if x == nil {
				return nil
			}
			out = append(out, x...)
		}
		return out
	case syntax.OpConcat:
		out := []string{""}
		for _, s := range r.Sub {
			x := enumerate(s)
			if x == nil {
				return nil
			}
			var nx []string
			for _, a := range out {
				for _, b := range x {
					nx = append(nx, a+b)
				}
			}
			out = nx
		}
		return out
	case syntax.OpQuest:
		x := enumerate(r.Sub[0])
		if x == nil {
			return nil
		}
		return append([]string{""}, x...)
	case syntax.OpCapture:
		return enumerate(r.Sub[0])
	}
	return nil
}

func c15(e *Env) {
	r := e.R
	r.Explanation = "Table and structure checks behind placeholder expansion: (R1) exhaustiveness: every placeholder type the regex can match (first capture group, enumerated with regexp/syntax) is an arm of the command formatter or reaches its fatal default, and likewise in the output-path pattern function of SetOut; (R2) the modifier function applies the modifier list in index order (range over the slice, no reversal), has a handler for each documented modifier (basename, dirname, %suffix, s/a/b/), and removes a suffix as a suffix (no cut-set trimming with a variable cut-set); (R3) every occurrence of a placeholder is replaced: the count operand of the substituting strings.Replace is negative in the formatter and in SetOut; (R4) a missing or empty value - absent key or present-but-empty, for parameters, tags, in-IPs and out-IPs - makes exit inevitable before a command is formed; the Task accessors Param/Tag/InIP/OutIP are fatal on absence; (R5) the default output name and the command contain no value taken from a direct map range (order determinism)."
	r.NotDecided = "the result strings of modifier chains for concrete values (regex semantics of s/a/b/, the arithmetic of %suffix trimming): that is most of the property and is not reachable by this family; only the structure around it is decided."
	p := e.P
	fi := e.formatter()
	ob1 := func(k string) *core.Obligation {
		return r.Ob("R1", "placeholder-type:"+k, "the placeholder type the regex accepts is handled by an arm or reaches the fatal default, in the command formatter and in SetOut's path function")
	}
	if !fi.ok(ob1("regex")) {
		return
	}
	r.Ob("R1", "placeholder-type:regex", "").OK(fi.regexPos, "placeholder types "+strings.Join(fi.types, "|")+" from "+fi.regexLit)
	alts, where := fi.types, fi.regexPos
	// SetOut's path function: the function SetOut hands to SetOutFunc
	setOutFn := e.setOutPathFunc()
	setOutHandled := map[string]string{}
	if setOutFn != nil {
		gs := e.XG(setOutFn)
		if gs != nil {
			for _, T := range append(append([]string{}, alts...), "\x00unknown") {
				setOutHandled[T] = e.setOutArm(gs, T, alts)
			}
		}
	}
	for _, T := range alts {
		ob := ob1(T)
		res := fi.arm(T, false, false)
		fatal := fi.fatalFor(T)
		may, _, ns := fi.armFacts(res)
		hasValue := may&(fvTemp|fvPath|fvFifo) != 0 || len(fi.valueLookups(res)) > 0
		switch {
		case !fatal && (ns == 0 || !hasValue):
			ob.Fail(where, "placeholder type \""+T+"\" is accepted by the regex but no arm supplies a value for it and the default is not fatal: the placeholder is replaced by an empty string")
		case setOutFn != nil && setOutHandled[T] == "unhandled":
			ob.Fail(core.FuncName(setOutFn), "placeholder type \""+T+"\" has no case in SetOut's path function and its default is not fatal")
		default:
			how := "arm"
			if fatal {
				how = "fatal default"
			}
			ob.OK(where, "formatter: "+how+"; SetOut: "+setOutHandled[T])
		}
	}
	// ---- R2 modifiers
	e.c15Modifiers()
	// ---- R3 replace count
	chk := func(key string, nodes []*core.Node, g *core.XG, fnName string) {
		o := r.Ob("R3", key+":Replace n<0", "every occurrence of the placeholder is replaced (strings.Replace count negative, or ReplaceAll)")
		if len(nodes) == 0 {
			o.Fail(fnName, "no substituting strings.Replace found")
			return
		}
		for _, n := range nodes {
			if n.IsCallTo("strings.ReplaceAll") {
				o.OK(g.Where(n), "ReplaceAll")
				continue
			}
			k, ok := n.Call.Args[3].(*ssa.Const)
			o.Check(ok && k.Value != nil && k.Int64() < 0, g.Where(n), "count "+n.Call.Args[3].String(), "the placeholder substitution replaces only "+n.Call.Args[3].String()+" occurrence(s): a pattern using the same placeholder twice keeps an unreplaced {..}")
		}
		// each occurrence is expanded on its own: the substituted value is not taken from a table that earlier
		// occurrences filled (two occurrences of one name may carry different modifier chains)
		oi := r.Ob("R3", key+":occurrences-independent", "the value substituted for a placeholder occurrence is computed from that occurrence (name and its own modifiers), not looked up in a cache filled by earlier occurrences")
		for _, n := range nodes {
			val := e.fsym().InCtx(n.Ctx, n.Call.Args[2])
			cached := ""
			val.Walk(func(z *core.Sym) bool {
				if z.Op == "elem" && len(z.Args) > 0 {
					base := z.Args[0]
					isLocalMap := false
					base.Walk(func(w *core.Sym) bool {
						if w.Op == "call" && w.Name == "makemap" && !(w.Fn != nil && w.Fn.Name() == "init") {
							isLocalMap = true // (a package-level table filled by the initialiser is not a per-expansion cache)
						}
						return !isLocalMap
					})
					if isLocalMap && (base.Op == "call" || base.Op == "phi") {
						cached = z.String()
					}
				}
				return cached == ""
			})
			oi.Check(cached == "", g.Where(n), "no loop-carried lookup table in the substituted value", "the substituted value can come from "+trunc(cached, 100)+", a table local to the expansion that earlier placeholder occurrences filled: a second occurrence of the same name with a different modifier chain gets the first one's expansion")
		}
	}
	chk("formatter", fi.subst, fi.g, "NewTask")
	if setOutFn != nil {
		if gs := e.XG(setOutFn); gs != nil {
			var ns []*core.Node
			for _, n := range gs.Nodes {
				if n.IsCallTo("strings.Replace", "strings.ReplaceAll") && len(n.Call.Args) >= 3 && !(fi.modsFn != nil && inCtxOfFn(n, fi.modsFn)) {
					if _, lit := n.Call.Args[1].(*ssa.Const); !lit {
						if from := e.fsym().InCtx(n.Ctx, n.Call.Args[1]); from.Op != "lit" {
							ns = append(ns, n)
						}
					}
				}
			}
			chk("SetOut", ns, gs, core.FuncName(setOutFn))
		}
	}
	// ---- R4 missing values
	e.c15Missing()
	// ---- R6 the substituted text comes from the port's value (value flow per arm)
	e.fmtValueFlow("R6")
	e.setOutValueFlow("R6")
	// ---- R7 port discovery from the command pattern
	e.portDiscovery("R7")
	// ---- R5 order determinism
	ob5 := r.Ob("R5", "default-path:order", "the default output name is built from sorted keys only (no direct map range reaches it)")
	// the default path functions: the function values stored into Process.PathFuncs while a process is built
	// (NewProc's call tree), whether they are literals, named functions or come out of a factory
	var defFns []*ssa.Function
	if np := p.Func("NewProc"); np != nil {
		if gn := e.XG(np); gn != nil {
			for _, n := range gn.Nodes {
				mu, ok := n.Instr.(*ssa.MapUpdate)
				if !ok {
					continue
				}
				if f := fieldOfLoad(mu.Map); f == nil || f.Name() != "PathFuncs" {
					continue
				}
				var fn *ssa.Function
				switch v := mu.Value.(type) {
				case *ssa.MakeClosure:
					fn, _ = v.Fn.(*ssa.Function)
					// a closure made in a loop must capture per-iteration values: under the module's Go version (< 1.22)
					// the iteration variable of a range loop is one cell shared by all iterations
					obC := r.Ob("R5", "default-path:closure-captures", "a path function created in a loop over the ports captures per-iteration copies, not the loop's shared iteration variable")
					bad := ""
					if l := core.InnermostLoop(v); l != nil {
						for _, b := range v.Bindings {
							al, ok := b.(*ssa.Alloc)
							if !ok || l.Blocks[al.Block()] {
								continue
							}
							for _, ref := range *al.Referrers() {
								if st, ok := ref.(*ssa.Store); ok && st.Addr == ssa.Value(al) && l.Blocks[st.Block()] {
									bad = al.Comment
								}
							}
						}
					}
					obC.Check(bad == "", gn.Where(n), "bindings are per-iteration values", "the path function captures the loop variable `"+bad+"`, which all iterations share (go.mod selects pre-1.22 loop semantics): every default path function uses the port visited last, so outputs of different ports get the same default name")
				case *ssa.Function:
					fn = v
				case *ssa.Call:
					fn, _ = core.FactoryClosure(v)
				}
				if fn != nil {
					dup := false
					for _, x := range defFns {
						if x == fn {
							dup = true
						}
					}
					if !dup {
						defFns = append(defFns, fn)
					}
				}
			}
		}
	}
	for _, fn := range defFns {
		gd := e.XG(fn)
		if gd == nil {
			continue
		}
		e.defaultPathCoverage("R5", fn)
		nr := 0
		for _, n := range gd.Nodes {
			rg, ok := n.Instr.(*ssa.Range)
			if !ok {
				continue
			}
			if _, isMap := rg.X.Type().Underlying().(*types.Map); !isMap {
				continue
			}
			nr++
			// a map may be ranged only inside a helper that hands back its result sorted
			hf := n.Ctx.Fn
			okSorted := n.Ctx != gd.Root && returnsSlice(hf) && sortsResult(hf)
			ob5.Check(okSorted, gd.Where(n), "map ranged inside "+core.FuncName(hf)+", which sorts what it returns", "the default output path is assembled from a direct range over the map "+e.symbolizer().InCtx(n.Ctx, rg.X).String()+": the file name depends on Go's random map iteration order")
		}
		if nr == 0 {
			ob5.OK(core.FuncName(fn), "no map range in the default path function's call tree")
		}
	}
	if len(defFns) == 0 {
		ob5.Unknown("-", "default path function not found (no function value is stored into Process.PathFuncs in NewProc's call tree)")
	}
	ob5b := r.Ob("R5", "formatter:order", "the command is assembled in the order of the placeholder matches (no map range feeds the command text)")
	nRange := 0
	seenFn := map[*ssa.Function]bool{}
	for _, c := range fi.g.Ctxs {
		if c == fi.g.Root || seenFn[c.Fn] {
			continue
		}
		// only functions on the way to a substitution
		onPath := false
		for _, sn := range fi.subst {
			for x := sn.Ctx; x != nil; x = x.Parent {
				if x.Fn == c.Fn {
					onPath = true
				}
			}
		}
		if !onPath {
			continue
		}
		seenFn[c.Fn] = true
		for _, b := range c.Fn.Blocks {
			for _, in := range b.Instrs {
				if rg, ok := in.(*ssa.Range); ok {
					if _, isMap := rg.X.Type().Underlying().(*types.Map); isMap {
						nRange++
						ob5b.Fail(e.where(rg), "the formatter ranges over a map ("+e.symbolizer().InFunc(c.Fn, rg.X).String()+")")
					}
				}
			}
		}
	}
	if nRange == 0 {
		ob5b.OK(fi.regexPos, "no map range in the functions that build the command")
	}
}

// setOutPathFunc: the function value SetOut passes to SetOutFunc.
func (e *Env) setOutPathFunc() *ssa.Function {
	so := e.P.DeclaredMethod("scipipe", "Process", "SetOut")
	if so == nil {
		return nil
	}
	for _, b := range so.Blocks {
		for _, in := range b.Instrs {
			if c, ok := in.(*ssa.Call); ok && c.Call.StaticCallee() != nil && c.Call.StaticCallee().Name() == "SetOutFunc" {
				for _, a := range c.Call.Args {
					if f := funcOf(a); f != nil {
						return f
					}
				}
			}
		}
	}
	for _, an := range so.AnonFuncs {
		return an
	}
	return nil
}

// setOutArm explores SetOut's path function for placeholder type T: the value compared with the type
// constants is assumed to be T at its definition.  Returns "case", "fatal default" or "unhandled".
func (e *Env) setOutArm(gs *core.XG, T string, alts []string) string {
	sy := e.symbolizer()
	// find the compared tag values (resolved through parameters to their defining node)
	type def struct {
		n *core.Node
	}
	var defs []*core.Node
	seen := map[*core.Node]bool{}
	for _, n := range gs.Nodes {
		bo, ok := n.Instr.(*ssa.BinOp)
		if !ok {
			continue
		}
		for _, pair := range [][2]ssa.Value{{bo.X, bo.Y}, {bo.Y, bo.X}} {
			k, ok := pair[1].(*ssa.Const)
			if !ok || k.Value == nil || k.Value.Kind() != constant.String || !containsStr(alts, constant.StringVal(k.Value)) {
				continue
			}
			s := sy.InCtx(n.Ctx, pair[0])
			if s.Val == nil || s.Fn == nil {
				continue
			}
			for _, m := range gs.Nodes {
				if v, ok := m.Instr.(ssa.Value); ok && v == s.Val && m.Ctx.Fn == s.Fn && !seen[m] {
					seen[m] = true
					defs = append(defs, m)
				}
			}
		}
	}
	if len(defs) == 0 {
		return "unhandled"
	}
	handled := "unhandled"
	for _, d := range defs {
		res := gs.Run(core.Scenario{Start: d, Result: core.StrAV(T)})
		if res.NormalReturn() == nil {
			if handled == "unhandled" {
				handled = "fatal default"
			}
			continue
		}
		// a value source must be reachable: an accessor of the task or a path function
		src := res.Reaches(func(m *core.Node) bool {
			if m.Callee == nil || m.Kind == core.KAfter {
				return false
			}
			switch core.FuncName(m.Callee) {
			case "(*Task).InPath", "(*Task).Param", "(*Task).Tag", "(*Task).InIP", "(*Task).OutIP", "(*Task).OutPath":
				return true
			}
			return false
		})
		dyn := res.Reaches(func(m *core.Node) bool { return m.IsDynCall() })
		if src != nil || dyn != nil {
			handled = "case"
		}
	}
	return handled
}

func (e *Env) c15Modifiers() {
	r := e.R
	p := e.P
	// the modifier function: identified by its role (the (string, []string) string function the formatter
	// applies to every path), by name as a fallback
	var fn *ssa.Function
	if fi := e.formatter(); fi != nil && fi.modsFn != nil {
		fn = fi.modsFn
	}
	if fn == nil {
		fn = p.Func("applyPathModifiers")
	}
	obO := r.Ob("R2", "modifiers:order", "modifiers are applied in list order: one range over the modifier slice, each iteration transforming the running value")
	if fn == nil {
		obO.Unknown("-", "applyPathModifiers not found")
		return
	}
	g := e.XG(fn)
	if g == nil {
		return
	}
	sy := e.fsym()
	// the loop: an ascending index loop over the modifier parameter (range, or for i := 0; i < len; i++)
	var loopOK, found bool
	for _, n := range g.Nodes {
		ia, ok := n.Instr.(*ssa.IndexAddr)
		if !ok {
			continue
		}
		if base := sy.InCtx(n.Ctx, ia.X); base.Op != "param" || base.Name != fn.Params[1].Name() {
			continue
		}
		found = true
		idx := sy.InCtx(n.Ctx, ia.Index).String()
		// ssa's range-over-slice index: op+(φ(-1 | ↺), 1); the explicit counted loop: φ(0 | op+(↺, 1))
		loopOK = idx == "op+(φ(-1 | ↺), 1)" || idx == "φ(0 | op+(↺, 1))"
		if la, ok := e.loopOver(g, n, ""); ok {
			if !e.loopHarmlessExits(g, la) {
				loopOK = false
				obO.Fail(g.Where(n), "the modifier loop can be left early")
			}
		} else {
			loopOK = false
		}
	}
	if !found {
		obO.Fail(core.FuncName(fn), "the modifier list is never iterated")
	} else {
		obO.Check(loopOK, core.FuncName(fn), "ascending index loop over the modifier slice", "the modifier slice is not traversed front to back")
	}
	// handlers: string constants compared and regular expressions used anywhere in the modifier function's call
	// tree (patterns compiled in package-level variables are resolved through their initialiser)
	consts := map[string]bool{}
	var regexes []string
	for _, n := range g.Nodes {
		if n.Instr == nil || n.Kind == core.KAfter {
			continue
		}
		for _, op := range n.Instr.Operands(nil) {
			if *op == nil {
				continue
			}
			if k, ok := (*op).(*ssa.Const); ok && k.Value != nil && k.Value.Kind() == constant.String {
				consts[constant.StringVal(k.Value)] = true
			}
		}
		if c, ok := n.Instr.(*ssa.Call); ok && c.Call.StaticCallee() != nil && strings.HasPrefix(c.Call.StaticCallee().String(), "(*regexp.Regexp).") && len(c.Call.Args) > 0 {
			sy.InCtx(n.Ctx, c.Call.Args[0]).Walk(func(z *core.Sym) bool {
				if z.Op == "call" && (z.Name == "regexp.MustCompile" || z.Name == "regexp.Compile") && len(z.Args) == 1 && z.Args[0].Op == "lit" {
					regexes = append(regexes, z.Args[0].Lit)
				}
				return true
			})
		}
	}
	type h struct {
		key, desc string
		ok        bool
	}
	hasRe := func(pred func(string) bool) bool {
		for _, x := range regexes {
			if pred(x) {
				return true
			}
		}
		return false
	}
	hs := []h{
		{"basename", "handler for `basename` (docs: common.go applyPathModifiers comment)", consts["basename"]},
		{"dirname", "handler for `dirname`", consts["dirname"]},
		{"%suffix", "handler for `%suffix` trimming", hasRe(func(x string) bool { return strings.HasPrefix(x, "%") })},
		{"s/a/b/", "handler for `s/SEARCH/REPLACE/`", hasRe(func(x string) bool { return strings.HasPrefix(x, "s\\/") || strings.HasPrefix(x, "s/") })},
	}
	for _, x := range hs {
		r.Ob("R2", "modifiers:"+x.key, x.desc).Check(x.ok, core.FuncName(fn), "present", "the documented modifier "+x.key+" has no handler in "+core.FuncName(fn))
	}
	e.c15SuffixOnly(fn, g)
	obT := r.Ob("R2", "modifiers:no-cutset-trim", "a suffix/prefix given by the user is removed as a suffix/prefix: no strings.Trim/TrimLeft/TrimRight with a variable cut-set")
	e.noCutsetTrim(obT, fn)
}

func (e *Env) c15Missing() {
	e.formatterMissingRule("R4")
	e.accessorRule("R4")
}

// accessorRule: the Task accessors are fatal when the named value is absent.
func (e *Env) accessorRule(rule string) {
	r := e.R
	p := e.P
	for _, acc := range []string{"Param", "Tag", "InIP", "OutIP"} {
		ob := r.Ob(rule, "(*Task)."+acc, "the accessor is fatal when the named value is absent")
		fn := p.Func("Task." + acc)
		if fn == nil {
			ob.Unknown("-", "not found")
			continue
		}
		ga := e.XG(fn)
		if ga == nil {
			continue
		}
		n0 := 0
		for _, n := range ga.Nodes {
			lk, ok := n.Instr.(*ssa.Lookup)
			if !ok || n.Ctx != ga.Root {
				continue
			}
			n0++
			var missing core.AV
			if _, isPtr := lk.X.Type().Underlying().(*types.Map).Elem().Underlying().(*types.Pointer); isPtr {
				missing = core.NilAV()
			} else {
				missing = core.StrAV("")
			}
			if lk.CommaOk {
				missing = core.TupleAV(missing, core.BoolAV(false))
			}
			if ga.Run(core.Scenario{Start: n, Result: missing}).NormalReturn() != nil {
				// a later lookup of the same map in the same function may be the guarded one; only fail if none is fatal
				continue
			}
			ob.OK(ga.Where(n), "absent ⇒ exit")
		}
		if ob.Sites == 0 {
			ob.Fail(core.FuncName(fn), fmt.Sprintf("none of the %d lookups is guarded by a fatal check", n0))
		}
	}
}

// c15SuffixOnly (C15.R2): `%STRING` removes STRING only where it is the END of the path. Every cut x[:h] of a string
// in the modifier function must have h = len(x) - len(e) and be reached only when e was found to be the suffix of x
// (e == x[len(x)-len(e):] or strings.HasSuffix(x, e)); strings.TrimSuffix is the one-call form. A cut at a searched
// position (strings.Index / LastIndex) removes a non-trailing occurrence together with everything after it.
func (e *Env) c15SuffixOnly(fn *ssa.Function, g *core.XG) {
	ob := e.R.Ob("R2", "modifiers:%suffix⇒suffix-only", "`%STRING` removes STRING only at the end of the path: the cut has the length of STRING and is guarded by a suffix comparison (or is strings.TrimSuffix)")
	sy := e.fsym()
	n0 := 0
	for _, n := range g.Nodes {
		if n.IsCallTo("strings.TrimSuffix") {
			n0++
			ob.OK(g.Where(n), "strings.TrimSuffix")
			continue
		}
		sl, ok := n.Instr.(*ssa.Slice)
		if !ok || sl.High == nil || sl.Low != nil {
			continue
		}
		if b, ok := sl.X.Type().Underlying().(*types.Basic); !ok || b.Info()&types.IsString == 0 {
			continue
		}
		n0++
		// h = len(x) - len(suffix), by SSA value identity inside the function that makes the cut
		suffix := lenDiff(sl.High, sl.X)
		if suffix == nil {
			ob.Fail(g.Where(n), "the path is cut at "+trunc(sy.InCtx(n.Ctx, sl.High).String(), 100)+", not at len(path)-len(STRING): an occurrence of STRING that is not at the end is removed together with everything after it")
			continue
		}
		guarded := false
		for _, gd := range g.Guards(n, sy) {
			if gd.If == nil || gd.If.Parent() != sl.Parent() {
				continue
			}
			switch c := gd.If.Cond.(type) {
			case *ssa.Call:
				if f := c.Call.StaticCallee(); gd.Pol && f != nil && f.String() == "strings.HasSuffix" && c.Call.Args[0] == sl.X && c.Call.Args[1] == suffix {
					guarded = true
				}
			case *ssa.BinOp:
				if (gd.Pol && c.Op == token.EQL) || (!gd.Pol && c.Op == token.NEQ) {
					for _, pr := range [][2]ssa.Value{{c.X, c.Y}, {c.Y, c.X}} {
						if tail, ok := pr[1].(*ssa.Slice); ok && pr[0] == suffix && tail.X == sl.X && tail.High == nil && tail.Low != nil && lenDiff(tail.Low, sl.X) == suffix {
							guarded = true
						}
					}
				}
			}
		}
		ob.Check(guarded, g.Where(n), "cut of len(STRING) bytes under the comparison STRING == path[len(path)-len(STRING):]", "the cut of len(STRING) bytes is not guarded by a comparison of STRING with the end of the path: the last bytes are removed whatever they are")
	}
	if n0 == 0 {
		ob.Unknown(core.FuncName(fn), "no string cut x[:h] and no strings.TrimSuffix in the modifier function: the idiom that removes the suffix was not recognised")
	}
}

// lenDiff: v is len(x) - len(e) for some e: returns e (nil otherwise).
func lenDiff(v, x ssa.Value) ssa.Value {
	bo, ok := v.(*ssa.BinOp)
	if !ok || bo.Op != token.SUB {
		return nil
	}
	lenArg := func(w ssa.Value) ssa.Value {
		c, ok := w.(*ssa.Call)
		if !ok {
			return nil
		}
		if b, ok := c.Call.Value.(*ssa.Builtin); ok && b.Name() == "len" && len(c.Call.Args) == 1 {
			return c.Call.Args[0]
		}
		return nil
	}
	if lenArg(bo.X) != x {
		return nil
	}
	return lenArg(bo.Y)
}

// portDiscovery (C15.R7, shared as C16.R7): NewProc derives the ports of a process from the placeholders of its command
// pattern: for every {o:}/{os:} an out-port (marked streaming for os), for every {i:} an in-port, for every {p:} a
// parameter in-port. A placeholder without its port is not covered by the readiness check: a workflow that forgets to
// connect it is not refused but fails (or hangs) after upstream commands have run. Decided by scenario on NewProc's
// expanded call tree: under "the port's type field is T", every iteration of the loop over the discovered ports
// reaches the initialisation of the right kind of port.
func (e *Env) portDiscovery(rule string) {
	r := e.R
	p := e.P
	fi := e.formatter()
	first := r.Ob(rule, "NewProc:port[o]", "every {o:} placeholder of the command pattern gets an out-port")
	np := p.Func("NewProc")
	if np == nil || fi.tagField == nil {
		first.Unknown("-", "NewProc or the placeholder-type field not found")
		return
	}
	g := e.XG(np)
	if g == nil {
		return
	}
	initCall := func(name string) func(*core.Node) bool {
		return func(n *core.Node) bool {
			return n.Kind != core.KAfter && n.Callee != nil && n.Callee.Name() == name && p.IsLib(n.Callee)
		}
	}
	pinfo := p.Named("scipipe", "PortInfo")
	isStreamMark := func(n *core.Node) bool {
		// the streaming mark: `true` stored into a bool field of PortInfo that is not the join flag (by role, not by name)
		st, ok := n.Instr.(*ssa.Store)
		if !ok || pinfo == nil {
			return false
		}
		fa, ok := st.Addr.(*ssa.FieldAddr)
		if !ok || typeNamed(fa.X.Type()) != pinfo || fieldOfAddr(fa) == fi.joinFld || !isBoolType(fieldOfAddr(fa).Type()) {
			return false
		}
		k, ok := st.Val.(*ssa.Const)
		return ok && k.Value != nil && constant.BoolVal(k.Value)
	}
	for _, c := range []struct {
		T, desc string
		is      func(*core.Node) bool
		what    string
	}{
		{"o", "every {o:} placeholder of the command pattern gets an out-port", initCall("InitOutPort"), "InitOutPort"},
		{"os", "every {os:} placeholder gets an out-port", initCall("InitOutPort"), "InitOutPort"},
		{"os:stream", "the port of every {os:} placeholder is marked as streaming", isStreamMark, "PortInfo.doStream = true"},
		{"i", "every {i:} placeholder gets an in-port", initCall("InitInPort"), "InitInPort"},
		{"p", "every {p:} placeholder gets a parameter in-port (so that a forgotten connection is refused before anything runs)", initCall("InitInParamPort"), "InitInParamPort"},
	} {
		ob := r.Ob(rule, "NewProc:port["+c.T+"]", c.desc)
		T := strings.TrimSuffix(c.T, ":stream")
		assume := core.Scenario{FieldLoad: func(f *types.Var) (core.AV, bool) {
			if f == fi.tagField {
				return core.StrAV(T), true
			}
			return core.Top, false
		}, InstrResult: func(m *core.Node) (core.AV, bool) {
			// a parameter placeholder whose value is NOT given statically (no entry in the constructor's value table):
			// that is the case in which a port is needed
			if lk, ok := m.Instr.(*ssa.Lookup); ok && lk.CommaOk {
				if mt, ok := lk.X.Type().Underlying().(*types.Map); ok {
					if b, ok := mt.Elem().Underlying().(*types.Basic); ok && b.Kind() == types.String {
						return core.TupleAV(core.StrAV(""), core.BoolAV(false)), true
					}
				}
			}
			return core.Top, false
		}}
		sites := g.Select(c.is)
		if len(sites) == 0 {
			ob.Fail(core.FuncName(np), "nothing in NewProc's call tree performs "+c.what+": a {"+T+":…} placeholder has no port, an unconnected one is not noticed by the readiness check")
			continue
		}
		okAny := false
		for _, n := range sites {
			las := iterLoops(g, n)
			if len(las) == 0 {
				continue
			}
			// under the assumption the node is reachable at all ...
			sc := assume
			sc.Start, sc.AtEntry = g.Entry, true
			if g.Run(sc).Reaches(func(m *core.Node) bool { return m == n }) == nil {
				continue
			}
			// ... and every iteration performs it
			tmp := &core.Obligation{}
			if e.forAllIn(tmp, g, las[0], n, c.is, assume, c.what) {
				okAny = true
				ob.OK(g.Where(n), c.what+" for every discovered port of type "+T)
			}
		}
		if !okAny {
			ob.Fail(g.Where(sites[0]), "with the port's type field = \""+T+"\" an iteration of the loop over the discovered ports can end without "+c.what+" (wrong test, or the call is missing for this type)")
		}
	}
}
