package rules

import (
	"fmt"
	"go/types"
	"sort"
	"strings"

	"golang.org/x/tools/go/ssa"

	"scicheck/internal/core"
)

func init() { Registry["C08"] = c08 }

func c08(e *Env) {
	r := e.R
	r.Explanation = "Structural necessary conditions of order preservation: (R1) the started-task queue of Process.Run is a FIFO: it is only appended to at the tail with the task just received from the feed channel, read at index 0 and re-sliced [1:]; the Done channel awaited in the select is the head's, and the outputs forwarded in that arm are the head's; (R2) who-may-send: within package scipipe OutPort.Send is called only from Process.Run, nothing below Task.Execute sends on a port, and with the streaming flag false every reachable OutPort.Send in Process.Run forwards an output of the queue head (so no output can overtake an earlier task, e.g. through a fast path for skipped tasks); (R3) one sequential sender per stream: the port send methods are plain blocking channel sends - no goroutine, no select, no second send - and the task-creation goroutine starts no further goroutine."
	r.NotDecided = "FIFO delivery of Go channels per sender (assumed), relative order of items coming from different upstreams through fan-in (unspecified by the property beyond per-upstream order)."
	a := e.anchors()
	if !a.ok() {
		return
	}
	p := e.P
	g := e.XG(a.procRun)
	if g == nil {
		return
	}
	// helpers of whatever type represents the started-task queue are looked through: module functions that return a
	// channel (the Done to wait for) or a *Task (the head)
	expandTQ := func(f *ssa.Function) bool {
		if f.Signature.Recv() != nil && typeNameOf(f.Signature.Recv().Type()) == "taskQueue" {
			return true
		}
		if !p.IsRepo(f) || f.Signature.Results().Len() != 1 {
			return false
		}
		rt := f.Signature.Results().At(0).Type()
		_, isChan := rt.Underlying().(*types.Chan)
		return isChan || isPtrToNamed(rt, "Task")
	}
	sy := p.NewSymbolizer(expandTQ)
	// ---- R1 queue idiom
	ob1 := r.Ob("R1", "(*Process).Run:queue-fifo", "the started-task queue is appended at the tail (with the task just received), read at index 0 and re-sliced [1:]")
	ob1b := r.Ob("R1", "(*Process).Run:await-head", "the Done channel awaited in the select is that of queue element 0")
	var sel *ssa.Select
	var selNode *core.Node
	for _, n := range g.Nodes {
		if s, ok := n.Instr.(*ssa.Select); ok && n.Ctx == g.Root {
			sel, selNode = s, n
		}
	}
	if sel == nil {
		ob1.Unknown(core.FuncName(a.procRun), "no select in Process.Run")
		return
	}
	var queue *core.Sym
	for _, st := range sel.States {
		if st.Dir != types.RecvOnly {
			continue
		}
		s := sy.InCtx(g.Root, st.Chan)
		str := s.String()
		if !strings.Contains(str, ".Done") {
			continue
		}
		// find the `X[0].Done` field access
		var head *core.Sym
		s.Walk(func(z *core.Sym) bool {
			if z.Op == "field" && z.Name == "Task.Done" && head == nil {
				head = z.Args[0]
			}
			return head == nil
		})
		if head == nil || head.Op != "elem" || head.Args[1].String() != "0" {
			ob1b.Fail(g.Where(selNode), "the awaited Done channel is not that of queue element 0: "+str+" (waiting for another element lets later tasks be forwarded first, or blocks behind a slower one)")
			continue
		}
		queue = head.Args[0]
		ob1b.OK(g.Where(selNode), "select waits on "+trunc(str, 160))
	}
	if queue == nil {
		if ob1b.Sites == 0 {
			ob1b.Fail(g.Where(selNode), "no select arm waits on the Done channel of a queued task")
		}
		return
	}
	alts := map[string]bool{}
	var collect func(z *core.Sym, depth int)
	collect = func(z *core.Sym, depth int) {
		if z.Op == "phi" && depth < 6 {
			for _, x := range z.Args {
				collect(x, depth+1)
			}
			return
		}
		alts[z.String()] = true
	}
	collect(queue, 0)
	var bad, good []string
	for alt := range alts {
		switch {
		case alt == "[]" || alt == "↺" || alt == "nil":
			good = append(good, alt)
		case strings.HasPrefix(alt, "builtin.append(↺, [recv("):
			good = append(good, "append(queue, <task received from the feed channel>)")
		case alt == "slice(↺, 1, nil)":
			good = append(good, "queue[1:]")
		default:
			bad = append(bad, alt)
		}
	}
	sort.Strings(good)
	sort.Strings(bad)
	hasAppend, hasPop := false, false
	for _, s := range good {
		if strings.HasPrefix(s, "append(") {
			hasAppend = true
		}
		if s == "queue[1:]" {
			hasPop = true
		}
	}
	if len(bad) > 0 || !hasAppend || !hasPop {
		// the queue may be held by something else than a loop-carried slice (a queue object with push/pop methods):
		// judge the operations on []*Task in Process.Run's call tree by what they are
		if why, okT := e.queueOpsFIFO(g); okT {
			ob1.OK(g.Where(selNode), why)
			bad, hasAppend, hasPop = nil, true, true
		} else if why != "" {
			ob1.Fail(g.Where(selNode), why)
			bad, hasAppend, hasPop = nil, true, true
		}
	}
	switch {
	case ob1.Sites > 0 || ob1.Status == core.Violated:
	case len(bad) > 0:
		ob1.Fail(g.Where(selNode), "the queue is also updated as "+trunc(strings.Join(bad, " | "), 300)+" - not a FIFO update")
	case !hasAppend || !hasPop:
		ob1.Fail(g.Where(selNode), "queue updates found: {"+strings.Join(good, ", ")+"}; both the tail append of the received task and the [1:] pop are required")
	default:
		ob1.OK(g.Where(selNode), "queue updates: "+strings.Join(good, ", "))
	}
	// ---- R2 who may send
	ob2 := r.Ob("R2", "pkg scipipe:OutPort.Send callers", "within package scipipe OutPort.Send is called only from Process.Run")
	send := p.DeclaredMethod("scipipe", "OutPort", "Send")
	if send == nil {
		ob2.Unknown("-", "(*OutPort).Send not found")
	} else {
		n := 0
		inTree := map[*ssa.Function]bool{}
		for _, c := range g.Ctxs {
			inTree[c.Fn] = true
		}
		for _, c := range p.Callers(send) {
			root := c
			for root.Parent() != nil {
				root = root.Parent()
			}
			if root.Pkg == nil || root.Pkg.Pkg.Path() != core.ModPath {
				continue
			}
			n++
			okC := c == a.procRun
			if !okC && inTree[c] {
				// a helper of Process.Run: every caller of the helper must itself lie in Process.Run's call tree
				okC = true
				for _, cc := range p.Callers(c) {
					if p.IsLib(cc) && !inTree[cc] && cc.Synthetic == "" {
						okC = false
					}
				}
			}
			ob2.Check(okC, e.where(c.Blocks[0].Instrs[0]), "called from "+core.FuncName(c)+" (Process.Run's call tree)", "OutPort.Send is also called from "+core.FuncName(c)+", outside Process.Run's call tree: a second sender can interleave with the ordered forwarding")
		}
		if n == 0 {
			ob2.Unknown("-", "no caller of OutPort.Send in package scipipe")
		}
	}
	ob2b := r.Ob("R2", "Execute-tree:no-port-send", "nothing in Task.Execute's call tree sends on a port")
	if sp := e.spine(); sp != nil {
		cnt := 0
		for _, n := range sp.g.Nodes {
			if _, ok := isPortSend(n); ok {
				cnt++
				ob2b.Fail(sp.g.Where(n), "port send inside Task.Execute's call tree: outputs would leave in completion order")
			}
		}
		if cnt == 0 {
			ob2b.OK("-", fmt.Sprintf("%d nodes examined", len(sp.g.Nodes)))
		}
	}
	e.headOnlyRule("R2")
	// ---- R3 sequential senders
	for _, m := range []struct{ typ, meth string }{{"InPort", "Send"}, {"InParamPort", "Send"}, {"OutPort", "Send"}, {"OutParamPort", "Send"}} {
		ob := r.Ob("R3", "(*"+m.typ+")."+m.meth+":plain-send", "the port send is a plain sequential blocking send: no goroutine, no select, exactly one channel send per remote")
		fn := p.DeclaredMethod("scipipe", m.typ, m.meth)
		if fn == nil {
			ob.Unknown("-", "method not found")
			continue
		}
		gs := e.XG(fn)
		if gs == nil {
			continue
		}
		sends, bad := 0, false
		for _, n := range gs.Nodes {
			switch {
			case n.IsGo:
				bad = true
				ob.Fail(gs.Where(n), "a goroutine is started inside the send path: consecutive items of one sender can overtake each other")
			case isSelectAny(n):
				bad = true
				ob.Fail(gs.Where(n), "a select inside the send path (non-blocking / alternative delivery breaks per-sender FIFO)")
			case isSend(n):
				sends++
			}
		}
		if !bad {
			ob.Check(sends == 1, core.FuncName(fn), "one channel send, no go, no select", fmt.Sprintf("%d channel sends in the send path (exactly 1 expected)", sends))
		}
	}
	e.positiveControls("go-or-select")
	ob3 := r.Ob("R3", "createTasks:single-sender", "the task-creation goroutine starts no further goroutine (tasks are fed to Process.Run by one sequential sender)")
	// the task-creation goroutine: the go target in Process.Run's call tree that sends *Task values
	if f, gc := e.taskFeeder(); f != nil && gc != nil {
		nGo := 0
		for _, n := range gc.Nodes {
			if n.IsGo {
				nGo++
				ob3.Fail(gc.Where(n), "goroutine started inside the task-creation goroutine")
			}
		}
		if nGo == 0 {
			ob3.OK(core.FuncName(f), "no go statement in its call tree")
		}
	}
	if ob3.Sites == 0 {
		ob3.Unknown("-", "task-creation goroutine not found")
	}
}

// headOnlyRule (C08.R2, shared as C04.R9): with the streaming flag false, every OutPort.Send in Process.Run
// forwards an output of the queue head - outputs leave in input order, so consumers with several in-ports pair
// the items that belong together and the produced files do not depend on timing.
func (e *Env) headOnlyRule(rule string) {
	r := e.R
	a := e.anchors()
	if !a.ok() {
		return
	}
	g := e.XG(a.procRun)
	if g == nil {
		return
	}
	ob2c := r.Ob(rule, "(*Process).Run:non-stream⇒head-only", "with the streaming flag false, every reachable OutPort.Send in Process.Run forwards an output of the queue head")
	res := g.Run(core.Scenario{Start: g.Entry, FieldLoad: e.assumeStream(false)})
	nS := 0
	for _, n := range g.Nodes {
		if _, ok := isPortSend(n); !ok || n.Kind == core.KAfter {
			continue
		}
		if res.Reaches(func(m *core.Node) bool { return m == n }) == nil {
			continue // only for streaming outputs
		}
		nS++
		ip := e.xargSym(n, 1).String()
		ob2c.Check(strings.Contains(ip, "[0].OutIPs"), g.Where(n), "forwards "+trunc(ip, 120), "a non-streaming output that is not the queue head's is sent: "+trunc(ip, 200)+" (it overtakes the outputs of earlier tasks still running)")
	}
	if nS == 0 {
		ob2c.Fail(core.FuncName(a.procRun), "no OutPort.Send reachable for non-streaming outputs")
	}
}

func isSelectAny(n *core.Node) bool { _, ok := n.Instr.(*ssa.Select); return ok }

func trunc(s string, n int) string {
	if len(s) > n {
		return s[:n] + "…"
	}
	return s
}

// queueOpsFIFO: representation-independent form of the queue idiom. Every operation on a []*Task in Process.Run's
// expanded call tree is classified: append(q, <task received from the feed>) at the tail, q[0] as the only element
// read, q[1:] as the only re-slice; every []*Task value that is stored or merged is the result of one of these (or
// empty). Returns (description, true) when all are FIFO operations and push, head and pop all occur; ("", false)
// when no []*Task operation exists at all (not this representation); (reason, false) otherwise.
func (e *Env) queueOpsFIFO(g *core.XG) (string, bool) {
	isQ := func(t types.Type) bool {
		sl, ok := t.Underlying().(*types.Slice)
		return ok && isPtrToNamed(sl.Elem(), "Task")
	}
	xs := e.xsym()
	isConst := func(v ssa.Value, want int64) bool {
		k, ok := v.(*ssa.Const)
		return ok && k.Value != nil && k.Int64() == want
	}
	fifoVal := map[ssa.Value]bool{}
	nPush, nHead, nPop := 0, 0, 0
	for _, n := range g.Nodes {
		if n.Kind == core.KAfter || n.Instr == nil {
			continue
		}
		switch x := n.Instr.(type) {
		case *ssa.Call:
			if n.IsBuiltin("append") && len(x.Call.Args) == 2 && isQ(x.Call.Args[0].Type()) {
				// the appended elements: a one-element varargs array holding the task just received
				el, ok := x.Call.Args[1].(*ssa.Slice)
				if !ok {
					return "a whole []*Task is appended to the queue at " + g.Where(n) + " (tasks are not added one by one at the tail)", false
				}
				if al, ok := el.X.(*ssa.Alloc); !ok || al.Comment != "varargs" {
					return "a whole []*Task is appended to the queue at " + g.Where(n) + " (tasks are not added one by one at the tail)", false
				}
				if lit, ok := x.Call.Args[0].(*ssa.Slice); ok {
					if _, isAl := lit.X.(*ssa.Alloc); isAl {
						return "the queue is rebuilt from a literal at " + g.Where(n) + " (the new task does not go to the tail)", false
					}
				}
				s := xs.InCtx(n.Ctx, x.Call.Args[1]).String()
				if !strings.Contains(s, "recv(") {
					return "the element appended to the queue at " + g.Where(n) + " is not the task received from the feed channel: " + trunc(s, 80), false
				}
				nPush++
				fifoVal[x] = true
			}
		case *ssa.IndexAddr:
			if isQ(x.X.Type()) {
				if !isConst(x.Index, 0) {
					return "queue element " + trunc(xs.InCtx(n.Ctx, x.Index).String(), 60) + " is read at " + g.Where(n) + ", not element 0 (the oldest started task)", false
				}
				nHead++
			}
		case *ssa.Index:
			if isQ(x.X.Type()) {
				if !isConst(x.Index, 0) {
					return "queue element " + trunc(xs.InCtx(n.Ctx, x.Index).String(), 60) + " is read at " + g.Where(n) + ", not element 0 (the oldest started task)", false
				}
				nHead++
			}
		case *ssa.Slice:
			if isQ(x.X.Type()) && isQ(x.Type()) {
				if x.Low == nil || !isConst(x.Low, 1) || x.High != nil || x.Max != nil {
					return "the queue is re-sliced at " + g.Where(n) + " other than [1:] (the oldest task is not the one removed)", false
				}
				nPop++
				fifoVal[x] = true
			}
		case *ssa.Range:
			if isQ(x.X.Type()) {
				return "the queue is ranged over at " + g.Where(n) + " (tasks other than the oldest are looked at)", false
			}
		}
	}
	if nPush+nHead+nPop == 0 {
		return "", false
	}
	// what may be stored into / merged as a queue value
	okVal := func(v ssa.Value) bool {
		switch y := v.(type) {
		case *ssa.Const:
			return y.Value == nil
		case *ssa.Phi, *ssa.UnOp, *ssa.Parameter, *ssa.FreeVar, *ssa.Extract:
			return true // a queue value read or passed on unchanged
		case *ssa.MakeSlice:
			return isConst(y.Len, 0)
		case *ssa.Slice:
			if fifoVal[v] {
				return true
			}
			if al, ok := y.X.(*ssa.Alloc); ok && y.Low == nil && y.High == nil {
				if at, ok := deref2(al.Type()).Underlying().(*types.Array); ok && at.Len() == 0 {
					return true // []*Task{}
				}
			}
			return false
		}
		return fifoVal[v]
	}
	for _, n := range g.Nodes {
		if n.Kind == core.KAfter || n.Instr == nil {
			continue
		}
		if st, ok := n.Instr.(*ssa.Store); ok && isQ(st.Val.Type()) && !okVal(st.Val) {
			return "a queue value that is neither the tail append nor the [1:] re-slice is stored at " + g.Where(n), false
		}
	}
	for _, c := range g.Ctxs {
		for _, b := range c.Fn.Blocks {
			for _, in := range b.Instrs {
				if ph, ok := in.(*ssa.Phi); ok && isQ(ph.Type()) {
					for _, ev := range ph.Edges {
						if !okVal(ev) {
							return "the queue variable is merged with a value that is neither the tail append nor the [1:] re-slice (" + e.P.InstrPos(ph) + ")", false
						}
					}
				}
			}
		}
	}
	if nPush == 0 || nHead == 0 || nPop == 0 {
		return fmt.Sprintf("queue operations found: %d tail appends, %d reads of element 0, %d [1:] re-slices; all three are required", nPush, nHead, nPop), false
	}
	return fmt.Sprintf("queue operations by kind: %d tail append(s) of the received task, %d read(s) of element 0, %d [1:] re-slice(s), nothing else", nPush, nHead, nPop), true
}
