package rules

import (
	"fmt"
	"go/token"
	"go/types"
	"sort"
	"strings"

	"golang.org/x/tools/go/ssa"

	"scicheck/internal/core"
)

func init() { Registry["C05"] = c05 }

func c05(e *Env) {
	r := e.R
	r.Explanation = "Structural necessary conditions of 'Run returns exactly when all work is done', decided on all paths: (R1) Process.Run's scheduling loop can be left only when the feed channel variable is nil AND the started-task queue is empty, and the variable becomes nil only on the closed (comma-ok false) branch; (R2) receiving a new task and waiting for the oldest task's Done are arms of one blocking select (issue #81 shape); (R3) every library process type that owns out-ports closes them on every normal return of Run and never sends after closing (typestate); the port-closing helpers cover every port; (R4) in Task.Execute a Done signal that can follow the command is preceded on all paths by the completed finalisation (all declared renames, removal of the temp dir) and the slot release, and Done is closed only by the deferred close; (R5) Sink.Run: all drainers are started before the first wait, each drains its channel to closure and then signals exactly once, waits and drainers are guarded by the same conditions, and the signal channel is closed after the waits; (R6) reconnectDeadEndConnections wires every out-port and every parameter out-port that is left without a consumer to the sink, and examines every connection (loops not left early); (R7) pairing: once the temp dir is created, its removal is inevitable on normally returning paths, and the FIFO of every streaming output is removed after the task is done; (R8) shared with C04: every process is started exactly once, the driver only synchronously; (R9) shared with C07: the slot mutex spans the whole token loop of a multi-core acquisition, so two tasks can never each hold a part of their tokens and wait for the rest forever."
	r.NotDecided = "deadlock-freedom and termination of the process/channel network as a whole for arbitrary graphs, buffer sizes and slot counts (a liveness property of a dynamically wired network; no sound static argument in reach). The rules are necessary conditions only."
	a := e.anchors()
	if !a.ok() {
		return
	}
	e.c05ProcRunLoop()
	e.c05ClosePorts()
	e.c05DoneAfterFinalize()
	e.c05Sink("R5")
	e.c05Reconnect("R6")
	e.c05Pairing()
	e.spawnRules("R8", "R8")
	e.disconnectRule("R6")
	e.sinkConnectRule("R6")
	e.slotMutexSpansLoop("R9")
	// forwarding loops of Process.Run (also part of C04's delivery obligations)
	e.forwardAllOutputs("R3")
}

// ---- R1/R2 ----------------------------------------------------------------

func (e *Env) c05ProcRunLoop() { e.procRunLoopAs("R1", "R2") }

// procRunLoopAs: the scheduling-loop obligations under other rule ids (C07.R6: a scheduler that stops taking new tasks
// for any reason but the closed feed is a second gate in front of the slots).
func (e *Env) procRunLoopAs(r1, r2 string) {
	r := e.R
	a := e.anchors()
	ob1 := r.Ob(r1, "(*Process).Run:loop-exit", "the scheduling loop can be left only when the feed channel variable is nil and the started-task queue is empty")
	ob1b := r.Ob(r1, "(*Process).Run:feed-nil⇔closed", "the feed channel variable becomes nil only on the branch where the feed channel was found closed")
	ob2 := r.Ob(r2, "(*Process).Run:select{feed,head.Done}", "receiving a new task and waiting for the oldest started task are arms of the same blocking select")
	g := e.XG(a.procRun)
	if g == nil {
		return
	}
	// helpers that hand out the channel to wait on (a method of whatever type represents the started-task queue)
	// are looked through: any module function that returns a channel
	sy := e.P.NewSymbolizer(func(f *ssa.Function) bool {
		if !e.P.IsRepo(f) || f.Signature.Results().Len() != 1 {
			return false
		}
		_, isChan := f.Signature.Results().At(0).Type().Underlying().(*types.Chan)
		return isChan
	})
	var sels []*core.Node
	for _, n := range g.Nodes {
		if s, ok := n.Instr.(*ssa.Select); ok && n.Ctx == g.Root {
			_ = s
			sels = append(sels, n)
		}
	}
	if len(sels) != 1 {
		ob2.Fail(core.FuncName(a.procRun), fmt.Sprintf("%d select statements in Process.Run (exactly one, combining 'new task' and 'oldest task done', expected)", len(sels)))
		return
	}
	sel := sels[0].Instr.(*ssa.Select)
	var feed, done *ssa.SelectState
	for _, st := range sel.States {
		if st.Dir != types.RecvOnly {
			continue
		}
		ch, ok := st.Chan.Type().Underlying().(*types.Chan)
		if !ok {
			continue
		}
		if isPtrToNamed(ch.Elem(), "Task") {
			feed = st
		} else {
			s := sy.InCtx(g.Root, st.Chan).String()
			if strings.Contains(s, ".Done") {
				done = st
			}
		}
	}
	if !sel.Blocking || feed == nil || done == nil {
		ob2.Fail(g.Where(sels[0]), "the select is not a blocking select over {feed channel of *Task, Done of a started task}")
		return
	}
	doneSym := sy.InCtx(g.Root, done.Chan).String()
	ob2.OK(g.Where(sels[0]), "select{<-feed, <-"+doneSym+"}")
	// R1: loop exit conditions by scenarios.  Find the header tests: `feed != nil` and `len(queue)`.
	feedPhi, _ := feed.Chan.(*ssa.Phi)
	if feedPhi == nil {
		ob1.Unknown(g.Where(sels[0]), "the feed channel operand of the select is not a loop-carried variable")
		return
	}
	isSel := func(n *core.Node) bool { return n == sels[0] }
	nTests := 0
	for _, n := range g.Nodes {
		if n.Kind == core.KAfter {
			continue
		}
		switch x := n.Instr.(type) {
		case *ssa.BinOp:
			if n.Ctx == g.Root && (x.Op == token.NEQ || x.Op == token.EQL) && (x.X == ssa.Value(feedPhi) || x.Y == ssa.Value(feedPhi)) {
				nTests++
				open := core.BoolAV(x.Op == token.NEQ)
				res := g.Run(core.Scenario{Start: n, Result: open})
				if w := res.ReachesAvoiding(func(m *core.Node) bool { return m.Kind == core.KRootRet }, isSel); w != nil {
					ob1.Fail(g.Where(n), "with the feed channel still open the loop can be left (Run returns while tasks can still arrive)")
				} else {
					ob1.OK(g.Where(n), "feed open ⇒ loop continues")
				}
			}
		case *ssa.Call:
			if n.IsBuiltin("len") {
				// (the length test may sit in a predicate helper of the queue type)
				// the started-task queue, whatever holds it (a loop-carried slice, a field of a queue object): the only
				// []*Task in Process.Run's call tree
				isQueue := false
				if sl, ok := x.Call.Args[0].Type().Underlying().(*types.Slice); ok && isPtrToNamed(sl.Elem(), "Task") {
					isQueue = true
				}
				// only a test that decides about leaving the scheduling loop counts (the same predicate helper may also
				// be used elsewhere, e.g. when picking the channel to wait on)
				if isQueue && !e.decidesLoopExit(g, n, sels[0]) {
					isQueue = false
				}
				if isQueue {
					nTests++
					res := g.Run(core.Scenario{Start: n, Result: core.IntAV(1)})
					if w := res.ReachesAvoiding(func(m *core.Node) bool { return m.Kind == core.KRootRet }, isSel); w != nil {
						ob1.Fail(g.Where(n), "with a started task still in the queue the loop can be left (Run returns before all tasks are done)")
					} else {
						ob1.OK(g.Where(n), "queue non-empty ⇒ loop continues")
					}
				}
			}
		}
	}
	if nTests < 2 {
		ob1.Fail(core.FuncName(a.procRun), fmt.Sprintf("the loop condition tests only %d of {feed channel != nil, len(queue) > 0}", nTests))
	}
	// R1b: nil edge of the feed phi lies on the closed branch
	nNil := 0
	for i, ev := range feedPhi.Edges {
		k, ok := ev.(*ssa.Const)
		if !ok || k.Value != nil {
			continue
		}
		nNil++
		pb := feedPhi.Block().Preds[i]
		okClosed := false
		for d := pb; d != nil; d = d.Idom() {
			id := d.Idom()
			if id == nil {
				break
			}
			iff, isIf := id.Instrs[len(id.Instrs)-1].(*ssa.If)
			if !isIf {
				continue
			}
			if ex, ok := iff.Cond.(*ssa.Extract); ok && ex.Tuple == ssa.Value(sel) && ex.Index == 1 {
				if id.Succs[1].Dominates(pb) || id.Succs[1] == pb {
					okClosed = true
				}
			}
		}
		ob1b.Check(okClosed, e.where(pb.Instrs[len(pb.Instrs)-1]), "feed = nil on the !ok branch of the select receive", "the feed channel variable is set to nil on a branch that is not 'feed channel closed': tasks still to come would be dropped")
	}
	if nNil == 0 {
		ob1b.Fail(core.FuncName(a.procRun), "the feed channel variable is never set to nil: the loop cannot terminate through the closed-feed branch")
	}
}

func typeNameOf(t types.Type) string {
	if p, ok := t.Underlying().(*types.Pointer); ok {
		t = p.Elem()
	}
	if n, ok := t.(*types.Named); ok {
		return n.Obj().Name()
	}
	return t.String()
}

func isPtrToNamed(t types.Type, name string) bool {
	p, ok := t.Underlying().(*types.Pointer)
	if !ok {
		return false
	}
	n, ok := p.Elem().(*types.Named)
	return ok && n.Obj().Name() == name
}

// ---- R3 -------------------------------------------------------------------

// processTypes returns the named library types implementing WorkflowProcess together with their declared Run.
func (e *Env) processTypes() map[string]*ssa.Function {
	out := map[string]*ssa.Function{}
	p := e.P
	wp := p.Named("scipipe", "WorkflowProcess")
	if wp == nil {
		return out
	}
	iface, _ := wp.Underlying().(*types.Interface)
	for _, lp := range core.LibPkgs[:2] {
		sp := p.SSAPkgs[lp]
		for _, m := range sp.Members {
			t, ok := m.(*ssa.Type)
			if !ok {
				continue
			}
			named, ok := t.Type().(*types.Named)
			if !ok || iface == nil {
				continue
			}
			if _, isIface := named.Underlying().(*types.Interface); isIface {
				continue
			}
			if !types.Implements(types.NewPointer(named), iface) {
				continue
			}
			pk := "scipipe"
			if lp != core.LibPkgs[0] {
				pk = "components"
			}
			if run := p.DeclaredMethod(pk, named.Obj().Name(), "Run"); run != nil {
				out[pk+"."+named.Obj().Name()] = run
			}
		}
	}
	return out
}

func isPortSend(n *core.Node) (param bool, ok bool) {
	if n.Call == nil || n.Callee == nil || n.IsGo || n.Callee.Name() != "Send" || n.Kind == core.KAfter {
		return false, false
	}
	if _, isDefer := n.Instr.(*ssa.Defer); isDefer && !n.Deferred {
		return false, false
	}
	switch core.FuncName(n.Callee) {
	case "(*OutPort).Send":
		return false, true
	case "(*OutParamPort).Send":
		return true, true
	}
	return false, false
}

func isPortCloseAll(n *core.Node) (file, param bool) {
	if n.Call == nil || n.Callee == nil || n.IsGo || n.Kind == core.KAfter {
		return
	}
	if _, isDefer := n.Instr.(*ssa.Defer); isDefer && !n.Deferred {
		return
	}
	switch core.FuncName(n.Callee) {
	case "(*BaseProcess).CloseOutPorts":
		return true, false
	case "(*BaseProcess).CloseOutParamPorts":
		return false, true
	}
	return
}

func (e *Env) c05ClosePorts() {
	r := e.R
	p := e.P
	pts := e.processTypes()
	var names []string
	for k := range pts {
		names = append(names, k)
	}
	sort.Strings(names)
	if len(names) < 10 {
		r.Ob("R3", "process-types", "all library process types are found").Unknown("-", fmt.Sprintf("only %d process types found", len(names)))
	}
	for _, nm := range names {
		run := pts[nm]
		g := e.XG(run)
		if g == nil {
			continue
		}
		usesFile, usesParam := false, false
		for _, n := range g.Nodes {
			if par, ok := isPortSend(n); ok {
				if par {
					usesParam = true
				} else {
					usesFile = true
				}
			}
		}
		// also: constructors that initialise out-ports
		short := nm[strings.Index(nm, ".")+1:]
		for _, fn := range p.LibFuncs {
			if fn.Signature.Recv() != nil || fn.Signature.Results().Len() != 1 || !isPtrToNamed(fn.Signature.Results().At(0).Type(), short) {
				continue
			}
			for _, b := range fn.Blocks {
				for _, in := range b.Instrs {
					if c, ok := in.(*ssa.Call); ok && c.Call.StaticCallee() != nil {
						switch c.Call.StaticCallee().Name() {
						case "InitOutPort":
							usesFile = true
						case "InitOutParamPort":
							usesParam = true
						}
					}
				}
			}
		}
		if !usesFile && !usesParam {
			continue // a process type without out-ports (the sink)
		}
		ob := r.Ob("R3", nm+".Run:close-out-ports", "the process closes its out-ports on every normal return of Run and never sends on a port after closing")
		const (
			evCloseF core.Bits = 1 << iota
			evCloseP
		)
		gen := func(n *core.Node) core.Bits {
			f, pp := isPortCloseAll(n)
			var b core.Bits
			if f {
				b |= evCloseF
			}
			if pp {
				b |= evCloseP
			}
			return b
		}
		after := g.BackwardMust(gen)
		need := core.Bits(0)
		if usesFile {
			need |= evCloseF
		}
		if usesParam {
			need |= evCloseP
		}
		got := after[g.Entry] | gen(g.Entry)
		if got&need != need {
			what := "out-ports"
			if got&evCloseF != 0 {
				what = "parameter out-ports"
			}
			ob.Fail(core.FuncName(run), "a normally returning path of Run does not close the "+what+": downstream processes wait forever")
			continue
		}
		may := g.Forward(func(n *core.Node) core.Transfer { return core.Transfer{Gen: gen(n)} }, false)
		bad := false
		for _, n := range g.Nodes {
			if par, ok := isPortSend(n); ok {
				bit := evCloseF
				if par {
					bit = evCloseP
				}
				if may[n]&bit != 0 {
					bad = true
					ob.Fail(g.Where(n), "a send on an out-port may execute after the ports were closed (send on a closed channel panics / the item is lost)")
				}
			}
		}
		if !bad {
			ob.OK(core.FuncName(run), "closed on all returning paths; no send after close")
		}
	}
	// the closing helpers cover every port
	for _, h := range []struct{ helper, ports, closeFn string }{
		{"CloseOutPorts", "OutPorts", "(*OutPort).Close"}, {"CloseOutParamPorts", "OutParamPorts", "(*OutParamPort).Close"},
	} {
		ob := r.Ob("R3", "(*BaseProcess)."+h.helper, "the closing helper closes every port of the map (loop not left early, Close on every iteration)")
		fn := p.DeclaredMethod("scipipe", "BaseProcess", h.helper)
		if fn == nil {
			ob.Unknown("-", "helper not found")
			continue
		}
		g := e.XG(fn)
		if g == nil {
			continue
		}
		isClose := func(n *core.Node) bool {
			return n.Ctx == g.Root && n.Callee != nil && core.FuncName(n.Callee) == h.closeFn && n.Kind != core.KAfter && strings.Contains(e.argSym(n, 0).String(), "val∈")
		}
		cl := g.Select(isClose)
		if len(cl) == 0 {
			ob.Fail(core.FuncName(fn), "no Close on the elements of "+h.ports+"()")
			continue
		}
		for _, n := range cl {
			if e.forAllOutputs(ob, g, n, isClose, core.Scenario{}, "Close of every port") {
				ob.OK(g.Where(n), "complete range")
			}
		}
	}
}

// ---- R4 -------------------------------------------------------------------

func (e *Env) c05DoneAfterFinalize() {
	r := e.R
	a := e.anchors()
	sp := e.spine()
	if sp == nil {
		return
	}
	g := sp.g
	ob := r.Ob("R4", "Execute:finalize≺Done", "a Done signal that can follow the command is preceded on all paths by the completed finalisation (declared renames, temp-dir removal) and the slot release")
	obc := r.Ob("R4", "Execute:close(Done)", "Task.Done is closed only by the deferred close at the end of Execute")
	renExit := map[*core.Node]bool{}
	for _, n := range sp.declRename {
		ex, _ := loopExitNodes(g, n)
		for _, x := range ex {
			renExit[x] = true
		}
	}
	isRm := nodeSet(sp.rmTemp)
	// "the command ran and X has not happened since": generated at the command, killed by X; evaluated on the
	// feasible subgraph (returned errors correlated with their tests), so the skip path and fatal paths do not count
	const (
		pendRen core.Bits = 1 << iota
		pendRm
		pendRel
	)
	tf := func(n *core.Node) core.Transfer {
		var t core.Transfer
		if a.isRun(n) {
			t.Gen = pendRen | pendRm | pendRel
		}
		if renExit[n] {
			t.Kill |= pendRen
		}
		if isRm[n] {
			t.Kill |= pendRm
		}
		if a.isRelease(n) {
			t.Kill |= pendRel
		}
		return t
	}
	pending := g.Run(core.Scenario{Start: g.Entry, AtEntry: true}).May(tf)
	nd := 0
	for _, n := range g.Select(a.isDoneSend) {
		nd++
		pb := pending[n]
		if pb == 0 {
			ob.OK(g.Where(n), "no path reaches this Done with the command run and finalisation/release pending")
			continue
		}
		miss := []string{}
		if pb&pendRen != 0 {
			miss = append(miss, "all declared outputs renamed")
		}
		if pb&pendRm != 0 {
			miss = append(miss, "temp dir removed")
		}
		if pb&pendRel != 0 {
			miss = append(miss, "slots released")
		}
		ob.Fail(g.Where(n), "after the command ran, Done can be signalled before: "+strings.Join(miss, ", ")+" (Run could return, or dependants start, while the task's outputs are not final)")
	}
	if nd == 0 {
		ob.Fail(core.FuncName(a.execute), "Task.Execute never signals Done")
	}
	nc := 0
	for _, n := range g.Nodes {
		if n.IsBuiltin("close") && a.isFieldLoad(n.Call.Args[0], a.doneField) {
			nc++
			obc.Check(n.Deferred && n.Ctx == g.Root, g.Where(n), "deferred close", "Task.Done is closed by a non-deferred close: a later Done send would panic, or the process would read a premature completion")
		}
	}
	if nc == 0 {
		obc.OK("-", "Done is never closed explicitly")
	}
}

// ---- R5 -------------------------------------------------------------------

func (e *Env) c05Sink(rule string) {
	r := e.R
	p := e.P
	run := p.DeclaredMethod("scipipe", "Sink", "Run")
	ob := r.Ob(rule, "(*Sink).Run:drain-all-then-wait", "all drainer goroutines are started before the first wait; waits and drainers are guarded by the same conditions; the signal channel is closed after the waits")
	obd := r.Ob(rule, "(*Sink).Run:drainers", "every drainer ranges its in-port channel to closure and then signals exactly once")
	if run == nil {
		ob.Unknown("-", "(*Sink).Run not found")
		return
	}
	g := e.XG(run)
	if g == nil {
		return
	}
	sy := e.symbolizer()
	var gos, waits, closes []*core.Node
	for _, n := range g.Nodes {
		if n.Kind == core.KAfter {
			continue
		}
		switch {
		case n.IsGo:
			gos = append(gos, n)
		case isBlockingRecv(n):
			waits = append(waits, n)
		case n.IsBuiltin("close"):
			closes = append(closes, n)
		}
	}
	if len(gos) > 0 && len(waits) == 0 {
		if e.sinkWaitGroup(g, run, gos, ob, obd) {
			return
		}
	}
	if len(gos) == 0 || len(waits) == 0 {
		ob.Fail(core.FuncName(run), fmt.Sprintf("%d drainer goroutines, %d waits", len(gos), len(waits)))
		return
	}
	const (
		evGo core.Bits = 1 << iota
		evWait
		evClose
	)
	isIn := func(ns []*core.Node, n *core.Node) bool {
		for _, m := range ns {
			if m == n {
				return true
			}
		}
		return false
	}
	may := g.Forward(func(n *core.Node) core.Transfer {
		var b core.Bits
		if isIn(gos, n) {
			b |= evGo
		}
		if isIn(waits, n) {
			b |= evWait
		}
		if isIn(closes, n) {
			b |= evClose
		}
		return core.Transfer{Gen: b}
	}, false)
	okAll := true
	for _, n := range gos {
		if may[n]&evWait != 0 {
			okAll = false
			ob.Fail(g.Where(n), "a drainer goroutine is started only after a wait: the sink drains its ports one after the other, so a producer blocked on the not-yet-drained port deadlocks the workflow")
		}
	}
	for _, n := range waits {
		if may[n]&evClose != 0 {
			okAll = false
			ob.Fail(g.Where(n), "a wait may follow the close of the signal channel")
		}
	}
	gg, gw := []string{}, []string{}
	guardKey := func(n *core.Node) string {
		var parts []string
		for _, gd := range g.Guards(n, sy) {
			c := gd.Cond.String()
			if !gd.Pol {
				c = "!" + c
			}
			parts = append(parts, c)
		}
		sort.Strings(parts)
		return strings.Join(parts, " && ")
	}
	for _, n := range gos {
		gg = append(gg, guardKey(n))
	}
	for _, n := range waits {
		gw = append(gw, guardKey(n))
	}
	sort.Strings(gg)
	sort.Strings(gw)
	counted := ""
	if strings.Join(gg, ";") != strings.Join(gw, ";") {
		counted = e.sinkCountedWaits(gos, waits)
	}
	if strings.Join(gg, ";") != strings.Join(gw, ";") && counted == "" {
		okAll = false
		ob.Fail(core.FuncName(run), "the waits are not guarded by the same conditions as the drainers: drainers under {"+strings.Join(gg, "; ")+"}, waits under {"+strings.Join(gw, "; ")+"} (a missing wait lets Run return early, an extra one blocks forever)")
	}
	if okAll {
		ob.OK(core.FuncName(run), fmt.Sprintf("%d drainers then %d waits, guards: %s %s", len(gos), len(waits), strings.Join(gg, "; "), counted))
	}
	// drainer bodies
	for _, n := range gos {
		f := funcOf(n.Call.Value)
		if f == nil {
			obd.Unknown(g.Where(n), "drainer is not a function literal")
			continue
		}
		gd := e.XG(f)
		if gd == nil {
			continue
		}
		var sends []*core.Node
		for _, m := range gd.Nodes {
			if isSend(m) && m.Ctx == gd.Root {
				sends = append(sends, m)
			}
		}
		if len(sends) != 1 {
			obd.Fail(g.Where(n), fmt.Sprintf("the drainer has %d signal sends (exactly 1 expected)", len(sends)))
			continue
		}
		s := sends[0]
		after := gd.BackwardMust(func(m *core.Node) core.Bits {
			if m == s {
				return 1
			}
			return 0
		})
		// the drain loop: a comma-ok receive (range over channel) that precedes the send, send outside any loop
		hasRange := false
		for _, m := range gd.Nodes {
			if u, ok := m.Instr.(*ssa.UnOp); ok && u.Op == token.ARROW && u.CommaOk && core.InnermostLoop(u) != nil {
				chs := sy.InCtx(m.Ctx, u.X).String()
				if strings.Contains(chs, ".Chan") {
					hasRange = true
					if ex := p.EarlyExits(core.InnermostLoop(u)); len(ex) > 0 {
						obd.Fail(gd.Where(m), "the drain loop can be left before the channel is closed: "+ex[0])
					}
				}
			}
		}
		switch {
		case !hasRange:
			obd.Fail(g.Where(n), "the drainer does not range over its in-port channel")
		case core.InnermostLoop(s.Instr) != nil:
			obd.Fail(gd.Where(s), "the drainer signals inside its loop (once per item instead of once at the end)")
		case after[gd.Entry]&1 == 0:
			obd.Fail(gd.Where(s), "a returning path of the drainer does not signal: the sink waits forever")
		default:
			obd.OK(gd.Where(s), "range to closure, then one signal")
		}
	}
}

// sinkWaitGroup recognises the sync.WaitGroup form of drain-all-then-wait: wg.Add(1) in the basic block of every
// `go` (once per started drainer, under the same conditions), every drainer ranges its channel to closure and
// calls wg.Done on every returning path, and wg.Wait follows all the go statements. Returns false when the code
// is not of that form (nothing is reported then).
func (e *Env) sinkWaitGroup(g *core.XG, run *ssa.Function, gos []*core.Node, ob, obd *core.Obligation) bool {
	var waits, adds []*core.Node
	for _, n := range g.Nodes {
		if n.Kind == core.KAfter {
			continue
		}
		switch {
		case n.IsCallTo("(*sync.WaitGroup).Wait"):
			waits = append(waits, n)
		case n.IsCallTo("(*sync.WaitGroup).Add"):
			adds = append(adds, n)
		}
	}
	if len(waits) == 0 || len(adds) == 0 {
		return false
	}
	okAll := true
	used := map[*core.Node]bool{}
	for _, gn := range gos {
		hit := false
		for _, an := range adds {
			k, isK := an.Call.Args[len(an.Call.Args)-1].(*ssa.Const)
			if !used[an] && an.Ctx == gn.Ctx && an.Instr.Block() == gn.Instr.Block() && isK && k.Value != nil && k.Int64() == 1 {
				used[an], hit = true, true
				break
			}
		}
		if !hit {
			okAll = false
			ob.Fail(g.Where(gn), "the drainer is started without a wg.Add(1) of its own under the same condition: Wait returns early or blocks forever")
		}
	}
	if len(adds) != len(gos) {
		okAll = false
		ob.Fail(core.FuncName(run), fmt.Sprintf("%d wg.Add calls for %d drainers", len(adds), len(gos)))
	}
	// every go precedes the Wait: no go is reachable from a Wait
	for _, w := range waits {
		reach := g.ReachableFrom(w, nil)
		for _, gn := range gos {
			if reach[gn] {
				okAll = false
				ob.Fail(g.Where(gn), "a drainer goroutine is started only after a wait: the sink drains its ports one after the other, so a producer blocked on the not-yet-drained port deadlocks the workflow")
			}
		}
	}
	// Run does not return without waiting
	after := g.BackwardMust(func(m *core.Node) core.Bits {
		if m.IsCallTo("(*sync.WaitGroup).Wait") && m.Kind != core.KAfter && !m.Deferred {
			return 1
		}
		return 0
	})
	for _, gn := range gos {
		if after[gn]&1 == 0 {
			okAll = false
			ob.Fail(g.Where(gn), "a returning path after starting a drainer does not Wait for it")
		}
	}
	if okAll {
		ob.OK(core.FuncName(run), fmt.Sprintf("%d drainers, each with its own wg.Add(1); wg.Wait after all of them", len(gos)))
	}
	sy := e.symbolizer()
	for _, n := range gos {
		f := funcOf(n.Call.Value)
		if f == nil {
			obd.Unknown(g.Where(n), "drainer is not a function literal or method")
			continue
		}
		gd := e.XG(f)
		if gd == nil {
			continue
		}
		hasRange := false
		for _, m := range gd.Nodes {
			if u, ok := m.Instr.(*ssa.UnOp); ok && u.Op == token.ARROW && u.CommaOk && core.InnermostLoop(u) != nil {
				if strings.Contains(sy.InCtx(m.Ctx, u.X).String(), ".Chan") {
					hasRange = true
					if ex := e.P.EarlyExits(core.InnermostLoop(u)); len(ex) > 0 {
						obd.Fail(gd.Where(m), "the drain loop can be left before the channel is closed: "+ex[0])
					}
				}
			}
		}
		aft := gd.BackwardMust(func(m *core.Node) core.Bits {
			if m.IsCallTo("(*sync.WaitGroup).Done") {
				return 1
			}
			return 0
		})
		switch {
		case !hasRange:
			obd.Fail(g.Where(n), "the drainer does not range over its in-port channel")
		case aft[gd.Entry]&1 == 0 && !gd.Entry.IsCallTo("(*sync.WaitGroup).Done"):
			obd.Fail(core.FuncName(f), "a returning path of the drainer does not call wg.Done: the sink waits forever")
		default:
			obd.OK(core.FuncName(f), "range to closure, then wg.Done")
		}
	}
	return true
}

// sinkCountedWaits recognises the "pending counter" form of drain-all-then-wait: a counter that starts at 0 and
// is incremented by exactly 1 in the basic block of every `go` statement (so: once per started drainer, under
// the same conditions), and a single wait inside a counted loop that runs exactly <counter> times. It returns
// a description, or "" when the code is not of that form.
func (e *Env) sinkCountedWaits(gos, waits []*core.Node) string {
	if len(waits) != 1 {
		return ""
	}
	bound, why := e.P.CountedLoopBound(waits[0].Instr)
	if bound == nil {
		_ = why
		return ""
	}
	var incs []*ssa.BinOp
	ok := true
	seen := map[ssa.Value]bool{}
	var walk func(v ssa.Value)
	walk = func(v ssa.Value) {
		if seen[v] {
			return
		}
		seen[v] = true
		switch x := v.(type) {
		case *ssa.Phi:
			for _, ed := range x.Edges {
				walk(ed)
			}
		case *ssa.Const:
			if x.Value == nil || x.Int64() != 0 {
				ok = false
			}
		case *ssa.BinOp:
			k, isK := x.Y.(*ssa.Const)
			if x.Op != token.ADD || !isK || k.Value == nil || k.Int64() != 1 {
				ok = false
				return
			}
			incs = append(incs, x)
			walk(x.X)
		default:
			ok = false
		}
	}
	walk(bound)
	if !ok || len(incs) != len(gos) {
		return ""
	}
	used := map[*ssa.BinOp]bool{}
	for _, gn := range gos {
		if core.InnermostLoop(gn.Instr) != nil {
			return ""
		}
		hit := false
		for _, inc := range incs {
			if inc.Block() == gn.Instr.Block() && !used[inc] {
				used[inc], hit = true, true
				break
			}
		}
		if !hit {
			return ""
		}
	}
	return fmt.Sprintf("(counted: one increment per started drainer, one wait per count)")
}

// guardsOf renders the branch conditions (with polarity) that dominate instruction in, innermost last.
func guardsOf(sy *core.Symbolizer, fn *ssa.Function, in ssa.Instruction) string {
	var gs []string
	b := in.Block()
	for d := b; d != nil; d = d.Idom() {
		id := d.Idom()
		if id == nil {
			break
		}
		iff, ok := id.Instrs[len(id.Instrs)-1].(*ssa.If)
		if !ok {
			continue
		}
		var pol string
		switch {
		case id.Succs[0].Dominates(b) && len(id.Succs[0].Preds) == 1:
			pol = ""
		case id.Succs[1].Dominates(b) && len(id.Succs[1].Preds) == 1:
			pol = "!"
		default:
			continue
		}
		gs = append(gs, pol+sy.InFunc(fn, iff.Cond).String())
	}
	sort.Strings(gs)
	return strings.Join(gs, " && ")
}

// ---- R6 -------------------------------------------------------------------

func (e *Env) c05Reconnect(rule string) {
	r := e.R
	g := e.runRoot()
	if g == nil {
		r.Ob(rule, "reconnectDeadEndConnections", "dangling out-ports are wired to the sink").Unknown("-", "(*Workflow).Run not found")
		return
	}
	isPortReady := func(m *core.Node) bool {
		return m.Kind == core.KCall && m.Callee != nil && (core.FuncName(m.Callee) == "(*OutPort).Ready" || core.FuncName(m.Callee) == "(*OutParamPort).Ready")
	}
	for _, k := range []struct{ kind, readyFn, sinkFn, ports string }{
		{"OutPorts", "(*OutPort).Ready", "(*Sink).From", "OutPorts"},
		{"OutParamPorts", "(*OutParamPort).Ready", "(*Sink).FromParam", "OutParamPorts"},
	} {
		ob := r.Ob(rule, "reconnectDeadEndConnections#"+k.kind, "every "+k.kind[:len(k.kind)-1]+" of every process of the run set that is left without a consumer is connected to the sink")
		isSinkFrom := func(n *core.Node) bool {
			return n.Callee != nil && core.FuncName(n.Callee) == k.sinkFn && n.Kind != core.KAfter
		}
		var readys []*core.Node
		for _, n := range g.Nodes {
			// a Ready() test (the port type's own method, or one promoted from a type the ports embed) ...
			if n.Callee != nil && n.Callee.Name() == "Ready" && n.Kind == core.KCall && n.Call != nil && len(n.Call.Args) > 0 {
				// ... only the tests made while rewiring: on an element of a process's port map (the k.ports()
				// accessor without the Param infix for plain ports), followed by a possible sink connection
				s := e.xargSym(n, 0).String()
				ofKind := strings.Contains(s, k.ports+"(")
				if k.ports == "OutPorts" && strings.Contains(s, "OutParamPorts(") {
					ofKind = false
				}
				if strings.Contains(s, "val∈") && ofKind && g.ReachableFrom(n, nil)[firstMatch(g, isSinkFrom)] {
					readys = append(readys, n)
				}
			}
		}
		if len(readys) == 0 {
			ob.Fail("(*Workflow).Run", "no readiness test of the "+k.kind+" of the run set that can lead to a sink connection: a port nobody consumes is never wired to the sink and its process blocks forever")
			continue
		}
		for _, rn := range readys {
			var load *core.Node
			for _, m := range g.Nodes {
				if m.Ctx == rn.Inl {
					if v, ok := m.Instr.(ssa.Value); ok && fieldOfLoad(v) != nil && isBoolType(fieldOfLoad(v).Type()) {
						load = m
					}
				}
			}
			if load == nil {
				ob.Unknown(g.Where(rn), "Ready() does not read a readiness field")
				continue
			}
			res := g.Run(core.Scenario{Start: load, Result: core.BoolAV(false)})
			next := func(m *core.Node) bool { return m.Kind == core.KRootRet || (isPortReady(m) && m != rn) || m.IsGo }
			if w := res.ReachesAvoiding(next, isSinkFrom); w != nil {
				ob.Fail(g.Where(rn), "an unconnected port can be left unconnected (no "+k.sinkFn+" before the next port is examined / the processes are started)")
				continue
			}
			okLoops := true
			for _, la := range iterLoops(g, rn) {
				if !e.loopHarmlessExits(g, la) {
					okLoops = false
					ob.Fail(g.Where(rn), "a loop around the readiness test can be left early")
				}
			}
			if okLoops {
				ob.OK(g.Where(rn), "not ready ⇒ "+k.sinkFn+"("+trunc(e.xargSym(rn, 0).String(), 80)+")")
			}
		}
		obc := r.Ob(rule, "reconnectDeadEndConnections:cut#"+k.kind, "every connection of the port is examined: the loop over RemotePorts that disconnects consumers outside the run set is not left early")
		nDis := 0
		for _, n := range g.Nodes {
			if n.Callee == nil || n.Callee.Name() != "Disconnect" || n.Kind == core.KAfter || !strings.Contains(core.FuncName(n.Callee), k.kind[:len(k.kind)-1]+")") {
				continue
			}
			nDis++
			la, ok := e.loopOver(g, n, "RemotePorts")
			if !ok {
				obc.Fail(g.Where(n), "Disconnect is not inside a loop over the port's connections")
				continue
			}
			if !e.loopHarmlessExits(g, la) {
				obc.Fail(g.Where(n), "the loop over the connections can be left before all of them were examined (a connection to a process outside the run set survives; its producer blocks once the buffer is full)")
			} else {
				obc.OK(g.Where(n), "complete range over RemotePorts")
			}
		}
		if nDis == 0 {
			obc.Fail("(*Workflow).Run", "connections to processes outside the run set are never cut for "+k.kind)
		}
		// polarity and presence, by scenario: a consumer whose process is NOT in the run set (the membership lookup says
		// "absent") is disconnected before the next connection is looked at
		obm := r.Ob(rule, "reconnectDeadEndConnections:outside⇒cut#"+k.kind, "a consumer whose process is not among those being run is disconnected (scenario: the membership test says 'absent')")
		isDisc := func(n *core.Node) bool {
			return n.Callee != nil && n.Callee.Name() == "Disconnect" && n.Kind != core.KAfter && strings.Contains(core.FuncName(n.Callee), k.kind[:len(k.kind)-1]+")")
		}
		nLk := 0
		for _, n := range g.Nodes {
			lk, ok := n.Instr.(*ssa.Lookup)
			if !ok || !lk.CommaOk || n.Kind == core.KAfter {
				continue
			}
			mt, ok := lk.X.Type().Underlying().(*types.Map)
			if !ok || typeNameOf(mt.Elem()) != "WorkflowProcess" {
				continue
			}
			la, ok := e.loopOver(g, n, "RemotePorts")
			if !ok {
				continue
			}
			coll := e.loopCollection(g, la)
			if (k.kind == "OutPorts") == strings.Contains(coll, "OutParamPorts(") {
				continue // the other port kind's loop
			}
			nLk++
			test, _, okT := g.LoopTest(la)
			res := g.Run(core.Scenario{Start: n, Result: core.TupleAV(core.Top, core.BoolAV(false))})
			stop := func(m *core.Node) bool { return m.Kind == core.KRootRet || (okT && m == test) }
			if res.ReachesAvoiding(stop, isDisc) != nil {
				obm.Fail(g.Where(n), "when the consumer's process is not in the run set the loop goes on to the next connection without Disconnect: the producer keeps sending to a process that never runs and blocks once its buffer is full")
			} else {
				obm.OK(g.Where(n), "absent ⇒ Disconnect before the next connection")
			}
		}
		if nLk == 0 {
			obm.Unknown("(*Workflow).Run", "no membership test (lookup in the map of processes to run) inside the loop over the connections")
		}
	}
}

func firstMatch(g *core.XG, pred func(*core.Node) bool) *core.Node {
	for _, n := range g.Nodes {
		if pred(n) {
			return n
		}
	}
	return nil
}

// loopHarmlessExits: every early exit of the loop leads to a state from which the root never returns normally.
func (e *Env) loopHarmlessExits(g *core.XG, la core.LoopAt) bool {
	for _, ed := range e.P.EarlyExitEdges(la.L) {
		if tgt := g.FirstNodeOf(la.At.Ctx, ed.To); tgt != nil {
			if g.Run(core.Scenario{Start: tgt, AtEntry: true}).NormalReturn() != nil {
				return false
			}
		}
	}
	return true
}

// ---- R7 -------------------------------------------------------------------

func (e *Env) c05Pairing() {
	r := e.R
	sp := e.spine()
	if sp == nil {
		return
	}
	g := sp.g
	ob := r.Ob("R7", "Execute:mkTemp→RemoveAll", "once the task's temp dir is created, its removal is inevitable on every path on which Execute returns normally")
	isRm := nodeSet(sp.rmTemp)
	for _, n := range sp.mkTemp {
		res := g.Run(core.Scenario{Start: n})
		if w := res.PathAvoiding(func(m *core.Node) bool { return m.Kind == core.KRootRet }, func(m *core.Node) bool { return isRm[m] }); w != nil {
			ob.Fail(g.Where(n), "Execute can return normally without removing the temp dir it created (the next run refuses to start); witness branches: "+branchTrace(g, w))
		} else {
			ob.OK(g.Where(n), "RemoveAll(TempDir) on every returning path (the guard on its argument is decided by the constant prefix of Task.TempDir)")
		}
	}
	if len(sp.mkTemp) == 0 {
		ob.Unknown("-", "no creation of the temp dir found")
	}
	e.fifoRemovedRule("R7")
}

// forwardAllOutputs: Process.Run forwards every output of a finished task (and every streaming output of a
// started task) - the loops over Task.OutIPs that call OutPort.Send are complete.
func (e *Env) forwardAllOutputs(rule string) {
	r := e.R
	a := e.anchors()
	g := e.XG(a.procRun)
	if g == nil {
		return
	}
	obD := r.Ob(rule, "(*Process).Run:forward-all(done)", "when a task is done, every non-streaming output is sent on its out-port (loop over the task's OutIPs not left early, send on every iteration)")
	obS := r.Ob(rule, "(*Process).Run:forward-all(stream)", "when a task is started, every streaming output is sent on its out-port before the task goroutine starts")
	nD, nS := 0, 0
	for _, n := range g.Nodes {
		if _, ok := isPortSend(n); !ok || n.Kind == core.KAfter {
			continue
		}
		ip := e.xargSym(n, 1).String()
		isThis := func(m *core.Node) bool { return m == n }
		if strings.Contains(ip, "[0]") { // element of the head of the queue
			nD++
			if e.forAllOutputs(obD, g, n, isThis, core.Scenario{FieldLoad: e.assumeStream(false)}, "forwarding of finished outputs") {
				obD.OK(g.Where(n), "Send("+ip+") for every non-streaming output")
			}
		} else {
			nS++
			if e.forAllOutputs(obS, g, n, isThis, core.Scenario{FieldLoad: e.assumeStream(true), CallResult: func(m *core.Node) (core.AV, bool) {
				if isStat(m) {
					return core.TupleAV(core.Top, core.NonNilAV(core.ErrNotExist)), true
				}
				return core.Top, false
			}}, "forwarding of streaming outputs") {
				obS.OK(g.Where(n), "Send("+ip+") for every streaming output")
			}
		}
	}
	if nD == 0 {
		obD.Fail(core.FuncName(a.procRun), "finished outputs are never sent")
	}
	if nS == 0 {
		obS.Fail(core.FuncName(a.procRun), "streaming outputs are never sent when the task starts")
	}
}

// branchTrace renders the branch decisions along a witness path.
func branchTrace(g *core.XG, path []*core.Node) string {
	var out []string
	for i, n := range path {
		if _, ok := n.Instr.(*ssa.If); ok && n.Kind == core.KInstr && i+1 < len(path) && len(n.Succs) == 2 {
			side := "T"
			if path[i+1] == n.Succs[1] {
				side = "F"
			}
			out = append(out, g.P.InstrPos(n.Instr)+":"+side)
		}
	}
	if len(out) > 14 {
		out = out[len(out)-14:]
	}
	return strings.Join(out, " ")
}

// decidesLoopExit: the node n (lifted along its calling-context chain to the function of inLoop) sits in a block of
// the loop around inLoop whose terminator has an edge that leaves that loop.
func (e *Env) decidesLoopExit(g *core.XG, n, inLoop *core.Node) bool {
	top := n
	for top.Ctx != inLoop.Ctx && top.Ctx.CallNode != nil {
		top = top.Ctx.CallNode
	}
	if top.Ctx != inLoop.Ctx || top.Instr == nil || inLoop.Instr == nil {
		return false
	}
	for _, l := range core.LoopsOf(inLoop.Instr) {
		b := top.Instr.Block()
		if !l.Blocks[b] {
			continue
		}
		for _, s := range b.Succs {
			if !l.Blocks[s] {
				return true
			}
		}
	}
	return false
}
