package rules

import "sort"

func sortStrings(s []string) { sort.Strings(s) }
