package rules

import (
	"go/types"
	"sort"
)

func sortStrings(s []string) { sort.Strings(s) }

// typesVar is an alias to keep rule signatures short.
type typesVar = types.Var

func typeNamed(t types.Type) *types.Named {
	if p, ok := t.Underlying().(*types.Pointer); ok {
		t = p.Elem()
	}
	n, _ := t.(*types.Named)
	return n
}

// isBoolType: the (underlying) type is bool.
func isBoolType(t types.Type) bool {
	b, ok := t.Underlying().(*types.Basic)
	return ok && b.Kind() == types.Bool
}

// subFieldName: the name of the Task field that holds the collected sub-streams - identified by its type,
// map[string][]*FileIP (a private field: its spelling is not part of any rule).
func (e *Env) subFieldName() string {
	if tk := e.P.Named("scipipe", "Task"); tk != nil {
		if st, ok := tk.Underlying().(*types.Struct); ok {
			for i := 0; i < st.NumFields(); i++ {
				if mt, ok := st.Field(i).Type().Underlying().(*types.Map); ok {
					if sl, ok := mt.Elem().Underlying().(*types.Slice); ok && typeNamed(sl.Elem()) != nil && typeNamed(sl.Elem()).Obj().Name() == "FileIP" {
						return st.Field(i).Name()
					}
				}
			}
		}
	}
	return "subStreamIPs"
}

// joinFlagName: the name of the PortInfo flag that makes the formatter join a sub-stream (found by the
// formatter analysis), "join" when it cannot be determined.
func (e *Env) joinFlagName() string {
	if fi := e.formatter(); fi != nil && fi.joinFld != nil {
		return fi.joinFld.Name()
	}
	return "join"
}

// auditCacheField: the field in which an IP caches its audit record - the field of type *AuditInfo of BaseIP
// (or FileIP), whatever it is called.
func (e *Env) auditCacheField() *types.Var {
	ai := e.P.Named("scipipe", "AuditInfo")
	for _, tn := range []string{"BaseIP", "FileIP"} {
		nt := e.P.Named("scipipe", tn)
		if nt == nil {
			continue
		}
		st, ok := nt.Underlying().(*types.Struct)
		if !ok {
			continue
		}
		for i := 0; i < st.NumFields(); i++ {
			if pt, ok := st.Field(i).Type().(*types.Pointer); ok && ai != nil && types.Identical(pt.Elem(), ai) {
				return st.Field(i)
			}
		}
	}
	return e.P.FieldVar("scipipe", "BaseIP", "auditInfo")
}

// ipLockName: the name of FileIP's mutex field (its only sync.Mutex / *sync.Mutex / RWMutex field).
func (e *Env) ipLockName() string {
	if nt := e.P.Named("scipipe", "FileIP"); nt != nil {
		if st, ok := nt.Underlying().(*types.Struct); ok {
			for i := 0; i < st.NumFields(); i++ {
				switch st.Field(i).Type().String() {
				case "sync.Mutex", "*sync.Mutex", "sync.RWMutex", "*sync.RWMutex":
					return st.Field(i).Name()
				}
			}
		}
	}
	return "lock"
}
