package rules

import (
	"go/types"
	"sort"
)

func sortStrings(s []string) { sort.Strings(s) }

// typesVar is an alias to keep rule signatures short.
type typesVar = types.Var

func typeNamed(t types.Type) *types.Named {
	if p, ok := t.Underlying().(*types.Pointer); ok {
		t = p.Elem()
	}
	n, _ := t.(*types.Named)
	return n
}
