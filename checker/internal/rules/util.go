package rules

import (
	"go/types"
	"sort"
)

func sortStrings(s []string) { sort.Strings(s) }

// typesVar is an alias to keep rule signatures short.
type typesVar = types.Var

func typeNamed(t types.Type) *types.Named {
	if p, ok := t.Underlying().(*types.Pointer); ok {
		t = p.Elem()
	}
	n, _ := t.(*types.Named)
	return n
}

// isBoolType: the (underlying) type is bool.
func isBoolType(t types.Type) bool {
	b, ok := t.Underlying().(*types.Basic)
	return ok && b.Kind() == types.Bool
}

// subFieldName: the name of the Task field that holds the collected sub-streams - identified by its type,
// map[string][]*FileIP (a private field: its spelling is not part of any rule).
func (e *Env) subFieldName() string {
	if tk := e.P.Named("scipipe", "Task"); tk != nil {
		if st, ok := tk.Underlying().(*types.Struct); ok {
			for i := 0; i < st.NumFields(); i++ {
				if mt, ok := st.Field(i).Type().Underlying().(*types.Map); ok {
					if sl, ok := mt.Elem().Underlying().(*types.Slice); ok && typeNamed(sl.Elem()) != nil && typeNamed(sl.Elem()).Obj().Name() == "FileIP" {
						return st.Field(i).Name()
					}
				}
			}
		}
	}
	return "subStreamIPs"
}

// joinFlagName: the name of the PortInfo flag that makes the formatter join a sub-stream (found by the
// formatter analysis), "join" when it cannot be determined.
func (e *Env) joinFlagName() string {
	if fi := e.formatter(); fi != nil && fi.joinFld != nil {
		return fi.joinFld.Name()
	}
	return "join"
}
