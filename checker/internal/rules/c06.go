package rules

import (
	"fmt"
	"go/token"
	"go/types"
	"strings"

	"golang.org/x/tools/go/ssa"

	"scicheck/internal/core"
)

func init() { Registry["C06"] = c06 }

// slotUses classifies every use of the slot-channel field in the loaded program.
type slotUse struct {
	fn   *ssa.Function
	in   ssa.Instruction
	kind string // send recv cap len store-make store-other select close other
}

func (a *anchors) slotUses() []slotUse {
	var out []slotUse
	p := a.e.P
	for fn := range p.AllFuncs {
		if !p.IsRepo(fn) || fn.Blocks == nil {
			continue
		}
		for _, b := range fn.Blocks {
			for _, in := range b.Instrs {
				fa, ok := in.(*ssa.FieldAddr)
				if !ok || fieldOfAddr(fa) != a.slotField {
					continue
				}
				for _, ref := range *fa.Referrers() {
					switch r := ref.(type) {
					case *ssa.Store:
						if r.Addr == ssa.Value(fa) {
							k := "store-other"
							if _, ok := r.Val.(*ssa.MakeChan); ok {
								k = "store-make"
							}
							out = append(out, slotUse{fn, r, k})
						} else {
							out = append(out, slotUse{fn, r, "other"})
						}
					case *ssa.UnOp:
						if r.Op != token.MUL {
							out = append(out, slotUse{fn, r, "other"})
							continue
						}
						for _, use := range *r.Referrers() {
							out = append(out, slotUse{fn, use, classifyChanUse(use, r)})
						}
					default:
						out = append(out, slotUse{fn, ref, "other"})
					}
				}
			}
		}
	}
	return out
}

func classifyChanUse(use ssa.Instruction, ch ssa.Value) string {
	switch u := use.(type) {
	case *ssa.Send:
		if u.Chan == ch {
			return "send"
		}
	case *ssa.UnOp:
		if u.Op == token.ARROW && u.X == ch {
			return "recv"
		}
	case *ssa.Select:
		return "select"
	case *ssa.Call:
		if b, ok := u.Call.Value.(*ssa.Builtin); ok {
			switch b.Name() {
			case "cap", "len":
				return b.Name()
			case "close":
				return "close"
			}
		}
	case *ssa.DebugRef:
		return "debug"
	}
	return "other"
}

func c06(e *Env) {
	r := e.R
	r.Explanation = "Static decision of the slot-accounting obligations that together imply the bound: (R1) the slot channel is touched only by sends in the acquire function, receives in the release function, cap() and its construction; (R2) acquire(n) performs exactly n sends and release(n) exactly n receives (counted-loop idiom, no early exit); (R3) in Task.Execute's expanded CFG the acquire call precedes every command execution / CustomExecute call on all paths, every release is preceded by an acquire and by the command, every acquire is followed by a release on all normally-returning paths, and both calls pass the same constructor-only Task field; (R4) that field is rooted in Process.CoresPerTask and the channel capacity in NewWorkflow's parameter without arithmetic; (R5) commands are executed only below Task.Execute and acquire/release are called only from Task.Execute. Argument: tokens in the channel >= sum of cores of tasks between acquire and release >= sum of cores of executing tasks, and a Go channel never holds more than its capacity."
	r.NotDecided = "nothing further for this property, modulo Go channel semantics and user code that mutates CoresPerTask mid-run or calls Inc/DecConcurrentTasks itself (outside the analysed repository)."
	a := e.anchors()
	if !a.ok() {
		return
	}
	p := e.P
	// ---- R1 who may touch the slot channel
	uses := a.slotUses()
	sendFns, recvFns := map[*ssa.Function]int{}, map[*ssa.Function]int{}
	obOther := r.Ob("R1", "slot:other-uses", "nothing but sends (acquire), receives (release), cap()/len() and the constructor's make() touches the slot channel")
	obOther.OK("-", fmt.Sprintf("%d uses of Workflow.%s examined", len(uses), a.slotField.Name()))
	for _, u := range uses {
		switch u.kind {
		case "send":
			sendFns[u.fn]++
		case "recv":
			recvFns[u.fn]++
		case "cap", "len", "store-make", "debug":
		default:
			obOther.Fail(e.where(u.in), fmt.Sprintf("%s of the slot channel in %s", u.kind, core.FuncName(u.fn)))
		}
	}
	e.positiveControls("chan-close")
	obS := r.Ob("R1", "slot:send-sites", "sends on the slot channel occur only in the call tree of the acquire function (and that part of the tree is reachable only through it)")
	obR := r.Ob("R1", "slot:recv-sites", "receives on the slot channel occur only in the call tree of the release function")
	if len(a.acquire) != 1 || len(a.release) != 1 {
		obS.Fail("-", "acquire/release functions not unique: send sites in "+fnNames(sendFns)+", receive sites in "+fnNames(recvFns))
		return
	}
	treeOf := func(fn *ssa.Function) map[*ssa.Function]bool {
		m := map[*ssa.Function]bool{}
		if g := e.XG(fn); g != nil {
			for _, c := range g.Ctxs {
				m[c.Fn] = true
			}
		}
		return m
	}
	confined := func(sites map[*ssa.Function]int, root *ssa.Function, ob *core.Obligation, what string) {
		tree := treeOf(root)
		if len(sites) == 0 {
			ob.Fail("-", "no "+what+" on the slot channel at all")
			return
		}
		for f := range sites {
			ok := tree[f]
			if ok && f != root {
				for _, c := range p.Callers(f) {
					if p.IsRepo(c) && !tree[c] && c.Synthetic == "" {
						ok = false
					}
				}
			}
			ob.Check(ok, e.where(f.Blocks[0].Instrs[0]), what+" in "+core.FuncName(f)+" (below "+core.FuncName(root)+")", what+" on the slot channel in "+core.FuncName(f)+", outside (or reachable from outside) "+core.FuncName(root))
		}
	}
	confined(sendFns, a.acquire[0], obS, "send")
	confined(recvFns, a.release[0], obR, "receive")
	if obS.Status != core.Discharged || obR.Status != core.Discharged {
		return
	}
	acq, rel := a.acquire[0], a.release[0]
	// ---- R2 counted loops
	for _, x := range []struct {
		fn   *ssa.Function
		name string
		isOp func(*core.Node) bool
		want string
	}{{acq, "acquire", a.isSlotSend, "send"}, {rel, "release", a.isSlotRecv, "receive"}} {
		ob := r.Ob("R2", x.name+":n-ops", x.name+"(n) performs exactly n slot-channel operations: one per iteration of `for i := 0; i < n; i++`, n being its parameter, no early exit")
		gx := e.XG(x.fn)
		if gx == nil {
			continue
		}
		ops := gx.Select(x.isOp)
		if len(ops) != 1 {
			ob.Fail(core.FuncName(x.fn), fmt.Sprintf("%d %s operations on the slot channel in %s's call tree (exactly 1, inside the counted loop, expected)", len(ops), x.want, core.FuncName(x.fn)))
			continue
		}
		las := iterLoops(gx, ops[0])
		if len(las) != 1 {
			ob.Fail(gx.Where(ops[0]), fmt.Sprintf("the %s is inside %d loops (exactly one counted loop expected)", x.want, len(las)))
			continue
		}
		la := las[0]
		bound, why := p.CountedLoopBound(la.At.Instr)
		if bound == nil {
			ob.Fail(gx.Where(ops[0]), why)
			continue
		}
		bs := e.symbolizer().InCtx(la.At.Ctx, bound)
		isParam := false
		for _, pa := range x.fn.Params {
			if bs.Op == "param" && bs.Name == pa.Name() && isIntType(pa.Type()) {
				isParam = true
			}
		}
		// inside the helper chain between the loop and the operation there must be no further loop or condition
		straight := true
		for y := ops[0]; y != la.At; y = y.Ctx.CallNode {
			if y.Instr.Block() != y.Ctx.Fn.Blocks[0] && !y.Instr.Block().Dominates(lastBlock(y.Ctx.Fn)) {
				straight = false
			}
		}
		switch {
		case !isParam:
			ob.Fail(gx.Where(ops[0]), "the loop bound is not the function's integer parameter: "+bs.String())
		case !straight:
			ob.Fail(gx.Where(ops[0]), "the "+x.want+" is conditional inside its helper")
		default:
			ob.OK(gx.Where(ops[0]), fmt.Sprintf("%s: one %s per iteration, bound = parameter %s", core.FuncName(x.fn), x.want, bs.Name))
		}
	}
	// ---- R3 ordering and pairing in Execute
	g := e.XG(a.execute)
	if g == nil {
		return
	}
	const (
		evAcq core.Bits = 1 << iota
		evRun
		evRel
	)
	tf := func(n *core.Node) core.Transfer {
		var b core.Bits
		if a.isAcquire(n) {
			b |= evAcq
		}
		if a.isRun(n) {
			b |= evRun
		}
		if a.isRelease(n) {
			b |= evRel
		}
		return core.Transfer{Gen: b}
	}
	must := g.Forward(tf, true)
	may := g.Forward(tf, false)
	obAR := r.Ob("R3", "Execute:acquire≺run", "on every path of Task.Execute a slot acquisition precedes each command execution / CustomExecute call")
	runs := g.Select(a.isRun)
	for _, n := range runs {
		obAR.Check(must[n]&evAcq != 0, g.Where(n), "acquire on all paths before "+nodeDesc(n), "a path reaches "+nodeDesc(n)+" without a preceding acquire")
	}
	obRR := r.Ob("R3", "Execute:run≺release", "every release is preceded, on all paths, by an acquire and by the command execution (tokens are held while the command runs)")
	rels := g.Select(a.isRelease)
	for _, n := range rels {
		ok := must[n]&evAcq != 0 && must[n]&evRun != 0
		obRR.Check(ok, g.Where(n), "acquire and command on all paths before the release", "a path reaches the release without a preceding acquire and command execution (tokens of another task would be removed)")
	}
	obOnce := r.Ob("R3", "Execute:single-acquire", "a task acquires once and releases once (no second acquire after the first, no second release)")
	for _, n := range g.Select(a.isAcquire) {
		obOnce.Check(may[n]&evAcq == 0, g.Where(n), "first acquire on every path", "a second acquire may follow an earlier one while its tokens are held")
	}
	for _, n := range rels {
		obOnce.Check(may[n]&evRel == 0, g.Where(n), "first release on every path", "a second release may follow an earlier one")
	}
	after := g.BackwardMust(func(n *core.Node) core.Bits {
		if a.isRelease(n) {
			return evRel
		}
		return 0
	})
	obAF := r.Ob("R3", "Execute:acquire→release", "every acquire is followed by a release on every path on which Execute returns normally (no token leak)")
	for _, n := range g.Select(a.isAcquire) {
		// the acquire node is a KCall; look at what is certain after its landing
		obAF.Check(after[n]&evRel != 0, g.Where(n), "release on all normally returning paths", "a normally returning path after the acquire has no release (token leak)")
	}
	// same argument: both are loads of the same constructor-only Task field
	obArg := r.Ob("R3", "Execute:same-count", "acquire and release receive the same value: loads of one Task field on the same task, stored only in NewTask")
	var fields []*types.Var
	var argStrs []string
	for _, n := range append(g.Select(a.isAcquire), rels...) {
		sy := e.argSym(n, len(n.Call.Args)-1)
		if sy == nil || sy.Op != "field" {
			obArg.Fail(g.Where(n), "the token count is not a load of a Task field: "+fmt.Sprint(sy))
			continue
		}
		f := fieldOfLoad(sy.Val)
		if f == nil {
			obArg.Fail(g.Where(n), "the token count is not a load of a Task field: "+sy.String())
			continue
		}
		fields = append(fields, f)
		argStrs = append(argStrs, sy.String())
	}
	for _, s := range argStrs {
		if s != argStrs[0] {
			obArg.Fail("-", "acquire and release count different values: "+argStrs[0]+" vs "+s)
		}
	}
	if len(fields) >= 2 {
		same := true
		for _, f := range fields {
			if f != fields[0] {
				same = false
			}
		}
		if !same {
			obArg.Fail("-", "acquire and release use different fields")
		} else {
			st := a.storesTo(fields[0])
			bad := ""
			for _, s := range st {
				if s.Parent() != a.newTask {
					bad = e.where(s) + " in " + core.FuncName(s.Parent())
				}
			}
			obArg.Check(bad == "", "-", fmt.Sprintf("field Task.%s, stored only in NewTask (%d store)", fields[0].Name(), len(st)), "Task."+fields[0].Name()+" is also stored at "+bad)
			// ---- R4 roots
			obC := r.Ob("R4", "NewTask:cores←Process.CoresPerTask", "the task's token count is the process's CoresPerTask (value-flow root at the NewTask call)")
			e.checkCoresRoot(obC, fields[0])
		}
	}
	obCap := r.Ob("R4", "slot:cap←NewWorkflow.param", "the slot channel's capacity is NewWorkflow's maxConcurrentTasks parameter, with no arithmetic")
	e.checkCapRoot(obCap)
	// ---- R5 who may run commands / call acquire+release
	obWho := r.Ob("R5", "runner:callers", "commands of tasks are executed only below Task.Execute: every exec call in package scipipe that takes Task.Command lies in Execute's call tree; acquire and release are called only from Task.Execute")
	inTree := map[*ssa.Function]bool{}
	for _, c := range g.Ctxs {
		inTree[c.Fn] = true
	}
	for _, f := range []*ssa.Function{acq, rel} {
		for _, c := range p.Callers(f) {
			if !p.IsRepo(c) || c.Synthetic != "" {
				continue
			}
			// an exported wrapper (the public Inc/DecConcurrentTasks API kept for custom components) that is itself
			// only a pass-through is not a second user inside the library
			if c.Object() != nil && c.Object().Exported() && len(p.Callers(c)) == 0 {
				continue
			}
			obWho.Check(inTree[c], e.where(c.Blocks[0].Instrs[0]), core.FuncName(f)+" called from "+core.FuncName(c)+" (in Task.Execute's call tree)", core.FuncName(f)+" is also called from "+core.FuncName(c)+", outside Task.Execute's call tree")
		}
	}
	for _, fn := range p.LibFuncs {
		if fn.Pkg == nil || fn.Pkg.Pkg.Path() != core.ModPath {
			continue
		}
		for _, b := range fn.Blocks {
			for _, in := range b.Instrs {
				c, ok := in.(*ssa.Call)
				if !ok || c.Call.StaticCallee() == nil {
					continue
				}
				nm := c.Call.StaticCallee().String()
				isX := false
				for _, x := range execNames {
					if nm == x {
						isX = true
					}
				}
				if !isX {
					continue
				}
				if inTree[fn] {
					// reachable from Execute: must be reachable ONLY from Execute among task-level entry points
					callers := p.Callers(fn)
					for _, cf := range callers {
						if p.IsRepo(cf) && !inTree[cf] {
							obWho.Fail(e.where(in), core.FuncName(fn)+" (runs a task command) is also called from "+core.FuncName(cf))
						}
					}
					obWho.OK(e.where(in), "exec in "+core.FuncName(fn)+" below Task.Execute")
				}
			}
		}
	}
}

func fnNames(m map[*ssa.Function]int) string {
	var s []string
	for f, n := range m {
		s = append(s, fmt.Sprintf("%s×%d", core.FuncName(f), n))
	}
	if len(s) == 0 {
		return "∅"
	}
	sortStrings(s)
	return strings.Join(s, ", ")
}

func isIntType(t types.Type) bool {
	b, ok := t.Underlying().(*types.Basic)
	return ok && b.Info()&types.IsInteger != 0
}

func nodeDesc(n *core.Node) string {
	if n.Callee != nil {
		return "call " + core.FuncName(n.Callee)
	}
	if n.Call != nil {
		return "call " + n.Call.Value.Name()
	}
	if n.Instr != nil {
		return n.Instr.String()
	}
	return "node"
}

// storesTo lists every store to struct field f in the repository (field stores via FieldAddr, and
// composite-literal initialisation, which SSA lowers to the same FieldAddr+Store form).
func (a *anchors) storesTo(f *types.Var) []*ssa.Store {
	var out []*ssa.Store
	p := a.e.P
	for fn := range p.AllFuncs {
		if !p.IsRepo(fn) || fn.Blocks == nil {
			continue
		}
		for _, b := range fn.Blocks {
			for _, in := range b.Instrs {
				if st, ok := in.(*ssa.Store); ok {
					if fa, ok := st.Addr.(*ssa.FieldAddr); ok && fieldOfAddr(fa) == f {
						out = append(out, st)
					}
				}
			}
		}
	}
	return out
}

func (e *Env) checkCoresRoot(ob *core.Obligation, coresField *types.Var) {
	a := e.anchors()
	// the value stored to the field in NewTask must be NewTask's parameter; at every call of NewTask in the
	// library that parameter must be a load of Process.CoresPerTask.
	var par *ssa.Parameter
	for _, st := range a.storesTo(coresField) {
		if st.Parent() != a.newTask {
			continue
		}
		pv, ok := st.Val.(*ssa.Parameter)
		if !ok {
			ob.Fail(e.where(st), "Task."+coresField.Name()+" is not stored directly from a NewTask parameter: "+st.Val.String())
			return
		}
		par = pv
	}
	if par == nil {
		ob.Unknown("-", "no store to Task."+coresField.Name()+" in NewTask")
		return
	}
	idx := -1
	for i, pp := range a.newTask.Params {
		if pp == par {
			idx = i
		}
	}
	cpt := e.P.FieldVar("scipipe", "Process", "CoresPerTask")
	n := 0
	for _, fn := range e.P.LibFuncs {
		for _, b := range fn.Blocks {
			for _, in := range b.Instrs {
				c, ok := in.(*ssa.Call)
				if !ok || c.Call.StaticCallee() != a.newTask {
					continue
				}
				n++
				arg := c.Call.Args[idx]
				if fieldOfLoad(arg) == cpt && cpt != nil {
					ob.OK(e.where(c), "NewTask(..., cores = p.CoresPerTask) in "+core.FuncName(fn))
				} else {
					ob.Fail(e.where(c), "NewTask's core count argument is not Process.CoresPerTask: "+e.symbolizer().InFunc(fn, arg).String())
				}
			}
		}
	}
	if n == 0 {
		ob.Unknown("-", "no call of NewTask in the library")
	}
}

func (e *Env) checkCapRoot(ob *core.Obligation) {
	a := e.anchors()
	nw := e.P.Func("NewWorkflow")
	if nw == nil {
		ob.Unknown("-", "NewWorkflow not found")
		return
	}
	for _, u := range a.slotUses() {
		if u.kind != "store-make" {
			continue
		}
		st := u.in.(*ssa.Store)
		mc := st.Val.(*ssa.MakeChan)
		par, ok := mc.Size.(*ssa.Parameter)
		if !ok {
			ob.Fail(e.where(st), "slot channel capacity is not a plain parameter: "+e.symbolizer().InFunc(u.fn, mc.Size).String())
			continue
		}
		// every repo caller of the constructing function must pass its own int parameter (or be an exported constructor)
		idx := -1
		for i, pp := range u.fn.Params {
			if pp == par {
				idx = i
			}
		}
		okAll := true
		detail := "make(chan, " + par.Name() + ") in " + core.FuncName(u.fn)
		if u.fn != nw {
			for _, fn := range e.P.LibFuncs {
				for _, b := range fn.Blocks {
					for _, in := range b.Instrs {
						c, ok := in.(*ssa.Call)
						if !ok || c.Call.StaticCallee() != u.fn {
							continue
						}
						arg := c.Call.Args[idx]
						if _, ok := arg.(*ssa.Parameter); !ok {
							okAll = false
							ob.Fail(e.where(c), core.FuncName(fn)+" passes "+e.symbolizer().InFunc(fn, arg).String()+" as capacity instead of its own parameter")
						} else {
							detail += "; " + core.FuncName(fn) + " passes its parameter " + arg.Name()
						}
					}
				}
			}
		}
		if okAll {
			ob.OK(e.where(st), detail)
		}
	}
}

// lastBlock: a block of fn that ends in a return (used for "executed on every path" tests inside helpers).
func lastBlock(fn *ssa.Function) *ssa.BasicBlock {
	for _, b := range fn.Blocks {
		if len(b.Instrs) > 0 {
			if _, ok := b.Instrs[len(b.Instrs)-1].(*ssa.Return); ok {
				return b
			}
		}
	}
	return fn.Blocks[0]
}
