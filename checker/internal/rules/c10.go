package rules

import (
	"fmt"
	"go/types"
	"os"
	"strings"

	"golang.org/x/tools/go/ssa"

	"scicheck/internal/core"
)

func init() { Registry["C10"] = c10 }

// auditBuilder: the NewAuditInfo() call in Execute's call tree that creates the task's record (the one not made
// while loading an existing record from a file); returns the function and context it lives in.
func (e *Env) auditBuilder() (*ssa.Function, *core.Ctx) {
	n := e.auditRecordNode()
	if n == nil {
		return nil, nil
	}
	return n.Ctx.Fn, n.Ctx
}

func (e *Env) auditRecordNode() *core.Node {
	sp := e.spine()
	if sp == nil {
		return nil
	}
	nai := e.P.Func("NewAuditInfo")
	um := e.P.Func("UnmarshalAuditInfoJSONFile")
	for _, n := range sp.g.Nodes {
		if nai != nil && n.IsCallToFn(nai) && n.Kind != core.KAfter && !inCtxOfFn(n, um) {
			return n
		}
	}
	return nil
}

// upd: a store to a field (or an update of a map field) of the audit record that Task.Execute's call tree
// builds with NewAuditInfo(), wherever in that call tree it is made (the record is identified by value, so
// helpers that receive the record as a parameter are covered).
type upd struct {
	n     *core.Node
	field string
	key   *core.Sym
	val   *core.Sym
}

func (e *Env) recordUpdates() []upd {
	if e.upds != nil {
		return e.upds
	}
	sp := e.spine()
	ai := e.P.Named("scipipe", "AuditInfo")
	recNode := e.auditRecordNode()
	if sp == nil || ai == nil || recNode == nil {
		return nil
	}
	g := sp.g
	sy := e.xsym()
	var upds []upd
	for _, n := range g.Nodes {
		isRec := func(v ssa.Value) bool { // the record created by the builder's own NewAuditInfo() call
			b := sy.InCtx(n.Ctx, v)
			if b != nil && !isCallSym(b, "NewAuditInfo") {
				b = e.fsym().InCtx(n.Ctx, v)
			}
			return b != nil && isCallSym(b, "NewAuditInfo") && b.Val == recNode.Instr.(ssa.Value)
		}
		switch x := n.Instr.(type) {
		case *ssa.Store:
			if fa, ok := x.Addr.(*ssa.FieldAddr); ok && typeNamed(fa.X.Type()) == ai && isRec(fa.X) {
				vs := sy
				if fn := fieldOfAddr(fa).Name(); fn == "StartTime" || fn == "FinishTime" || fn == "ExecTimeNS" {
					vs = e.fsym()
				}
				upds = append(upds, upd{n, fieldOfAddr(fa).Name(), nil, vs.InCtx(n.Ctx, x.Val)})
			}
		case *ssa.MapUpdate:
			// the map may have been handed to a helper as an argument (`t.addUpstream(rec.Upstream)`): follow the
			// parameter up to the load of the record's field
			mc, mv := rootVal(n.Ctx, x.Map)
			if f := fieldOfLoad(mv); f != nil {
				if base := fieldBaseType(mv); base == ai {
					if u, ok := mv.(*ssa.UnOp); ok {
						if fa, ok := u.X.(*ssa.FieldAddr); ok {
							b := sy.InCtx(mc, fa.X)
							if b != nil && !isCallSym(b, "NewAuditInfo") {
								b = e.fsym().InCtx(mc, fa.X)
							}
							if b != nil && isCallSym(b, "NewAuditInfo") && b.Val == recNode.Instr.(ssa.Value) {
								upds = append(upds, upd{n, f.Name(), sy.InCtx(n.Ctx, x.Key), sy.InCtx(n.Ctx, x.Value)})
							}
						}
					}
				}
			}
		}
	}
	upds = e.liftMapCopies(g, upds)
	e.upds = upds
	return upds
}

// liftMapCopies: a map field of the record filled by copying a map that a module helper built
// ("for k, v := range t.upstreamAuditInfos() { rec.Upstream[k] = v }"): when the copy loop is complete and
// unconditional, the entries the helper puts into the map it returns stand for the copied ones, so the rules see
// where keys and values really come from.
func (e *Env) liftMapCopies(g *core.XG, upds []upd) []upd {
	sy := e.xsym()
	var out []upd
	for _, u := range upds {
		lifted := false
		if u.key != nil && u.key.Op == "rangekey" && u.val != nil && u.val.Op == "rangeval" && len(u.key.Args) == 1 && len(u.val.Args) == 1 {
			c := u.key.Args[0]
			if c.Op == "call" && c.Callee != nil && e.P.IsRepo(c.Callee) && c.Val != nil && c.Val == u.val.Args[0].Val {
				las := iterLoops(g, u.n)
				okCopy := len(las) > 0 && e.loopHarmlessExits(g, las[0])
				if okCopy {
					for _, gd := range e.chainGuards(g, u.n, las[0]) {
						if !strings.HasPrefix(strings.TrimPrefix(gd, "!"), "more∈") {
							okCopy = false
						}
					}
				}
				// the map the helper returns: a single local make(map)
				var made ssa.Value
				nRet := 0
				for _, b := range c.Callee.Blocks {
					for _, in := range b.Instrs {
						if rt, ok := in.(*ssa.Return); ok && len(rt.Results) == 1 {
							nRet++
							if mm, ok := rt.Results[0].(*ssa.MakeMap); ok {
								made = mm
							}
						}
					}
				}
				if okCopy && made != nil && nRet == 1 {
					for _, m := range g.Nodes {
						mu, ok := m.Instr.(*ssa.MapUpdate)
						if !ok || mu.Map != made || m.Ctx.Fn != c.Callee {
							continue
						}
						// the helper's instance that feeds this copy loop
						if m.Ctx.CallNode == nil || m.Ctx.CallNode.Instr != c.Val.(ssa.Instruction) {
							continue
						}
						out = append(out, upd{m, u.field, sy.InCtx(m.Ctx, mu.Key), sy.InCtx(m.Ctx, mu.Value)})
						lifted = true
					}
				}
			}
		}
		if !lifted {
			out = append(out, u)
		}
	}
	return out
}

func c10(e *Env) {
	r := e.R
	r.Explanation = "Field-by-field value-flow of the audit record built after a task ran (the function in Execute's call tree that calls NewAuditInfo), resolved through the calling context up to Task.Execute: (R1) Command ← Task.Command (the very field the runner executes), ProcessName ← the task's process name, Params ← Task.Params, StartTime/FinishTime ← two time.Now() results taken on all paths before resp. after the command, ExecTimeNS ← finish.Sub(start) in that orientation, OutFiles[port] ← FileIP.Path for every out-IP, Upstream[Path(in)] ← in.AuditInfo() for every in-IP and for every member of a joined sub-stream (unconditional, complete loops), ID ← random id in NewAuditInfo; (R2) for every out-IP: SetAuditInfo(record), tags of every in-IP merged, record written to <Path>.audit.json (complete loops); (R3) marshal/write errors are fatal (C09.R2, re-evaluated); (R4) a record's Tags map is only ever a fresh map (never another record's map), so tags attached on one branch cannot leak into sibling or upstream records; task tags are derived from the tags of every in-IP; (R5) no update of the record is reachable from a write of the record (complete before the first output's audit file is written)."
	r.NotDecided = "that the JSON tree of a concrete run equals its true lineage; tags of sub-stream members are not merged into the record's own Tags (they may legitimately conflict) - noted, not flagged; whether a streaming consumer really finishes before its producer is a schedule fact - that nothing orders the two is decided (R6, known finding K10)."
	a := e.anchors()
	if !a.ok() {
		return
	}
	p := e.P
	sp := e.spine()
	if sp == nil {
		return
	}
	g := sp.g
	bfn, _ := e.auditBuilder()
	if bfn == nil {
		r.Ob("R1", "audit-builder", "anchor").Unknown(core.FuncName(a.execute), "no call of NewAuditInfo in Task.Execute's call tree")
		return
	}
	ai := p.Named("scipipe", "AuditInfo")
	if ai == nil {
		return
	}
	sy := e.xsym()
	recNode := e.auditRecordNode()
	upds := e.recordUpdates()
	byField := map[string][]upd{}
	for _, u := range upds {
		byField[u.field] = append(byField[u.field], u)
	}
	ob := func(f, d string) *core.Obligation { return r.Ob("R1", "audit-builder:"+f, d) }
	need := func(f string) []upd {
		if len(byField[f]) == 0 {
			ob(f, "the audit record's "+f+" is filled").Fail(core.FuncName(bfn), "AuditInfo."+f+" is never stored in "+core.FuncName(bfn)+": the record lacks it")
		}
		return byField[f]
	}
	for _, u := range need("Command") {
		ob("Command", "Command ← Task.Command, the field the runner executes").Check(u.val.Op == "field" && u.val.Name == "Task.Command", g.Where(u.n), u.val.String(), "Command is "+u.val.String()+", not Task.Command")
	}
	for _, u := range need("ProcessName") {
		s := u.val.String()
		ob("ProcessName", "ProcessName ← the name of the task's process").Check(strings.Contains(s, "Name(") && strings.Contains(s, "$t.Process") || s == "$t.Name", g.Where(u.n), s, "ProcessName is "+s)
	}
	for _, u := range need("Params") {
		ob("Params", "Params ← Task.Params").Check(u.val.Op == "field" && u.val.Name == "Task.Params" || strings.Contains(u.val.String(), "$t.Params"), g.Where(u.n), u.val.String(), "Params is "+u.val.String())
	}
	// times
	const (
		evRun core.Bits = 1 << iota
		evStart
		evFinish
	)
	// the time.Now() calls a value can come from: one call, or a merge (named results, early returns in an extracted
	// helper) all of whose arms are such calls. nil = something else.
	var timeNodes func(sm *core.Sym, depth int) []*core.Node
	timeNodes = func(sm *core.Sym, depth int) []*core.Node {
		if sm == nil || depth > 4 {
			return nil
		}
		if sm.Op == "phi" && len(sm.Args) > 0 {
			var out []*core.Node
			for _, a := range sm.Args {
				ns := timeNodes(a, depth+1)
				if ns == nil {
					return nil
				}
				out = append(out, ns...)
			}
			return out
		}
		if !isCallSym(sm, "time.Now") {
			return nil
		}
		var out []*core.Node
		for _, n := range g.Nodes {
			if v, ok := n.Instr.(ssa.Value); ok && v == sm.Val && n.Ctx.Fn == sm.Fn {
				out = append(out, n)
			}
		}
		return out
	}
	var startNs, finishNs []*core.Node
	var startS, finishS string
	var startV, finishV ssa.Value
	for _, u := range need("StartTime") {
		startNs, startS, startV = timeNodes(u.val, 0), u.val.String(), u.val.Val
		if len(startNs) == 0 {
			ob("StartTime", "StartTime ← time.Now() taken before the command").Fail(g.Where(u.n), "StartTime is "+startS+", not a time.Now() result")
		}
	}
	for _, u := range need("FinishTime") {
		finishNs, finishS, finishV = timeNodes(u.val, 0), u.val.String(), u.val.Val
		if len(finishNs) == 0 {
			ob("FinishTime", "FinishTime ← time.Now() taken after the command").Fail(g.Where(u.n), "FinishTime is "+finishS+", not a time.Now() result")
		}
	}
	if len(startNs) > 0 && len(finishNs) > 0 {
		isStart, isFinish := map[*core.Node]bool{}, map[*core.Node]bool{}
		for _, n := range startNs {
			isStart[n] = true
		}
		disjoint := true
		for _, n := range finishNs {
			isFinish[n] = true
			if isStart[n] {
				disjoint = false
			}
		}
		must := g.Forward(func(n *core.Node) core.Transfer {
			var b core.Bits
			if a.isRun(n) {
				b |= evRun
			}
			if isStart[n] {
				b |= evStart
			}
			if isFinish[n] {
				b |= evFinish
			}
			return core.Transfer{Gen: b}
		}, true)
		okS := true
		for _, rn := range sp.runs {
			if must[rn]&evStart == 0 || must[rn]&evFinish != 0 {
				okS = false
			}
		}
		okF := true
		for _, fn := range finishNs {
			if must[fn]&evRun == 0 || must[fn]&evStart == 0 {
				okF = false
			}
		}
		ob("StartTime", "StartTime ← time.Now() taken on all paths before the command").Check(okS && disjoint, g.Where(startNs[0]), "time.Now() precedes the command", "the start time is not taken before the command on all paths (or equals the finish time)")
		ob("FinishTime", "FinishTime ← time.Now() taken on all paths after the command").Check(okF, g.Where(finishNs[0]), "time.Now() follows the command", "the finish time is not taken after the command on all paths")
	}
	for _, u := range need("ExecTimeNS") {
		okE := isCallSym(u.val, "(time.Time).Sub") && len(u.val.Args) == 2 && u.val.Args[0].Val == finishV && u.val.Args[1].Val == startV && finishV != startV && finishV != nil
		ob("ExecTimeNS", "ExecTimeNS ← finish.Sub(start)").Check(okE, g.Where(u.n), "finish.Sub(start)", "ExecTimeNS is "+u.val.String()+" (negative or meaningless duration)")
	}
	// OutFiles, Upstream: loops
	loopAll := func(o *core.Obligation, u upd, what string) bool {
		return e.forAllOutputs(o, g, u.n, func(m *core.Node) bool { return m == u.n }, core.Scenario{}, what)
	}
	for _, u := range need("OutFiles") {
		o := ob("OutFiles", "OutFiles[port] ← FileIP.Path for every out-IP")
		if u.key == nil {
			// the whole map is assigned at once (built elsewhere): judged by what it is built from
			vs := u.val.String()
			if strings.Contains(vs, fnTempPath+"(") || strings.Contains(vs, fnFifoPath+"(") {
				o.Fail(g.Where(u.n), "OutFiles is assigned "+trunc(vs, 120)+": the record names temp / FIFO paths instead of the final paths of the outputs")
			} else if strings.Contains(vs, fnPath+"(") && overField(u.val, ".OutIPs") {
				o.OK(g.Where(u.n), "OutFiles = "+trunc(vs, 100))
			} else {
				o.Unknown(g.Where(u.n), "OutFiles is assigned as a whole from "+trunc(vs, 120)+", which could not be followed to FileIP.Path of the out-IPs")
			}
			continue
		}
		if !(isCallSym(u.val, fnPath) && overField(u.val, ".OutIPs") && strings.Contains(u.key.String(), ".OutIPs")) {
			o.Fail(g.Where(u.n), "OutFiles["+u.key.String()+"] = "+u.val.String())
		} else if loopAll(o, u, "recording of output paths") {
			o.OK(g.Where(u.n), "OutFiles["+u.key.String()+"] = "+u.val.String())
		}
	}
	e.upstreamRule("R1")
	// ID
	obID := r.Ob("R1", "NewAuditInfo:ID", "every record gets an ID from the random-id generator")
	if nai := p.Func("NewAuditInfo"); nai != nil {
		found := false
		for _, b := range nai.Blocks {
			for _, in := range b.Instrs {
				if st, ok := in.(*ssa.Store); ok {
					if fa, ok := st.Addr.(*ssa.FieldAddr); ok && fieldOfAddr(fa).Name() == "ID" {
						found = true
						s := e.symbolizer().InFunc(nai, st.Val)
						usesRand := false
						if s.Op == "call" && s.Callee != nil {
							for f := range p.Reachable(s.Callee) {
								if strings.HasPrefix(f.String(), "math/rand.") || strings.HasPrefix(f.String(), "(*math/rand.") || strings.HasPrefix(f.String(), "crypto/rand.") {
									usesRand = true
								}
							}
						}
						obID.Check(usesRand, e.where(st), s.String()+" (random id generator)", "AuditInfo.ID is "+s.String()+", not produced by a random id generator")
					}
				}
			}
		}
		if !found {
			obID.Fail(core.FuncName(nai), "NewAuditInfo does not set ID")
		}
	}
	// ---- R2 per out-IP actions
	type act struct{ key, callee, desc string }
	for _, ac := range []act{
		{"SetAuditInfo", "(*FileIP).SetAuditInfo", "the record is attached to every out-IP"},
		{"AddTags", "(*FileIP).AddTags", "the tags of every in-IP are merged into every out-IP's record"},
		{"WriteAuditLogToFile", "(*FileIP).WriteAuditLogToFile", "the record is written next to every output"},
	} {
		o := r.Ob("R2", "audit-builder:"+ac.key+" per out-IP", ac.desc+" (complete loop over Task.OutIPs, action on every iteration)")
		var sites []*core.Node
		for _, n := range g.Nodes {
			if n.Callee != nil && core.FuncName(n.Callee) == ac.callee && n.Kind != core.KAfter && !inCallback(n) {
				if strings.Contains(sy.InCtx(n.Ctx, n.Call.Args[0]).String(), ".OutIPs") {
					sites = append(sites, n)
				}
			}
		}
		if len(sites) == 0 {
			o.Fail(core.FuncName(bfn), ac.callee+" is never called when the audit record is built")
			continue
		}
		for _, n := range sites {
			recv := sy.InCtx(n.Ctx, n.Call.Args[0]).String()
			la, ok := e.loopOver(g, n, ".OutIPs")
			if !ok {
				o.Fail(g.Where(n), ac.callee+" is applied to "+trunc(recv, 80)+", not inside a loop over Task.OutIPs")
				continue
			}
			if ac.key == "AddTags" {
				arg := sy.InCtx(n.Ctx, n.Call.Args[1]).String()
				if !strings.Contains(arg, "(*FileIP).Tags(") || !strings.Contains(arg, ".InIPs") {
					o.Fail(g.Where(n), "tags merged from "+trunc(arg, 100)+", not from every in-IP")
					continue
				}
				// nested in a loop over the in-IPs that is entered on every iteration of the out-IP loop
				inner, okIn := e.loopOver(g, n, ".InIPs")
				if !okIn || !e.loopHarmlessExits(g, inner) {
					o.Fail(g.Where(n), "the tags are not merged inside a complete loop over the in-IPs")
					continue
				}
				// the inner loop's test is reached on every iteration of the outer loop
				innerTest, _, okT := g.LoopTest(inner)
				if okT && e.forAllIn(o, g, la, n, func(m *core.Node) bool { return m == innerTest || m == n }, core.Scenario{}, ac.key) {
					o.OK(g.Where(n), ac.callee+" for every in-IP, on every iteration of the out-IP loop")
				}
				continue
			}
			if ac.key == "SetAuditInfo" {
				isRec := func(z *core.Sym) bool {
					return isCallSym(z, "NewAuditInfo") && recNode != nil && z.Val == recNode.Instr.(ssa.Value)
				}
				arg := sy.InCtx(n.Ctx, n.Call.Args[1])
				if !isRec(arg) {
					arg = e.fsym().InCtx(n.Ctx, n.Call.Args[1]) // the record may come out of a (large) builder helper
				}
				if !isRec(arg) {
					o.Fail(g.Where(n), "the attached record is "+trunc(arg.String(), 80)+", not the one just built")
					continue
				}
			}
			if e.forAllIn(o, g, la, n, func(m *core.Node) bool { return m == n }, core.Scenario{}, ac.key) {
				o.OK(g.Where(n), ac.callee+"("+trunc(recv, 60)+")")
			}
		}
	}
	// audit file template
	obT := r.Ob("R2", "AuditFilePath:template", "the audit file of an IP is <Path>.audit.json")
	if af := p.Func("FileIP.AuditFilePath"); af != nil {
		for _, b := range af.Blocks {
			for _, in := range b.Instrs {
				if rt, ok := in.(*ssa.Return); ok {
					s := sy.InFunc(af, rt.Results[0])
					fl := s.Flat()
					okT := len(fl) == 2 && (isCallSym(fl[0], fnPath) || (fl[0].Op == "field" && strings.HasSuffix(fl[0].Name, ".path"))) && fl[1].Op == "lit" && fl[1].Lit == ".audit.json"
					obT.Check(okT, e.where(rt), s.Template(), "AuditFilePath is "+s.Template())
				}
			}
		}
	}
	// ---- R3 errors fatal
	ob3 := r.Ob("R3", "audit-write:errors-fatal", "a failure to marshal or write the audit record stops the workflow")
	for _, n := range g.Nodes {
		if inCallback(n) {
			continue
		}
		if n.IsCallTo("encoding/json.MarshalIndent", "encoding/json.Marshal", "(*encoding/json.Encoder).Encode") || (isWriteFile(n) && isCallSym(e.argSym(n, 0), fnAuditPath)) {
			res := g.Run(core.Scenario{Start: n, Result: errResult(n, core.ErrOther, false)})
			ob3.Check(res.NormalReturn() == nil, g.Where(n), "err ⇒ exit", "an error from "+nodeDesc(n)+" is not fatal: an output would be finalised without its audit record")
		}
	}
	if ob3.Sites == 0 {
		ob3.Unknown("-", "no marshal/write of the audit record found")
	}
	// ---- R4 tags
	e.c10Tags()
	// ---- R5 the record is complete before it is serialised for the first output
	e.recordCompleteBeforeWrite("R5")
	// ---- R7 shared with C03.R3 / C11.R4: every finalised output has its record on disk
	e.auditBeforeRename("R7", "Execute:auditWrite≺rename")
	// ---- R8 one record (one ID) per task execution
	e.oneRecordPerTask("R8")
	e.setAuditInfoStores("R2")
	// ---- R6 the record is attached before the IP is published (shared with C17.R5)
	e.recordBeforePublish("R6")
}

// fieldBaseType: the named struct type whose field is loaded by v.
func fieldBaseType(v ssa.Value) *types.Named {
	switch x := v.(type) {
	case *ssa.UnOp:
		if fa, ok := x.X.(*ssa.FieldAddr); ok {
			return typeNamed(fa.X.Type())
		}
	case *ssa.Field:
		return typeNamed(x.X.Type())
	}
	return nil
}

// forAllOutputsLoop is forAllOutputs for an explicitly given (outer) loop.
func (e *Env) forAllOutputsLoop(ob *core.Obligation, g *core.XG, action *core.Node, l *core.Loop, isAction func(*core.Node) bool, assume core.Scenario, what string) bool {
	for _, la := range iterLoops(g, action) {
		if la.L.Header == l.Header {
			return e.forAllIn(ob, g, la, action, isAction, assume, what)
		}
	}
	ob.Unknown(g.Where(action), "enclosing loop not found")
	return false
}

// freshTagsMap (C10.R4, shared as C11.R6): a record never shares its Tags map with another record. For C11 this is what
// keeps the in-memory record of an ancestor equal to the record already on disk: with a shared map a tag added to a
// descendant appears in the ancestors' records of an uninterrupted run but not in the records a resumed run loads.
func (e *Env) freshTagsMap(rule string) {
	r := e.R
	p := e.P
	ai := p.Named("scipipe", "AuditInfo")
	ob := r.Ob(rule, "AuditInfo.Tags:fresh-map-only", "the Tags map of a record is only ever assigned a freshly made map (tags are copied key by key, never shared between records)")
	n := 0
	for _, fn := range p.LibFuncs {
		for _, b := range fn.Blocks {
			for _, in := range b.Instrs {
				st, ok := in.(*ssa.Store)
				if !ok {
					continue
				}
				fa, ok := st.Addr.(*ssa.FieldAddr)
				if !ok || typeNamed(fa.X.Type()) != ai || fieldOfAddr(fa).Name() != "Tags" {
					continue
				}
				n++
				_, fresh := st.Val.(*ssa.MakeMap)
				s := e.symbolizer().InFunc(fn, st.Val).String()
				ob.Check(fresh, e.where(st), "make(map) in "+core.FuncName(fn), "AuditInfo.Tags is assigned "+s+" in "+core.FuncName(fn)+": the record then shares its tag map with another record, so tags added on one branch appear on siblings and upstream records")
			}
		}
	}
	if n == 0 {
		ob.Unknown("-", "no store to AuditInfo.Tags found")
	}
}

func (e *Env) c10Tags() {
	r := e.R
	e.freshTagsMap("R4")
	// task tags from the tags of every in-IP (the task-feeding goroutine)
	ob2 := r.Ob("R4", "createTasks:task-tags←in-IP tags", "the tags of a task are derived from the tags of every in-IP (complete loops)")
	closure, gf := e.taskFeeder()
	if closure == nil {
		ob2.Unknown("-", "task-feeding goroutine not found")
		return
	}
	found := false
	for _, n := range gf.Nodes {
		mu, ok := n.Instr.(*ssa.MapUpdate)
		if !ok {
			continue
		}
		v := e.symbolizer().InCtx(n.Ctx, mu.Value).String()
		if !strings.Contains(v, "(*FileIP).Tags(") {
			continue
		}
		found = true
		okL := true
		nRange := 0
		for _, la := range iterLoops(gf, n) {
			nRange++ // a range loop, or a counted loop over a sorted key slice
			if !e.forAllIn(ob2, gf, la, n, func(m *core.Node) bool { return m == n }, core.Scenario{}, "derivation of task tags") {
				okL = false
			}
			break // the innermost range loop (over the tags of one IP); the loop over the IPs is checked next
		}
		if okL && nRange > 0 {
			ob2.OK(gf.Where(n), fmt.Sprintf("tags[...] = %s", trunc(v, 100)))
		}
	}
	if !found {
		ob2.Fail(core.FuncName(closure), "task tags are not derived from the in-IPs' tags")
	}
}

// upstreamRule (C10.R1, shared as C17.R5 and C18.R3): Upstream[Path(in)] ← in.AuditInfo() for every in-IP and for every
// member of a joined sub-stream, in complete loops and under no condition other than the join flag.
func (e *Env) upstreamRule(rule string) {
	r := e.R
	sp := e.spine()
	bfn, _ := e.auditBuilder()
	if sp == nil || bfn == nil {
		r.Ob(rule, "audit-builder:Upstream", "anchor").Unknown("-", "audit builder not found")
		return
	}
	g := sp.g
	byField := map[string][]upd{}
	for _, u := range e.recordUpdates() {
		byField[u.field] = append(byField[u.field], u)
	}
	ob := func(f, d string) *core.Obligation { return r.Ob(rule, "audit-builder:"+f, d) }
	need := func(f string) []upd {
		if len(byField[f]) == 0 {
			ob(f, "the audit record's "+f+" is filled").Fail(core.FuncName(bfn), "AuditInfo."+f+" is never stored in "+core.FuncName(bfn)+": the record lacks it")
		}
		return byField[f]
	}
	plain, joined := false, false
	type upCase struct {
		u      upd
		isJoin bool
	}
	var upCases []upCase
	for _, u := range need("Upstream") {
		// one update may serve both kinds of input (the IPs to link are chosen by a helper): every alternative of
		// the key is classified
		hasPlain, hasJoin := false, false
		for _, alt := range u.key.DeepAlts(8) {
			as := alt.String()
			if os.Getenv("RULE_DEBUG") == "C10" {
				fmt.Println("Upstream key alt:", as)
			}
			if strings.Contains(as, e.subFieldName()+"[") {
				hasJoin = true
			} else {
				hasPlain = true
			}
		}
		if hasPlain {
			upCases = append(upCases, upCase{u, false})
		}
		if hasJoin {
			upCases = append(upCases, upCase{u, true})
		}
	}
	for _, uc := range upCases {
		u, isJoin := uc.u, uc.isJoin
		ks, vs := u.key.String(), u.val.String()
		key := "Upstream"
		if isJoin {
			key = "Upstream(join)"
		}
		o := ob(key, "Upstream[Path(in)] ← in.AuditInfo() for every input (unconditionally)")
		okKV := isCallSym(u.key, fnPath) && isCallSym(u.val, "(*FileIP).AuditInfo") && u.key.Args[0].String() == u.val.Args[0].String() &&
			(strings.Contains(ks, "$t.InIPs") || isJoin)
		if !okKV {
			o.Fail(g.Where(u.n), "Upstream["+ks+"] = "+vs+": not keyed by the input's path with that input's record")
			continue
		}
		// complete loops; for the plain case the only admissible skip is the joined-port branch
		las := iterLoops(g, u.n)
		if len(las) == 0 {
			o.Fail(g.Where(u.n), "the Upstream entry is not set inside a loop over the inputs (only one input is linked)")
			continue
		}
		okLoops := true
		for _, la := range las {
			if !e.loopHarmlessExits(g, la) {
				okLoops = false
				o.Fail(g.Where(u.n), "the loop linking the inputs can be left early")
			}
		}
		if !okLoops {
			continue
		}
		gs := strings.Join(e.chainGuards(g, u.n, las[len(las)-1]), " && ")
		// admissible guards: loop continuation tests and the join flag
		badGuard := ""
		for _, gd := range strings.Split(gs, " && ") {
			gd = strings.TrimSpace(gd)
			if gd == "" || strings.HasPrefix(strings.TrimPrefix(gd, "!"), "more∈") || strings.HasPrefix(gd, "op<") {
				continue
			}
			if strings.Contains(gd, "."+e.joinFlagName()) {
				// the join flag decides which of the two ways applies - with the right polarity: members when it is
				// set, the in-IP itself when it is not
				neg := false
				for rest := gd; ; {
					if strings.HasPrefix(rest, "!") {
						neg, rest = !neg, rest[1:]
						continue
					}
					if strings.HasPrefix(rest, "op!(") {
						neg, rest = !neg, rest[4:]
						continue
					}
					break
				}
				if (isJoin && neg) || (!isJoin && !neg) {
					badGuard = gd + " (polarity: the members of a sub-stream are linked for joined ports, the in-IP itself for all others)"
				}
				continue
			}
			badGuard = gd
		}
		if badGuard != "" {
			o.Fail(g.Where(u.n), "the Upstream entry is only set under the condition "+trunc(badGuard, 160)+": some inputs would be missing from the lineage")
			continue
		}
		if isJoin {
			joined = true
		} else {
			plain = true
		}
		o.OK(g.Where(u.n), "Upstream["+trunc(ks, 80)+"] = "+trunc(vs, 80))
	}
	if len(byField["Upstream"]) > 0 {
		if !plain {
			ob("Upstream", "Upstream for plain in-ports").Fail(core.FuncName(bfn), "no Upstream entry for the IPs of ordinary in-ports")
		}
		if !joined {
			ob("Upstream(join)", "Upstream for the members of joined sub-streams").Fail(core.FuncName(bfn), "the members of a joined sub-stream are not recorded as upstream")
		}
	}
}

// recordCompleteBeforeWrite (C10.R5, shared as C11.R5): no update of the task's record is reachable from a write of the
// record: all outputs of a task share one record, so what is added after the first output's audit file was written is
// missing from that file - and a resumed run reads exactly that file.
func (e *Env) recordCompleteBeforeWrite(rule string) {
	r := e.R
	sp := e.spine()
	if sp == nil {
		return
	}
	g := sp.g
	upds := e.recordUpdates()
	ob5 := r.Ob(rule, "audit-builder:complete≺first-write", "every field / map entry of the task's record is set before the record is written for any output: no update of the record is reachable from an audit-file write (all outputs of a task share one record, so each of their audit files must show all of it)")
	isMarshal := func(n *core.Node) bool {
		return n.Kind != core.KAfter && !inCallback(n) && (n.IsCallTo("encoding/json.MarshalIndent", "encoding/json.Marshal", "(*encoding/json.Encoder).Encode") || (isWriteFile(n) && isCallSym(e.argSym(n, 0), fnAuditPath)))
	}
	nW := 0
	for _, w := range g.Select(isMarshal) {
		nW++
		reach := g.ReachableFrom(w, nil)
		bad := ""
		for _, u := range upds {
			if reach[u.n] {
				bad = "AuditInfo." + u.field + " at " + g.Where(u.n)
				break
			}
		}
		ob5.Check(bad == "", g.Where(w), "no record update after this write", "the record is still updated ("+bad+") after it has been written for an output: the audit file of an earlier output lacks what is added later (e.g. OutFiles entries of its sibling outputs), and which file is incomplete depends on map iteration order")
	}
	if nW == 0 {
		ob5.Unknown("-", "no marshal/write of the audit record found")
	}
}

// oneRecordPerTask (C10.R8, shared as C20.R6): all outputs of one task execution carry ONE audit record - created once,
// outside the loop over the out-IPs. The report converters list a task once because its outputs share the record's ID;
// a record per output gives the same execution several IDs and it is listed once per output that lies in the lineage.
func (e *Env) oneRecordPerTask(rule string) {
	ob := e.R.Ob(rule, "audit-builder:one-record-per-task", "the audit record of a task execution is created once (not once per output): all its outputs share one record and one ID")
	sp := e.spine()
	rn := e.auditRecordNode()
	if sp == nil || rn == nil {
		ob.Unknown("-", "audit builder / NewAuditInfo call not found")
		return
	}
	g := sp.g
	for _, la := range iterLoops(g, rn) {
		if strings.Contains(e.loopCollection(g, la), ".OutIPs") {
			ob.Fail(g.Where(rn), "NewAuditInfo is called inside the loop over the task's out-IPs: every output gets a record with its own random ID, so a multi-output task is listed several times by audit2html/tex/bash, and tags or out-files of siblings are not shared")
			return
		}
	}
	ob.OK(g.Where(rn), "created once per task execution, outside the loop over the out-IPs")
}

// setAuditInfoStores (C10.R2): SetAuditInfo really attaches the record: its argument is stored into the IP's record
// cache on every path (under the IP lock: C12.R1). Otherwise AddTags / WriteAuditLogToFile work on a lazily loaded,
// empty record and the audit file of the output contains nothing of the task.
func (e *Env) setAuditInfoStores(rule string) {
	ob := e.R.Ob(rule, "(*FileIP).SetAuditInfo:stores-argument", "SetAuditInfo stores its argument in the IP's audit-record cache on every returning path")
	fn := e.P.DeclaredMethod("scipipe", "FileIP", "SetAuditInfo")
	if fn == nil || len(fn.Params) != 2 {
		ob.Unknown("-", "(*FileIP).SetAuditInfo not found")
		return
	}
	g := e.XG(fn)
	if g == nil {
		return
	}
	arg := ssa.Value(fn.Params[1])
	isStore := func(n *core.Node) bool {
		st, ok := n.Instr.(*ssa.Store)
		if !ok {
			return false
		}
		fa, ok := st.Addr.(*ssa.FieldAddr)
		if !ok || fieldOfAddr(fa) == nil || !isPtrToNamed(fieldOfAddr(fa).Type(), "AuditInfo") {
			return false
		}
		_, v := rootVal(n.Ctx, st.Val)
		return v == arg
	}
	entry := g.Run(core.Scenario{Start: g.Entry, AtEntry: true})
	switch {
	case len(g.Select(isStore)) == 0:
		ob.Fail(core.FuncName(fn), "the argument is never stored into the IP's record field: the record built for the task is not attached to its outputs, their audit files are written from an empty, lazily loaded record")
	case entry.ReachesAvoiding(func(m *core.Node) bool { return m.Kind == core.KRootRet }, isStore) != nil:
		ob.Fail(core.FuncName(fn), "SetAuditInfo can return without storing the record")
	default:
		ob.OK(core.FuncName(fn), "record cache ← argument on every path")
	}
}
