package rules

import (
	"golang.org/x/tools/go/ssa"

	"scicheck/internal/core"
)

// lock events on expanded-CFG nodes: (*sync.Mutex).Lock/Unlock and the RWMutex variants, keyed by the
// symbolic receiver expression in the calling context (e.g. "&$wf.concurrentTasksMx", "$ip.lock").

func lockOp(n *core.Node) (op string) {
	switch {
	case n.IsCallTo("(*sync.Mutex).Lock", "(*sync.RWMutex).Lock", "(*sync.RWMutex).RLock"):
		return "lock"
	case n.IsCallTo("(*sync.Mutex).Unlock", "(*sync.RWMutex).Unlock", "(*sync.RWMutex).RUnlock"):
		return "unlock"
	}
	return ""
}

type lockInfo struct {
	names []string
	bit   map[string]core.Bits
	must  map[*core.Node]core.Bits // locks certainly held on entry to the node
	may   map[*core.Node]core.Bits // locks possibly held on entry to the node
	keyOf map[*core.Node]string
}

func (e *Env) locksets(g *core.XG) *lockInfo {
	li := &lockInfo{bit: map[string]core.Bits{}, keyOf: map[*core.Node]string{}}
	for _, n := range g.Nodes {
		if lockOp(n) == "" {
			continue
		}
		k := e.argSym(n, 0).String()
		li.keyOf[n] = k
		if _, ok := li.bit[k]; !ok && len(li.names) < 60 {
			li.bit[k] = 1 << uint(len(li.names))
			li.names = append(li.names, k)
		}
	}
	tf := func(n *core.Node) core.Transfer {
		switch lockOp(n) {
		case "lock":
			return core.Transfer{Gen: li.bit[li.keyOf[n]]}
		case "unlock":
			return core.Transfer{Kill: li.bit[li.keyOf[n]]}
		}
		return core.Transfer{}
	}
	li.must = g.Forward(tf, true)
	li.may = g.Forward(tf, false)
	return li
}

func (li *lockInfo) held(b core.Bits) []string {
	var out []string
	for i, n := range li.names {
		if b&(1<<uint(i)) != 0 {
			out = append(out, n)
		}
	}
	return out
}

// lockField returns the struct field whose mutex is locked/unlocked at n (nil if the receiver is not a field).
func lockField(n *core.Node) interface{} {
	if n.Call == nil || len(n.Call.Args) == 0 {
		return nil
	}
	switch x := n.Call.Args[0].(type) {
	case *ssa.FieldAddr:
		return fieldOfAddr(x)
	default:
		if f := fieldOfLoad(x); f != nil {
			return f
		}
	}
	return nil
}
