package rules

import (
	"fmt"
	"go/types"
	"os"
	"strings"

	"golang.org/x/tools/go/ssa"

	"scicheck/internal/core"
)

func init() { Registry["C16"] = c16 }

func c16(e *Env) {
	r := e.R
	r.Explanation = "Structural conditions for 'only fully wired workflows run; RunTo runs the upstream closure': (R1) in runProcs the readiness test of every process of the run set - including the driver - has completed on every path before the first goroutine is started; a Ready() that returns false makes a never-returning call inevitable before any process starts; BaseProcess.Ready examines all four port maps and an unconnected port is fatal; (R2) the upstream-closure function ranges the in-ports AND the parameter in-ports of a process, over all their remote ports (complete loops), adds each remote's process to the result and recurses into it; RunToProcs adds the targets themselves; (R3) the recursion is cycle-safe: it is guarded by a visited test on the same process it recurses into; (R4) connections to processes outside the run set are cut for out-ports and parameter out-ports alike and every dangling port is wired to the sink (every connection examined); (R5) every process of the run set is started exactly once, the driver only synchronously (shared with C04.R5/R6)."
	r.NotDecided = "which commands actually execute for a concrete graph; name-based matching of RunToRegex."
	g := e.runRoot()
	if g == nil {
		r.Ob("R1", "runProcs", "anchor").Unknown("-", "(*Workflow).Run not found")
		return
	}
	rootName := "(*Workflow).Run"
	// ---- R1 readiness before spawn
	isReady := func(n *core.Node) bool {
		return n.Call != nil && n.Call.IsInvoke() && n.Call.Method.Name() == "Ready" && !n.IsGo
	}
	isGoRun := func(n *core.Node) bool { return n.IsGo }
	readys := g.Select(isReady)
	ob1 := r.Ob("R1", "runProcs:Ready=false⇒exit", "a process that is not ready makes a never-returning call inevitable before any process is started")
	ob1b := r.Ob("R1", "runProcs:ready≺go", "the readiness test of every process of the run set has completed on every path before the first goroutine is started")
	if len(readys) == 0 {
		ob1.Fail(rootName, "runProcs' call tree never asks a process whether it is Ready(): an unconnected port is only noticed as a hang after commands have run")
		ob1b.Fail(rootName, "no readiness test")
	}
	allReady := func(m *core.Node) (core.AV, bool) {
		if isReady(m) {
			return core.BoolAV(true), true
		}
		return core.Top, false
	}
	for _, n := range readys {
		res := g.Run(core.Scenario{Start: n, Result: core.BoolAV(false)})
		if w := res.Reaches(isGoRun); w != nil {
			ob1.Fail(g.Where(n), "with a process reporting not-ready a goroutine is still started at "+g.Where(w))
		} else if res.NormalReturn() != nil {
			ob1.Fail(g.Where(n), "with a process reporting not-ready runProcs can return normally")
		} else if w := res.Reaches(func(m *core.Node) bool { return m.Call != nil && m.Call.IsInvoke() && m.Call.Method.Name() == "Run" }); w != nil {
			ob1.Fail(g.Where(n), "with a process reporting not-ready a process is still run at "+g.Where(w))
		} else {
			ob1.OK(g.Where(n), "not ready ⇒ exit before any start")
		}
		// the test ranges the whole run set: element of the map parameter, loop complete under Ready()=true
		recv := e.xsym().InCtx(n.Ctx, n.Call.Value).String()
		if !strings.HasPrefix(recv, "val∈") || !strings.Contains(recv, "procs") {
			ob1b.Fail(g.Where(n), "the readiness test is applied to "+recv+", not to every element of the run set")
			continue
		}
		top := n
		if e.forAllOutputs2(ob1b, g, top, isReady, core.Scenario{CallResult: allReady}, "readiness test") {
			// loop exit precedes every go
			exits, _ := loopExitNodes(g, n)
			ex := nodeSet(exits)
			res2 := g.Run(core.Scenario{Start: g.Entry, CallResult: allReady})
			must := res2.Must(func(m *core.Node) core.Transfer {
				if ex[m] {
					return core.Transfer{Gen: 1}
				}
				return core.Transfer{}
			})
			gos := g.Select(isGoRun)
			okAll := len(gos) > 0
			for _, gn := range gos {
				if must[gn]&1 == 0 {
					okAll = false
					ob1b.Fail(g.Where(gn), "a process can be started before the readiness of all processes has been established: commands of processes started earlier run although the workflow is then refused")
				}
			}
			if okAll {
				ob1b.OK(g.Where(n), "Ready() of every element of the run set, loop completed before the first go")
			}
		}
	}
	// the driver is covered by the readiness test
	obD := r.Ob("R1", "runProcs:driver-ready", "the driver process is subject to the readiness test too (it stays in the tested map, or is tested explicitly)")
	delDrv := false
	for _, n := range g.Nodes {
		if n.IsBuiltin("delete") {
			k := e.xargSym(n, 1).String()
			ms := e.xargSym(n, 0)
			// a delete of the driver from a process map (the run set or the workflow's own map - by type)
			isProcMap := ms != nil && ms.Val != nil && strings.HasPrefix(ms.Val.Type().String(), "map[string]") && strings.HasSuffix(ms.Val.Type().String(), "WorkflowProcess")
			drv := "." + fieldName(e.P.FieldVar("scipipe", "Workflow", "driver"))
			if strings.Contains(k, drv) && isProcMap {
				delDrv = true
			}
		}
	}
	explicit := false
	for _, n := range readys {
		if strings.Contains(e.xsym().InCtx(n.Ctx, n.Call.Value).String(), ".driver") {
			explicit = true
		}
	}
	switch {
	case !delDrv:
		obD.OK(rootName, "the driver is not removed from the run set before the readiness test")
	case explicit:
		obD.OK(rootName, "driver removed from the set but tested explicitly")
	default:
		obD.Fail(rootName, "the driver is deleted from the run set before the readiness test and never tested itself: a driver with an unconnected in-port is only noticed as a hang after upstream commands have run")
	}
	e.c16BaseReady()
	// ---- R2/R3 upstream closure
	e.c16Closure()
	// ---- R4
	e.c05Reconnect("R4")
	// ---- R5
	e.spawnRules("R5", "R5")
	e.connectRule("R6")
	e.portDiscovery("R7")
	e.disconnectRule("R4")
	e.sinkConnectRule("R4")
}

// forAllOutputs2 is kept as an alias: forAllOutputs now judges early exits by what happens after them.
func (e *Env) forAllOutputs2(ob *core.Obligation, g *core.XG, action *core.Node, isAction func(*core.Node) bool, assume core.Scenario, what string) bool {
	return e.forAllOutputs(ob, g, action, isAction, assume, what)
}

func (e *Env) c16BaseReady() {
	r := e.R
	p := e.P
	fn := p.DeclaredMethod("scipipe", "BaseProcess", "Ready")
	if fn == nil {
		r.Ob("R1", "(*BaseProcess).Ready", "anchor").Unknown("-", "not found")
		return
	}
	g := e.XG(fn)
	if g == nil {
		return
	}
	for _, f := range []string{"inPorts", "outPorts", "inParamPorts", "outParamPorts"} {
		ob := r.Ob("R1", "(*BaseProcess).Ready:"+f, "every port of this kind is examined and an unconnected one is fatal (Ready never reports true)")
		var sites []*core.Node
		for _, n := range g.Nodes {
			if n.Ctx == g.Root && n.Callee != nil && n.Callee.Name() == "Ready" && n.Kind == core.KCall {
				s := e.argSym(n, 0).String()
				if strings.Contains(s, "val∈$p."+f) || strings.Contains(s, "$p."+f+"[key∈$p."+f+"]") || strings.Contains(s, "val∈") && strings.Contains(strings.ToLower(s), strings.ToLower(f)+"(") {
					sites = append(sites, n)
				}
			}
		}
		if len(sites) == 0 {
			ob.Fail(core.FuncName(fn), "the ports in BaseProcess."+f+" are never asked whether they are connected")
			continue
		}
		for _, n := range sites {
			var load *core.Node
			for _, m := range g.Nodes {
				if m.Ctx == n.Inl {
					if v, ok := m.Instr.(ssa.Value); ok && fieldOfLoad(v) != nil && isBoolType(fieldOfLoad(v).Type()) {
						load = m
					}
				}
			}
			if load == nil {
				ob.Unknown(g.Where(n), "port Ready() does not read a readiness field")
				continue
			}
			res := g.Run(core.Scenario{Start: load, Result: core.BoolAV(false)})
			// no normal return with a true result
			bad := res.Reaches(func(m *core.Node) bool {
				if m.Kind != core.KRootRet {
					return false
				}
				return true
			})
			if bad != nil {
				// a return is reachable: it must return false. Accept only when the returned value is provably false.
				ret := bad.Instr.(*ssa.Return)
				if k, ok := ret.Results[0].(*ssa.Const); ok && k.Value != nil && k.Value.String() == "false" {
					bad = nil
				}
			}
			if bad != nil {
				ob.Fail(g.Where(n), "with an unconnected port of this kind BaseProcess.Ready can still return (possibly true)")
				continue
			}
			if e.forAllOutputs(ob, g, n, func(m *core.Node) bool { return m == n }, core.Scenario{}, "port readiness") {
				ob.OK(g.Where(n), "unconnected ⇒ exit; complete range over "+f)
			}
		}
	}
}

func (e *Env) c16Closure() {
	r := e.R
	p := e.P
	rtp := p.DeclaredMethod("scipipe", "Workflow", "RunToProcs")
	ob2t := r.Ob("R2", "RunToProcs:targets", "the RunTo targets themselves are part of the run set")
	if rtp == nil {
		ob2t.Unknown("-", "RunToProcs not found")
		return
	}
	g := e.XG(rtp)
	if g == nil {
		return
	}
	xs := e.xsym()
	foundT := false
	for _, n := range g.Nodes {
		mu, ok := n.Instr.(*ssa.MapUpdate)
		if !ok {
			continue
		}
		k, v := xs.InCtx(n.Ctx, mu.Key).String(), xs.InCtx(n.Ctx, mu.Value).String()
		if strings.Contains(v, "$finalProcs[") && strings.Contains(k, "Name(") && !strings.Contains(v, "RemotePorts") {
			foundT = true
			okL := true
			for _, la := range iterLoops(g, n) {
				if !e.loopHarmlessExits(g, la) {
					okL = false
				}
			}
			ob2t.Check(okL && len(iterLoops(g, n)) > 0, g.Where(n), "runset["+trunc(k, 60)+"] = "+trunc(v, 60), "the loop adding the targets can be left early or is missing")
		}
	}
	if !foundT {
		ob2t.Fail(core.FuncName(rtp), "RunToProcs does not add the target processes to the run set")
	}
	// the upstream traversal: the recursion-cut call nodes of the expanded CFG (a function already on the
	// context chain is called again) whose argument is the process of a remote port
	type rec struct {
		n   *core.Node
		arg *core.Sym
	}
	var recs []rec
	for _, n := range g.Nodes {
		if !n.Recursive || n.Call == nil {
			continue
		}
		for _, a := range n.Call.Args {
			s := xs.InCtx(n.Ctx, a)
			if strings.Contains(s.String(), ".RemotePorts") && strings.Contains(s.String(), "Process(") {
				recs = append(recs, rec{n, s})
			}
		}
	}
	if len(recs) == 0 {
		if e.c16Worklist(g, rtp) {
			return
		}
		r.Ob("R2", "closure", "the upstream closure is computed by a recursive traversal of the remote ports").Unknown(core.FuncName(rtp), "no recursive call taking the process of a remote port in RunToProcs' call tree, and no work-list traversal recognised")
		return
	}
	for _, kind := range []struct{ key, ports string }{{"InPorts", "invoke:InPorts("}, {"InParamPorts", "invoke:InParamPorts("}} {
		ob2 := r.Ob("R2", "closure:"+kind.key, "for every remote port of every "+kind.key[:len(kind.key)-1]+" the remote's process is added to the closure and the traversal recurses into it")
		ob3 := r.Ob("R3", "closure:cycle-safe#"+kind.key, "the recursion is guarded by a visited test on the very process it recurses into (a process that is upstream of itself, as with FromStr, terminates)")
		n0 := 0
		for _, rc := range recs {
			argS := rc.arg.String()
			if !strings.Contains(argS, kind.ports) {
				continue
			}
			n0++
			c := rc.n
			// loops along the chain, up to (not including) the first occurrence of the recursive function
			las := iterLoops(g, c)
			nLoops, okL := 0, true
			for _, la := range las {
				coll := e.loopCollection(g, la)
				if !(strings.Contains(coll, "RemotePorts") || strings.Contains(coll, kind.ports)) {
					continue
				}
				nLoops++
				if !e.loopHarmlessExits(g, la) {
					okL = false
					ob2.Fail(g.Where(c), "a loop of the traversal can be left early")
				}
			}
			if nLoops < 2 {
				okL = false
				ob2.Fail(g.Where(c), "the recursion is not nested in loops over the ports and over their remote ports")
			}
			// the process recursed into is added to the result
			added := false
			for _, m := range g.Nodes {
				if mu, ok := m.Instr.(*ssa.MapUpdate); ok {
					if xs.InCtx(m.Ctx, mu.Value).String() == argS && (g.ReachableFrom(m, nil)[c] || g.ReachableFrom(c, nil)[m]) {
						added = true
					}
				}
			}
			if okL && !added {
				ob2.Fail(g.Where(c), "the process recursed into ("+trunc(argS, 80)+") is not added to the closure")
			} else if okL {
				ob2.OK(g.Where(c), "adds and recurses into "+trunc(argS, 100))
			}
			// visited guard on the same process, anywhere on the chain inside the innermost traversal loop
			var gs []string
			if len(las) > 0 {
				gs = e.chainGuards(g, c, las[0])
			}
			nameOfArg := "invoke:Name(" + argS + ")"
			visited, wrongKey := false, ""
			for _, gd := range gs {
				isLookup := strings.Contains(gd, "[") && (strings.Contains(gd, "]#1") || strings.Contains(gd, "nil"))
				if isLookup {
					if strings.Contains(gd, nameOfArg) {
						visited = true
					} else if strings.Contains(gd, "invoke:Name(") {
						wrongKey = gd
					}
				}
				if (strings.Contains(gd, "op!=") || strings.HasPrefix(gd, "!op==")) && strings.Contains(gd, argS) {
					visited = true // identity test against the current process
				}
			}
			// polarity of the visited test, by scenario on the lookup itself: "absent" leads into the recursion,
			// "present" does not (before the next connection is looked at)
			if visited {
				for _, gd := range g.Guards(c, xs) {
					if gd.If == nil {
						continue
					}
					var lk *ssa.Lookup
					var walk func(v ssa.Value, d int)
					walk = func(v ssa.Value, d int) {
						if d > 4 || lk != nil {
							return
						}
						switch y := v.(type) {
						case *ssa.Lookup:
							if y.CommaOk {
								lk = y
							}
						case *ssa.Extract:
							walk(y.Tuple, d+1)
						case *ssa.UnOp:
							walk(y.X, d+1)
						}
					}
					walk(gd.If.Cond, 0)
					if lk == nil || lk.Parent() != c.Ctx.Fn {
						continue
					}
					ln := g.NodeOf(c.Ctx, lk)
					if ln == nil {
						continue
					}
					isRec := func(m *core.Node) bool { return m == c }
					var stop func(m *core.Node) bool
					if len(las) > 0 {
						if test, _, okT := g.LoopTest(las[0]); okT {
							stop = func(m *core.Node) bool { return m == test }
						}
					}
					absent := g.Run(core.Scenario{Start: ln, Result: core.TupleAV(core.Top, core.BoolAV(false))})
					present := g.Run(core.Scenario{Start: ln, Result: core.TupleAV(core.Top, core.BoolAV(true))})
					if absent.ReachesAvoiding(isRec, stop) == nil {
						visited = false
						ob3.Fail(g.Where(c), "the visited test has the wrong polarity: a process that is NOT yet in the closure is not recursed into (only direct upstream processes are run; theirs are missing and their consumers block forever)")
					} else if present.ReachesAvoiding(isRec, stop) != nil {
						visited = false
						ob3.Fail(g.Where(c), "the visited test does not stop the recursion for a process that is already in the closure (a process upstream of itself recurses until the stack overflows)")
					}
				}
				if !visited {
					continue
				}
			}
			switch {
			case visited:
				ob3.OK(g.Where(c), "guarded by "+trunc(strings.Join(gs, " && "), 140))
			case wrongKey != "":
				ob3.Fail(g.Where(c), "the visited test looks up another process than the one recursed into: guard "+trunc(wrongKey, 160)+" vs recursion into "+trunc(argS, 80)+" (upstream processes reached through this port are skipped once their consumer is in the set)")
			default:
				ob3.Fail(g.Where(c), "the recursion into "+trunc(argS, 80)+" is not guarded by a visited test: a process that is upstream of itself (InParamPort.FromStr connects a feeder port owned by the consumer) makes RunTo recurse until the stack overflows")
			}
		}
		if n0 == 0 {
			ob2.Fail(core.FuncName(rtp), "the traversal does not recurse through the "+kind.key+": processes connected only through such ports are missing from the RunTo closure (their consumers block forever)")
			ob3.Unknown(core.FuncName(rtp), "no recursion for this port kind")
		}
	}
}

// c16Worklist: the upstream closure computed iteratively: `pending := []P{start}; for len(pending) > 0 { cur := pop;
// for each direct feeder f of cur { if !seen(f) { add(f); pending = append(pending, f) } } }`, the direct feeders
// being the processes of the remote ports of cur's in-ports and parameter in-ports (collected inline or by a helper
// that returns them as a slice). The same obligations as for the recursive form are decided: both port kinds
// traversed by complete loops, the feeder added to the result, and pushed only under a visited test on itself.
func (e *Env) c16Worklist(g *core.XG, rtp *ssa.Function) bool {
	r := e.R
	xs := e.xsym()
	sy := e.symbolizer()
	dbg := os.Getenv("RULE_DEBUG") == "C16"
	isProcSlice := func(t types.Type) bool {
		sl, ok := t.Underlying().(*types.Slice)
		return ok && typeNameOf(sl.Elem()) == "WorkflowProcess"
	}
	type push struct {
		n    *core.Node
		work string
		el   *core.Sym
		loop core.LoopAt
		elC  *core.Ctx
		elV  ssa.Value
	}
	var pushes []push
	for _, n := range g.Nodes {
		c, ok := n.Instr.(*ssa.Call)
		if !ok || n.Kind == core.KAfter || !n.IsBuiltin("append") || len(c.Call.Args) != 2 || !isProcSlice(c.Call.Args[0].Type()) {
			continue
		}
		// the enclosing work-list loop: `for len(W) > 0` where W is the slice appended to
		for _, la := range g.EnclLoops(n) {
			_, iff := core.HeaderTest(la.L)
			if iff == nil {
				continue
			}
			bo, ok := iff.Cond.(*ssa.BinOp)
			if !ok {
				continue
			}
			for _, v := range []ssa.Value{bo.X, bo.Y} {
				lc, ok := v.(*ssa.Call)
				if !ok {
					continue
				}
				if bi, ok := lc.Call.Value.(*ssa.Builtin); ok && bi.Name() == "len" && isProcSlice(lc.Call.Args[0].Type()) {
					w := lc.Call.Args[0]
					// the slice appended to is (a later version of) the loop's slice: same phi web
					if samePhiWeb(w, c.Call.Args[0]) {
						el := sy.InCtx(n.Ctx, c.Call.Args[1])
						ec, ev := rootVal(n.Ctx, varargElem(c.Call.Args[1]))
						pushes = append(pushes, push{n, sy.InCtx(la.At.Ctx, w).String(), el, la, ec, ev})
					}
				}
			}
		}
	}
	if dbg {
		for _, p := range pushes {
			fmt.Println("C16 worklist push:", g.Where(p.n), "el=", p.el.String())
		}
	}
	if len(pushes) == 0 {
		return false
	}
	// the feeders: resolve each pushed element to the remote-port processes it stands for
	type feed struct {
		p     push
		kind  string // InPorts / InParamPorts
		argS  string // the pushed element as rendered at the push
		okL   bool
		where string
	}
	kinds := []struct{ key, ports string }{{"InPorts", "invoke:InPorts("}, {"InParamPorts", "invoke:InParamPorts("}}
	var feeds []feed
	for _, p := range pushes {
		elS := p.el.String()
		// inline form: the element itself is Process(val∈(val∈InPorts(cur)).RemotePorts)
		if strings.Contains(elS, ".RemotePorts") && strings.Contains(elS, "Process(") {
			for _, k := range kinds {
				if !strings.Contains(elS, k.ports) {
					continue
				}
				okL, nLoops := true, 0
				for _, la := range iterLoops(g, p.n) {
					coll := e.loopCollection(g, la)
					if strings.Contains(coll, "RemotePorts") || strings.Contains(coll, k.ports) {
						nLoops++
						if !e.loopHarmlessExits(g, la) {
							okL = false
						}
					}
				}
				feeds = append(feeds, feed{p, k.key, elS, okL && nLoops >= 2, g.Where(p.n)})
			}
			continue
		}
		// helper form: the element ranges over the slice a helper returns for the current process
		var helper *ssa.Function
		p.el.Walk(func(z *core.Sym) bool {
			if z.Op == "call" && z.Callee != nil && e.P.IsRepo(z.Callee) && isProcSlice(z.Callee.Signature.Results().At(0).Type()) {
				helper = z.Callee
			}
			return helper == nil
		})
		if helper == nil {
			continue
		}
		// the loop over the helper's result must be complete
		okOuter := false
		for _, la := range iterLoops(g, p.n) {
			if strings.Contains(e.loopCollection(g, la), core.FuncName(helper)) || strings.Contains(e.loopCollectionSymX(g, la).String(), helper.Name()) {
				okOuter = e.loopHarmlessExits(g, la)
			}
		}
		gh := e.XG(helper)
		if gh == nil {
			continue
		}
		for _, k := range kinds {
			found := false
			for _, m := range gh.Nodes {
				mc, ok := m.Instr.(*ssa.Call)
				if !ok || m.Kind == core.KAfter || !m.IsBuiltin("append") || len(mc.Call.Args) != 2 || !isProcSlice(mc.Call.Args[0].Type()) {
					continue
				}
				ms := xs.InCtx(m.Ctx, mc.Call.Args[1]).String()
				if !(strings.Contains(ms, ".RemotePorts") && strings.Contains(ms, "Process(") && strings.Contains(ms, k.ports)) {
					continue
				}
				found = true
				okL, nLoops := okOuter, 0
				for _, la := range iterLoops(gh, m) {
					coll := e.loopCollection(gh, la)
					if strings.Contains(coll, "RemotePorts") || strings.Contains(coll, k.ports) {
						nLoops++
						if !e.loopHarmlessExits(gh, la) {
							okL = false
						}
					}
				}
				for _, la := range iterLoops(gh, m) {
					for _, gd := range e.chainGuards(gh, m, la) {
						if !strings.HasPrefix(strings.TrimPrefix(gd, "!"), "more∈") {
							okL = false
						}
					}
					break
				}
				feeds = append(feeds, feed{p, k.key, elS, okL && nLoops >= 2, gh.Where(m)})
			}
			_ = found
		}
	}
	if len(feeds) == 0 {
		return false
	}
	for _, k := range kinds {
		ob2 := r.Ob("R2", "closure:"+k.key, "for every remote port of every "+k.key[:len(k.key)-1]+" the remote's process is added to the closure and the traversal recurses into it")
		ob3 := r.Ob("R3", "closure:cycle-safe#"+k.key, "the recursion is guarded by a visited test on the very process it recurses into (a process that is upstream of itself, as with FromStr, terminates)")
		n0 := 0
		for _, f := range feeds {
			if f.kind != k.key {
				continue
			}
			n0++
			c := f.p.n
			if !f.okL {
				ob2.Fail(f.where, "the loops collecting the feeders of a process are not complete nested loops over the ports and their remote ports")
				continue
			}
			if !e.loopHarmlessExits(g, f.p.loop) {
				ob2.Fail(g.Where(c), "the work-list loop can be left before the list is empty")
				continue
			}
			added := false
			for _, m := range g.Nodes {
				if mu, ok := m.Instr.(*ssa.MapUpdate); ok {
					mc, mv := rootVal(m.Ctx, mu.Value)
					if mv != nil && mv == f.p.elV && mc == f.p.elC && (g.ReachableFrom(m, nil)[c] || g.ReachableFrom(c, nil)[m]) {
						added = true
					}
				}
			}
			if !added {
				ob2.Fail(g.Where(c), "the process put on the work list ("+trunc(f.argS, 80)+") is not added to the closure")
			} else {
				ob2.OK(g.Where(c), "work list: adds and later expands "+trunc(f.argS, 100)+" (feeders collected at "+f.where+")")
			}
			// the push happens only under a visited test on the pushed process; nothing else may suppress it
			var inner core.LoopAt
			las := iterLoops(g, c)
			if len(las) > 0 {
				inner = las[0]
			}
			gs := e.chainGuards(g, c, inner)
			visited := false
			for _, gd := range g.Guards(c, sy) {
				if gd.If != nil && inner.L != nil && inner.L.Blocks[gd.If.Block()] && condLooksUp(c.Ctx, gd.If.Cond, f.p.elC, f.p.elV, 0) {
					visited = true
				}
			}
			if dbg {
				fmt.Println("C16 worklist guards:", len(gs), "visited", visited)
			}
			if visited && inner.L != nil {
				// polarity, by scenario over one iteration of the feeder loop: every membership lookup says "absent" ⇒ the
				// push is reached; says "present" ⇒ it is not
				test, _, okT := g.LoopTest(inner)
				if okT {
					mk := func(present bool) core.Scenario {
						return core.Scenario{Start: test, Result: core.BoolAV(true), InstrResult: func(m *core.Node) (core.AV, bool) {
							lk, ok := m.Instr.(*ssa.Lookup)
							if !ok {
								return core.Top, false
							}
							mt, ok := lk.X.Type().Underlying().(*types.Map)
							if !ok || typeNameOf(mt.Elem()) != "WorkflowProcess" {
								return core.Top, false
							}
							v := core.NilAV()
							if present {
								v = core.NonNilAV(core.ErrAny)
							}
							if lk.CommaOk {
								return core.TupleAV(v, core.BoolAV(present)), true
							}
							return v, true
						}}
					}
					isPush := func(m *core.Node) bool { return m == c }
					stop := func(m *core.Node) bool { return m == test }
					if g.Run(mk(false)).ReachesAvoiding(isPush, stop) == nil {
						visited = false
						ob3.Fail(g.Where(c), "the visited test has the wrong polarity: a feeder that is NOT yet in the closure is not put on the work list (only direct upstream processes are run)")
					}
					// (the converse - "present" never leads to the push - is implied by the visited guard found above; it is
					// not re-derived by scenario, because a nil-process guard inside a membership helper makes its result
					// false for reasons the scenario cannot exclude)
				}
				if !visited {
					continue
				}
			}
			if visited {
				ob3.OK(g.Where(c), "pushed only when not yet in the closure: "+trunc(strings.Join(gs, " && "), 140))
			} else {
				ob3.Fail(g.Where(c), "the push of "+trunc(f.argS, 80)+" is not guarded by a visited test on that process: a process that is upstream of itself (InParamPort.FromStr) is pushed forever")
			}
		}
		if n0 == 0 {
			ob2.Fail(core.FuncName(rtp), "the traversal does not follow the "+k.key+": processes connected only through such ports are missing from the RunTo closure (their consumers block forever)")
			ob3.Unknown(core.FuncName(rtp), "no traversal for this port kind")
		}
	}
	return true
}

// samePhiWeb: a and b are versions of one local variable (connected through phis, appends and re-slices).
func samePhiWeb(a, b ssa.Value) bool {
	seen := map[ssa.Value]bool{}
	var reach func(v ssa.Value, depth int) map[ssa.Value]bool
	reach = func(v ssa.Value, depth int) map[ssa.Value]bool {
		out := map[ssa.Value]bool{}
		var walk func(v ssa.Value, d int)
		walk = func(v ssa.Value, d int) {
			if v == nil || out[v] || d > 12 {
				return
			}
			out[v] = true
			switch x := v.(type) {
			case *ssa.Phi:
				for _, ev := range x.Edges {
					walk(ev, d+1)
				}
			case *ssa.Slice:
				walk(x.X, d+1)
			case *ssa.Call:
				if bi, ok := x.Call.Value.(*ssa.Builtin); ok && bi.Name() == "append" {
					walk(x.Call.Args[0], d+1)
				}
			}
		}
		walk(v, depth)
		return out
	}
	_ = seen
	ra, rb := reach(a, 0), reach(b, 0)
	for v := range ra {
		if _, isPhi := v.(*ssa.Phi); isPhi && rb[v] {
			return true
		}
	}
	return ra[b] || rb[a]
}

// rootVal follows a value upwards through the calling contexts of an expanded CFG: a parameter is replaced by the
// argument at its call site, interface conversions are stripped. Returns the context and value it ends at.
func rootVal(c *core.Ctx, v ssa.Value) (*core.Ctx, ssa.Value) {
	for depth := 0; depth < 12 && v != nil; depth++ {
		switch x := v.(type) {
		case *ssa.MakeInterface:
			v = x.X
			continue
		case *ssa.ChangeInterface:
			v = x.X
			continue
		case *ssa.ChangeType:
			v = x.X
			continue
		case *ssa.Parameter:
			if c == nil || c.Parent == nil || c.CallNode == nil || c.CallNode.Call == nil || c.Callback {
				return c, v
			}
			idx := -1
			for i, p := range c.Fn.Params {
				if p == x {
					idx = i
				}
			}
			args := c.CallNode.Call.Args
			if c.CallNode.Call.IsInvoke() || idx < 0 || idx >= len(args) {
				return c, v
			}
			v, c = args[idx], c.Parent
			continue
		}
		break
	}
	return c, v
}

// varargElem: the single element of a varargs slice `append(s, x)` was compiled to ([]T{x}[:]); nil otherwise.
func varargElem(v ssa.Value) ssa.Value {
	sl, ok := v.(*ssa.Slice)
	if !ok {
		return nil
	}
	al, ok := sl.X.(*ssa.Alloc)
	if !ok || al.Referrers() == nil {
		return nil
	}
	var el ssa.Value
	n := 0
	for _, r := range *al.Referrers() {
		if ia, ok := r.(*ssa.IndexAddr); ok && ia.Referrers() != nil {
			for _, r2 := range *ia.Referrers() {
				if st, ok := r2.(*ssa.Store); ok && st.Addr == ia {
					el = st.Val
					n++
				}
			}
		}
	}
	if n != 1 {
		return nil
	}
	return el
}

// condLooksUp: the branch condition cond (evaluated in context c) is, or rests on, a map lookup keyed by the Name()
// of the value (wc, want) - directly (`_, ok := m[x.Name()]`), negated, or inside a small predicate helper to which
// the value is passed (`seen.has(x)`).
func condLooksUp(c *core.Ctx, cond ssa.Value, wc *core.Ctx, want ssa.Value, depth int) bool {
	if cond == nil || depth > 6 || want == nil {
		return false
	}
	isNameOfWant := func(cc *core.Ctx, k ssa.Value) bool {
		call, ok := k.(*ssa.Call)
		if !ok || !call.Call.IsInvoke() || call.Call.Method.Name() != "Name" {
			return false
		}
		rc, rv := rootVal(cc, call.Call.Value)
		return rv == want && rc == wc
	}
	switch x := cond.(type) {
	case *ssa.UnOp:
		return condLooksUp(c, x.X, wc, want, depth+1)
	case *ssa.Extract:
		return condLooksUp(c, x.Tuple, wc, want, depth+1)
	case *ssa.Lookup:
		return isNameOfWant(c, x.Index)
	case *ssa.BinOp:
		return condLooksUp(c, x.X, wc, want, depth+1) || condLooksUp(c, x.Y, wc, want, depth+1)
	case *ssa.Phi:
		for _, ev := range x.Edges {
			if condLooksUp(c, ev, wc, want, depth+1) {
				return true
			}
		}
	case *ssa.Call:
		f := x.Call.StaticCallee()
		if f == nil || f.Blocks == nil {
			return false
		}
		// a predicate helper: some lookup in its body is keyed by Name(param_i) with argument i being the wanted value
		for _, b := range f.Blocks {
			for _, in := range b.Instrs {
				lk, ok := in.(*ssa.Lookup)
				if !ok {
					continue
				}
				call, ok := lk.Index.(*ssa.Call)
				if !ok || !call.Call.IsInvoke() || call.Call.Method.Name() != "Name" {
					continue
				}
				pv := call.Call.Value
				for {
					if mi, ok := pv.(*ssa.MakeInterface); ok {
						pv = mi.X
						continue
					}
					break
				}
				for i, pa := range f.Params {
					if ssa.Value(pa) == pv && i < len(x.Call.Args) {
						rc, rv := rootVal(c, x.Call.Args[i])
						if rv == want && rc == wc {
							return true
						}
					}
				}
			}
		}
	}
	return false
}
