package rules

import (
	"strings"

	"golang.org/x/tools/go/ssa"

	"scicheck/internal/core"
)

func init() { Registry["C16"] = c16 }

func c16(e *Env) {
	r := e.R
	r.Explanation = "Structural conditions for 'only fully wired workflows run; RunTo runs the upstream closure': (R1) in runProcs the readiness test of every process of the run set - including the driver - has completed on every path before the first goroutine is started; a Ready() that returns false makes a never-returning call inevitable before any process starts; BaseProcess.Ready examines all four port maps and an unconnected port is fatal; (R2) the upstream-closure function ranges the in-ports AND the parameter in-ports of a process, over all their remote ports (complete loops), adds each remote's process to the result and recurses into it; RunToProcs adds the targets themselves; (R3) the recursion is cycle-safe: it is guarded by a visited test on the same process it recurses into; (R4) connections to processes outside the run set are cut for out-ports and parameter out-ports alike and every dangling port is wired to the sink (every connection examined); (R5) every process of the run set is started exactly once, the driver only synchronously (shared with C04.R5/R6)."
	r.NotDecided = "which commands actually execute for a concrete graph; name-based matching of RunToRegex."
	g := e.runRoot()
	if g == nil {
		r.Ob("R1", "runProcs", "anchor").Unknown("-", "(*Workflow).Run not found")
		return
	}
	rootName := "(*Workflow).Run"
	// ---- R1 readiness before spawn
	isReady := func(n *core.Node) bool {
		return n.Call != nil && n.Call.IsInvoke() && n.Call.Method.Name() == "Ready" && !n.IsGo
	}
	isGoRun := func(n *core.Node) bool { return n.IsGo }
	readys := g.Select(isReady)
	ob1 := r.Ob("R1", "runProcs:Ready=false⇒exit", "a process that is not ready makes a never-returning call inevitable before any process is started")
	ob1b := r.Ob("R1", "runProcs:ready≺go", "the readiness test of every process of the run set has completed on every path before the first goroutine is started")
	if len(readys) == 0 {
		ob1.Fail(rootName, "runProcs' call tree never asks a process whether it is Ready(): an unconnected port is only noticed as a hang after commands have run")
		ob1b.Fail(rootName, "no readiness test")
	}
	allReady := func(m *core.Node) (core.AV, bool) {
		if isReady(m) {
			return core.BoolAV(true), true
		}
		return core.Top, false
	}
	for _, n := range readys {
		res := g.Run(core.Scenario{Start: n, Result: core.BoolAV(false)})
		if w := res.Reaches(isGoRun); w != nil {
			ob1.Fail(g.Where(n), "with a process reporting not-ready a goroutine is still started at "+g.Where(w))
		} else if res.NormalReturn() != nil {
			ob1.Fail(g.Where(n), "with a process reporting not-ready runProcs can return normally")
		} else if w := res.Reaches(func(m *core.Node) bool { return m.Call != nil && m.Call.IsInvoke() && m.Call.Method.Name() == "Run" }); w != nil {
			ob1.Fail(g.Where(n), "with a process reporting not-ready a process is still run at "+g.Where(w))
		} else {
			ob1.OK(g.Where(n), "not ready ⇒ exit before any start")
		}
		// the test ranges the whole run set: element of the map parameter, loop complete under Ready()=true
		recv := e.xsym().InCtx(n.Ctx, n.Call.Value).String()
		if !strings.HasPrefix(recv, "val∈") || !strings.Contains(recv, "procs") {
			ob1b.Fail(g.Where(n), "the readiness test is applied to "+recv+", not to every element of the run set")
			continue
		}
		top := n
		if e.forAllOutputs2(ob1b, g, top, isReady, core.Scenario{CallResult: allReady}, "readiness test") {
			// loop exit precedes every go
			exits, _ := loopExitNodes(g, n)
			ex := nodeSet(exits)
			res2 := g.Run(core.Scenario{Start: g.Entry, CallResult: allReady})
			must := res2.Must(func(m *core.Node) core.Transfer {
				if ex[m] {
					return core.Transfer{Gen: 1}
				}
				return core.Transfer{}
			})
			gos := g.Select(isGoRun)
			okAll := len(gos) > 0
			for _, gn := range gos {
				if must[gn]&1 == 0 {
					okAll = false
					ob1b.Fail(g.Where(gn), "a process can be started before the readiness of all processes has been established: commands of processes started earlier run although the workflow is then refused")
				}
			}
			if okAll {
				ob1b.OK(g.Where(n), "Ready() of every element of the run set, loop completed before the first go")
			}
		}
	}
	// the driver is covered by the readiness test
	obD := r.Ob("R1", "runProcs:driver-ready", "the driver process is subject to the readiness test too (it stays in the tested map, or is tested explicitly)")
	delDrv := false
	for _, n := range g.Nodes {
		if n.IsBuiltin("delete") {
			k := e.xargSym(n, 1).String()
			ms := e.xargSym(n, 0)
			// a delete of the driver from a process map (the run set or the workflow's own map - by type)
			isProcMap := ms != nil && ms.Val != nil && strings.HasPrefix(ms.Val.Type().String(), "map[string]") && strings.HasSuffix(ms.Val.Type().String(), "WorkflowProcess")
			drv := "." + fieldName(e.P.FieldVar("scipipe", "Workflow", "driver"))
			if strings.Contains(k, drv) && isProcMap {
				delDrv = true
			}
		}
	}
	explicit := false
	for _, n := range readys {
		if strings.Contains(e.xsym().InCtx(n.Ctx, n.Call.Value).String(), ".driver") {
			explicit = true
		}
	}
	switch {
	case !delDrv:
		obD.OK(rootName, "the driver is not removed from the run set before the readiness test")
	case explicit:
		obD.OK(rootName, "driver removed from the set but tested explicitly")
	default:
		obD.Fail(rootName, "the driver is deleted from the run set before the readiness test and never tested itself: a driver with an unconnected in-port is only noticed as a hang after upstream commands have run")
	}
	e.c16BaseReady()
	// ---- R2/R3 upstream closure
	e.c16Closure()
	// ---- R4
	e.c05Reconnect("R4")
	// ---- R5
	e.spawnRules("R5", "R5")
}

// forAllOutputs2 is kept as an alias: forAllOutputs now judges early exits by what happens after them.
func (e *Env) forAllOutputs2(ob *core.Obligation, g *core.XG, action *core.Node, isAction func(*core.Node) bool, assume core.Scenario, what string) bool {
	return e.forAllOutputs(ob, g, action, isAction, assume, what)
}

func (e *Env) c16BaseReady() {
	r := e.R
	p := e.P
	fn := p.DeclaredMethod("scipipe", "BaseProcess", "Ready")
	if fn == nil {
		r.Ob("R1", "(*BaseProcess).Ready", "anchor").Unknown("-", "not found")
		return
	}
	g := e.XG(fn)
	if g == nil {
		return
	}
	for _, f := range []string{"inPorts", "outPorts", "inParamPorts", "outParamPorts"} {
		ob := r.Ob("R1", "(*BaseProcess).Ready:"+f, "every port of this kind is examined and an unconnected one is fatal (Ready never reports true)")
		var sites []*core.Node
		for _, n := range g.Nodes {
			if n.Ctx == g.Root && n.Callee != nil && n.Callee.Name() == "Ready" && n.Kind == core.KCall {
				s := e.argSym(n, 0).String()
				if strings.Contains(s, "val∈$p."+f) || strings.Contains(s, "val∈") && strings.Contains(strings.ToLower(s), strings.ToLower(f)+"(") {
					sites = append(sites, n)
				}
			}
		}
		if len(sites) == 0 {
			ob.Fail(core.FuncName(fn), "the ports in BaseProcess."+f+" are never asked whether they are connected")
			continue
		}
		for _, n := range sites {
			var load *core.Node
			for _, m := range g.Nodes {
				if m.Ctx == n.Inl {
					if v, ok := m.Instr.(ssa.Value); ok && fieldOfLoad(v) != nil && isBoolType(fieldOfLoad(v).Type()) {
						load = m
					}
				}
			}
			if load == nil {
				ob.Unknown(g.Where(n), "port Ready() does not read a readiness field")
				continue
			}
			res := g.Run(core.Scenario{Start: load, Result: core.BoolAV(false)})
			// no normal return with a true result
			bad := res.Reaches(func(m *core.Node) bool {
				if m.Kind != core.KRootRet {
					return false
				}
				return true
			})
			if bad != nil {
				// a return is reachable: it must return false. Accept only when the returned value is provably false.
				ret := bad.Instr.(*ssa.Return)
				if k, ok := ret.Results[0].(*ssa.Const); ok && k.Value != nil && k.Value.String() == "false" {
					bad = nil
				}
			}
			if bad != nil {
				ob.Fail(g.Where(n), "with an unconnected port of this kind BaseProcess.Ready can still return (possibly true)")
				continue
			}
			if e.forAllOutputs(ob, g, n, func(m *core.Node) bool { return m == n }, core.Scenario{}, "port readiness") {
				ob.OK(g.Where(n), "unconnected ⇒ exit; complete range over "+f)
			}
		}
	}
}

func (e *Env) c16Closure() {
	r := e.R
	p := e.P
	rtp := p.DeclaredMethod("scipipe", "Workflow", "RunToProcs")
	ob2t := r.Ob("R2", "RunToProcs:targets", "the RunTo targets themselves are part of the run set")
	if rtp == nil {
		ob2t.Unknown("-", "RunToProcs not found")
		return
	}
	g := e.XG(rtp)
	if g == nil {
		return
	}
	xs := e.xsym()
	foundT := false
	for _, n := range g.Nodes {
		mu, ok := n.Instr.(*ssa.MapUpdate)
		if !ok {
			continue
		}
		k, v := xs.InCtx(n.Ctx, mu.Key).String(), xs.InCtx(n.Ctx, mu.Value).String()
		if strings.Contains(v, "$finalProcs[") && strings.Contains(k, "Name(") && !strings.Contains(v, "RemotePorts") {
			foundT = true
			okL := true
			for _, la := range iterLoops(g, n) {
				if !e.loopHarmlessExits(g, la) {
					okL = false
				}
			}
			ob2t.Check(okL && len(iterLoops(g, n)) > 0, g.Where(n), "runset["+trunc(k, 60)+"] = "+trunc(v, 60), "the loop adding the targets can be left early or is missing")
		}
	}
	if !foundT {
		ob2t.Fail(core.FuncName(rtp), "RunToProcs does not add the target processes to the run set")
	}
	// the upstream traversal: the recursion-cut call nodes of the expanded CFG (a function already on the
	// context chain is called again) whose argument is the process of a remote port
	type rec struct {
		n   *core.Node
		arg *core.Sym
	}
	var recs []rec
	for _, n := range g.Nodes {
		if !n.Recursive || n.Call == nil {
			continue
		}
		for _, a := range n.Call.Args {
			s := xs.InCtx(n.Ctx, a)
			if strings.Contains(s.String(), ".RemotePorts") && strings.Contains(s.String(), "Process(") {
				recs = append(recs, rec{n, s})
			}
		}
	}
	if len(recs) == 0 {
		r.Ob("R2", "closure", "the upstream closure is computed by a recursive traversal of the remote ports").Unknown(core.FuncName(rtp), "no recursive call taking the process of a remote port in RunToProcs' call tree")
		return
	}
	for _, kind := range []struct{ key, ports string }{{"InPorts", "invoke:InPorts("}, {"InParamPorts", "invoke:InParamPorts("}} {
		ob2 := r.Ob("R2", "closure:"+kind.key, "for every remote port of every "+kind.key[:len(kind.key)-1]+" the remote's process is added to the closure and the traversal recurses into it")
		ob3 := r.Ob("R3", "closure:cycle-safe#"+kind.key, "the recursion is guarded by a visited test on the very process it recurses into (a process that is upstream of itself, as with FromStr, terminates)")
		n0 := 0
		for _, rc := range recs {
			argS := rc.arg.String()
			if !strings.Contains(argS, kind.ports) {
				continue
			}
			n0++
			c := rc.n
			// loops along the chain, up to (not including) the first occurrence of the recursive function
			las := iterLoops(g, c)
			nLoops, okL := 0, true
			for _, la := range las {
				coll := e.loopCollection(g, la)
				if !(strings.Contains(coll, "RemotePorts") || strings.Contains(coll, kind.ports)) {
					continue
				}
				nLoops++
				if !e.loopHarmlessExits(g, la) {
					okL = false
					ob2.Fail(g.Where(c), "a loop of the traversal can be left early")
				}
			}
			if nLoops < 2 {
				okL = false
				ob2.Fail(g.Where(c), "the recursion is not nested in loops over the ports and over their remote ports")
			}
			// the process recursed into is added to the result
			added := false
			for _, m := range g.Nodes {
				if mu, ok := m.Instr.(*ssa.MapUpdate); ok {
					if xs.InCtx(m.Ctx, mu.Value).String() == argS && (g.ReachableFrom(m, nil)[c] || g.ReachableFrom(c, nil)[m]) {
						added = true
					}
				}
			}
			if okL && !added {
				ob2.Fail(g.Where(c), "the process recursed into ("+trunc(argS, 80)+") is not added to the closure")
			} else if okL {
				ob2.OK(g.Where(c), "adds and recurses into "+trunc(argS, 100))
			}
			// visited guard on the same process, anywhere on the chain inside the innermost traversal loop
			var gs []string
			if len(las) > 0 {
				gs = e.chainGuards(g, c, las[0])
			}
			nameOfArg := "invoke:Name(" + argS + ")"
			visited, wrongKey := false, ""
			for _, gd := range gs {
				isLookup := strings.Contains(gd, "[") && (strings.Contains(gd, "]#1") || strings.Contains(gd, "nil"))
				if isLookup {
					if strings.Contains(gd, nameOfArg) {
						visited = true
					} else if strings.Contains(gd, "invoke:Name(") {
						wrongKey = gd
					}
				}
				if (strings.Contains(gd, "op!=") || strings.HasPrefix(gd, "!op==")) && strings.Contains(gd, argS) {
					visited = true // identity test against the current process
				}
			}
			switch {
			case visited:
				ob3.OK(g.Where(c), "guarded by "+trunc(strings.Join(gs, " && "), 140))
			case wrongKey != "":
				ob3.Fail(g.Where(c), "the visited test looks up another process than the one recursed into: guard "+trunc(wrongKey, 160)+" vs recursion into "+trunc(argS, 80)+" (upstream processes reached through this port are skipped once their consumer is in the set)")
			default:
				ob3.Fail(g.Where(c), "the recursion into "+trunc(argS, 80)+" is not guarded by a visited test: a process that is upstream of itself (InParamPort.FromStr connects a feeder port owned by the consumer) makes RunTo recurse until the stack overflows")
			}
		}
		if n0 == 0 {
			ob2.Fail(core.FuncName(rtp), "the traversal does not recurse through the "+kind.key+": processes connected only through such ports are missing from the RunTo closure (their consumers block forever)")
			ob3.Unknown(core.FuncName(rtp), "no recursion for this port kind")
		}
	}
}
