package rules

import (
	"fmt"
	"go/constant"
	"go/types"
	"reflect"
	"strings"

	"golang.org/x/tools/go/ssa"

	"scicheck/internal/core"
)

func init() { Registry["C11"] = c11 }

func c11(e *Env) {
	r := e.R
	r.Explanation = "Decides the structural conditions for 'provenance survives restarts': (R1) type level: every field of the audit record type is exported, carries no json tag that drops or renames it asymmetrically (no \"-\"), the type has no custom (Un)MarshalJSON, and every field type is in the closed set encoding/json round-trips (string, time.Time, time.Duration, map[string]string, map[string]*AuditInfo); (R2) writer and reader agree: the writer serialises the IP's *AuditInfo with encoding/json and replaces the whole file at AuditFilePath() (truncating write), the reader unmarshals the bytes of the same path into the same Go type; (R3) FileIP.AuditInfo fills a nil cache from the file under the IP lock; an unreadable or unparsable file is fatal, a missing file yields an empty record; NewFileIP loads the record of an existing file; (R4) the audit record of every output is on disk before the output is renamed to its final path, so a file a resumed run takes from disk always has its record (shared with C03.R3), and Upstream takes the loaded record of every input (shared with C10.R1); (R5) the record is complete before its first write (shared with C10.R5); (R6) a record never shares its Tags map with another record (shared with C10.R4): otherwise a tag added downstream shows up in the in-memory records of the ancestors of an uninterrupted run but not in the records a resumed run loads from disk."
	r.NotDecided = "equality of lineages across concrete run histories; byte-level stability of the JSON encoding."
	p := e.P
	ai := p.Named("scipipe", "AuditInfo")
	if ai == nil {
		r.Ob("R1", "AuditInfo", "anchor").Unknown("-", "type AuditInfo not found")
		return
	}
	st := ai.Underlying().(*types.Struct)
	// ---- R1
	for i := 0; i < st.NumFields(); i++ {
		f := st.Field(i)
		ob := r.Ob("R1", "AuditInfo."+f.Name(), "the field is serialised losslessly by encoding/json")
		tag := reflect.StructTag(st.Tag(i)).Get("json")
		name := strings.Split(tag, ",")[0]
		switch {
		case !f.Exported():
			ob.Fail(p.Pos(f.Pos()), "unexported field: encoding/json silently skips it, the value is lost when the record is written")
		case name == "-":
			ob.Fail(p.Pos(f.Pos()), "json:\"-\": the field is dropped when the record is written")
		case strings.Contains(tag, "omitempty") && false:
		case !jsonRoundTrips(f.Type(), ai):
			ob.Fail(p.Pos(f.Pos()), "type "+f.Type().String()+" is outside the set that encoding/json round-trips without loss")
		default:
			ob.OK(p.Pos(f.Pos()), f.Type().String())
		}
	}
	if st.NumFields() < 8 {
		r.Ob("R1", "AuditInfo:fields", "the record has its documented fields").Fail(p.Pos(ai.Obj().Pos()), fmt.Sprintf("only %d fields", st.NumFields()))
	}
	obM := r.Ob("R1", "AuditInfo:no-custom-marshal", "the record type has no custom MarshalJSON/UnmarshalJSON/MarshalText that could drop data")
	bad := ""
	for _, T := range []types.Type{ai, types.NewPointer(ai)} {
		ms := types.NewMethodSet(T)
		for i := 0; i < ms.Len(); i++ {
			switch ms.At(i).Obj().Name() {
			case "MarshalJSON", "UnmarshalJSON", "MarshalText", "UnmarshalText":
				bad = ms.At(i).Obj().Name()
			}
		}
	}
	obM.Check(bad == "", p.Pos(ai.Obj().Pos()), "none", "AuditInfo has a custom "+bad+" method")
	// ---- R2 writer / reader
	e.c11WriterReader(ai)
	// ---- R3
	e.auditLoadRule("R3")
	// ---- R4 shared
	sp := e.spine()
	if sp == nil {
		return
	}
	g := sp.g
	ob4 := r.Ob("R4", "Execute:auditWrite≺rename", "the audit record of every output is written before the first output is renamed to its final path")
	auditExit := map[*core.Node]bool{}
	for _, s := range sp.auditWrite {
		top := s
		for top.Ctx.Parent != nil && top.Ctx.CallNode != nil && core.InnermostLoop(top.Instr) == nil {
			top = top.Ctx.CallNode
		}
		ex, _ := loopExitNodes(g, top)
		for _, x := range ex {
			auditExit[x] = true
		}
	}
	must := g.Forward(func(n *core.Node) core.Transfer {
		if auditExit[n] {
			return core.Transfer{Gen: 1}
		}
		return core.Transfer{}
	}, true)
	for _, n := range append(append([]*core.Node{}, sp.declRename...), sp.extraRename...) {
		ob4.Check(must[n]&1 != 0, g.Where(n), "audit written for all outputs first", "a path reaches os.Rename before the audit records are on disk: a crash in between leaves a final output without record; the resumed run skips the task and downstream lineage is empty")
	}
	if len(sp.auditWrite) == 0 || len(sp.declRename) == 0 {
		ob4.Unknown("-", "audit write or rename not found in Execute's call tree")
	}
	{
		// "written" = at <final path>.audit.json for every output that is going to be renamed (stream flag false)
		isAW := nodeSet(sp.auditWrite)
		for _, s := range sp.auditWrite {
			if !e.forAllOutputs(ob4, g, s, func(m *core.Node) bool { return isAW[m] }, core.Scenario{FieldLoad: e.assumeStream(false)}, "writing the audit record next to the final path") {
				break
			}
		}
	}
	// ---- R5 shared with C10.R5: the record a resumed run reads from disk is complete
	e.recordCompleteBeforeWrite("R5")
	// ---- R6 shared with C10.R4: ancestor records in memory stay what is on disk
	e.freshTagsMap("R6")
	ob4b := r.Ob("R4", "audit-builder:Upstream←loaded-record", "Upstream entries take FileIP.AuditInfo() of the input, i.e. the record loaded from disk when the input was not recomputed")
	if bfn, _ := e.auditBuilder(); bfn != nil {
		found := false
		for _, u := range e.recordUpdates() {
			if u.field != "Upstream" {
				continue
			}
			found = true
			ob4b.Check(isCallSym(u.val, "(*FileIP).AuditInfo"), g.Where(u.n), u.val.String(), "Upstream entry is "+u.val.String()+", not the input IP's AuditInfo()")
		}
		if !found {
			ob4b.Fail(core.FuncName(bfn), "no Upstream entry is set")
		}
	}
}

func jsonRoundTrips(t types.Type, self *types.Named) bool {
	switch x := t.(type) {
	case *types.Named:
		s := x.String()
		if s == "time.Time" || s == "time.Duration" || x == self {
			return true
		}
		return jsonRoundTrips(x.Underlying(), self)
	case *types.Basic:
		return x.Info()&(types.IsString|types.IsInteger|types.IsFloat|types.IsBoolean) != 0
	case *types.Pointer:
		return jsonRoundTrips(x.Elem(), self)
	case *types.Map:
		if b, ok := x.Key().Underlying().(*types.Basic); !ok || b.Info()&types.IsString == 0 {
			return false
		}
		return jsonRoundTrips(x.Elem(), self)
	case *types.Slice:
		return jsonRoundTrips(x.Elem(), self)
	case *types.Struct:
		for i := 0; i < x.NumFields(); i++ {
			if !x.Field(i).Exported() || !jsonRoundTrips(x.Field(i).Type(), self) {
				return false
			}
		}
		return true
	}
	return false
}

func (e *Env) c11WriterReader(ai *types.Named) {
	r := e.R
	p := e.P
	obW := r.Ob("R2", "writer:whole-record→AuditFilePath", "the writer serialises the IP's *AuditInfo with encoding/json and replaces the whole file at AuditFilePath()")
	obR := r.Ob("R2", "reader:AuditFilePath→same-type", "the reader unmarshals the bytes read from the IP's AuditFilePath() into the same Go type")
	w := p.Func("FileIP.WriteAuditLogToFile")
	if w == nil {
		obW.Unknown("-", "FileIP.WriteAuditLogToFile not found")
	} else {
		nOK := 0
		// the writer's whole call tree (the encoding or the write may sit in private helpers)
		gw := e.XG(w)
		fsy := e.fsym()
		var calls []*core.Node
		if gw != nil {
			for _, n := range gw.Nodes {
				if _, isCall := n.Instr.(*ssa.Call); isCall && n.Call != nil && n.Call.StaticCallee() != nil && n.Kind != core.KAfter {
					calls = append(calls, n)
				}
			}
		}
		{
			for _, n := range calls {
				c := n.Instr.(*ssa.Call)
				switch nm := c.Call.StaticCallee().String(); nm {
				case "io/ioutil.WriteFile", "os.WriteFile":
					path := fsy.InCtx(n.Ctx, c.Call.Args[0])
					data := fsy.InCtx(n.Ctx, c.Call.Args[1]).String()
					okP := isCallSym(path, fnAuditPath)
					okD := (strings.Contains(data, "encoding/json.MarshalIndent(") || strings.Contains(data, "encoding/json.Marshal(")) && strings.Contains(data, "(*FileIP).AuditInfo(")
					if okP && okD {
						nOK++
						obW.OK(e.where(c), nm+"("+path.Template()+", json(ip.AuditInfo()))")
					} else {
						obW.Fail(e.where(c), "writes "+trunc(data, 120)+" to "+path.Template())
					}
				case "os.OpenFile":
					path := fsy.InCtx(n.Ctx, c.Call.Args[0])
					flags, isConst := c.Call.Args[1].(*ssa.Const)
					if isCallSym(path, fnAuditPath) {
						if !isConst || flags.Value == nil || flags.Value.Kind() != constant.Int || flags.Int64()&0x200 == 0 { // os.O_TRUNC
							obW.Fail(e.where(c), "the audit file is opened for writing without O_TRUNC: a shorter record written over a longer stale one leaves trailing bytes, the file is no longer valid JSON")
						} else {
							nOK++
							obW.OK(e.where(c), "os.OpenFile(..., O_TRUNC)")
						}
					}
				case "os.Create":
					if isCallSym(fsy.InCtx(n.Ctx, c.Call.Args[0]), fnAuditPath) {
						nOK++
						obW.OK(e.where(c), "os.Create (truncates)")
					}
				}
			}
		}
		if nOK == 0 && obW.Sites == 0 {
			obW.Fail(core.FuncName(w), "no truncating write of the JSON-encoded record to AuditFilePath()")
		}
	}
	um := p.Func("UnmarshalAuditInfoJSONFile")
	if um == nil {
		obR.Unknown("-", "UnmarshalAuditInfoJSONFile not found")
		return
	}
	found := false
	for _, b := range um.Blocks {
		for _, in := range b.Instrs {
			c, ok := in.(*ssa.Call)
			if !ok || c.Call.StaticCallee() == nil || c.Call.StaticCallee().String() != "encoding/json.Unmarshal" {
				continue
			}
			found = true
			data := e.fsym().InFunc(um, c.Call.Args[0]).String() // (the read may sit in a private helper)
			tgt := c.Call.Args[1]
			if mi, ok := tgt.(*ssa.MakeInterface); ok {
				tgt = mi.X
			}
			okT := typeNamed(tgt.Type()) == ai
			okD := strings.Contains(data, "ReadFile($fileName)") || strings.Contains(data, "ReadFile(")
			obR.Check(okT && okD, e.where(c), "json.Unmarshal(ReadFile(fileName), *AuditInfo)", "reader decodes "+trunc(data, 80)+" into "+tgt.Type().String()+" (writer uses *AuditInfo)")
		}
	}
	if !found {
		obR.Fail(core.FuncName(um), "the reader does not json.Unmarshal into the record type")
	}
	// the reader is called with AuditFilePath(): checked by R3 (cache := Unmarshal...(AuditFilePath(ip)))
}
