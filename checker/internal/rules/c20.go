package rules

import (
	"fmt"
	"go/constant"
	"go/token"
	"go/types"
	"sort"
	"strings"
	"text/template/parse"

	"golang.org/x/tools/go/ssa"

	"scicheck/internal/core"
)

func init() { Registry["C20"] = c20 }

func c20(e *Env) {
	r := e.R
	r.Explanation = "Structural conditions of lossless audit-report conversion in cmd/scipipe: (R1) flatten: the function that collects the lineage visits the record and, recursively, every value of its Upstream map (complete loop), and every entry it creates is keyed by the ID of the record it stores (copies between such maps keep key and value together); (R2) permutation: the sort-by-start function returns every input value exactly once - the values of the input map are appended to the result slice directly (complete loop), no intermediate map keyed by anything else; (R3) the comparator orders by StartTime ascending (first argument before second); (R4) all three converters go through flatten + sort, and render every element: the Bash and TeX text/template constants (parsed statically) range over the whole .AuditInfos, the HTML converter formats every element in a complete loop; per-format field sets frozen from the confirmed templates may not lose a field; (R5) agreement of tables: the Bash template strips from the command exactly the parent-dir prefix that the command formatter adds to input paths, at every occurrence."
	r.NotDecided = "byte-identical re-creation by the generated script (needs running it); uniqueness of the random record IDs (the generator reseeds from the clock at every call: assumed); HTML/TeX escaping."
	p := e.P
	sy := p.NewSymbolizer(nil)
	cmdPkg := p.SSAPkgs[core.LibPkgs[2]]
	ai := p.Named("scipipe", "AuditInfo")
	// ---- anchors: flatten = self-recursive function over AuditInfo.Upstream; sortfn = returns []*AuditInfo and references StartTime
	var flatten, sortfn *ssa.Function
	for _, m := range cmdPkg.Members {
		fn, ok := m.(*ssa.Function)
		if !ok || fn.Blocks == nil {
			continue
		}
		selfRec, upstream := false, false
		for _, b := range fn.Blocks {
			for _, in := range b.Instrs {
				if c, ok := in.(*ssa.Call); ok && c.Call.StaticCallee() == fn {
					selfRec = true
				}
				if v, ok := in.(ssa.Value); ok {
					if f := fieldOfLoad(v); f != nil && f.Name() == "Upstream" {
						upstream = true
					}
				}
			}
		}
		if selfRec && upstream {
			flatten = fn
		}
		if fn.Signature.Results().Len() == 1 && fn.Signature.Results().At(0).Type().String() == "[]*"+core.ModPath+".AuditInfo" && fn.Signature.Params().Len() == 1 {
			if _, isMap := fn.Signature.Params().At(0).Type().Underlying().(*types.Map); isMap {
				sortfn = fn
			}
		}
	}
	// helper functions of flatten (merge) reachable from it within the package
	ob1 := r.Ob("R1", "flatten:recursion", "the lineage collector visits the record and recursively every value of its Upstream map")
	ob1k := r.Ob("R1", "flatten:key=ID", "every entry created while flattening is keyed by the ID of the record it stores (or copies key and value of an existing entry)")
	if flatten == nil {
		ob1.Unknown("cmd/scipipe", "no self-recursive function over AuditInfo.Upstream found")
	} else {
		// recursion over all values of Upstream
		okRec := false
		for _, b := range flatten.Blocks {
			for _, in := range b.Instrs {
				c, ok := in.(*ssa.Call)
				if !ok || c.Call.StaticCallee() != flatten {
					continue
				}
				var argS string
				for _, a := range c.Call.Args {
					if typeNamed(a.Type()) == ai {
						argS = sy.InFunc(flatten, a).String()
					}
				}
				if !strings.Contains(argS, "val∈") || !strings.Contains(argS, ".Upstream") {
					ob1.Fail(e.where(c), "the recursive call does not take the values of the record's Upstream map: "+argS)
					continue
				}
				okL := true
				for _, l := range core.LoopsOf(c) {
					if ex := p.EarlyExits(l); len(ex) > 0 {
						okL = false
						ob1.Fail(e.where(c), "the loop over Upstream can be left early: "+ex[0])
					}
				}
				if core.InnermostLoop(c) == nil {
					okL = false
					ob1.Fail(e.where(c), "the recursion is not inside a loop over Upstream (one level only)")
				}
				// the result of the recursion must be used (merged) - not dropped
				if okL {
					if refs := c.Referrers(); (refs == nil || len(*refs) == 0) && !passesAccumulator(c, flatten) {
						ob1.Fail(e.where(c), "the result of the recursive call is dropped")
					} else {
						okRec = true
						ob1.OK(e.where(c), "recurses into "+argS)
					}
				}
			}
		}
		if !okRec && ob1.Sites == 0 {
			ob1.Fail(core.FuncName(flatten), "no recursion over the Upstream values")
		}
		// keys
		fns := []*ssa.Function{flatten}
		for fn := range p.Reachable(flatten) {
			if fn != flatten && fn.Pkg == cmdPkg && fn.Blocks != nil {
				fns = append(fns, fn)
			}
		}
		sort.Slice(fns, func(i, j int) bool { return fns[i].Name() < fns[j].Name() })
		nUpd := 0
		for _, fn := range fns {
			for _, b := range fn.Blocks {
				for _, in := range b.Instrs {
					mu, ok := in.(*ssa.MapUpdate)
					if !ok {
						continue
					}
					mt, ok := mu.Map.Type().Underlying().(*types.Map)
					if !ok || typeNamed(mt.Elem()) != ai {
						continue
					}
					nUpd++
					k, v := sy.InFunc(fn, mu.Key), sy.InFunc(fn, mu.Value)
					ks, vs := k.String(), v.String()
					okID := k.Op == "field" && k.Name == "AuditInfo.ID" && k.Args[0].String() == vs
					// copying key and value of an entry of another ID-keyed map (a parameter, or the result of the
					// collector itself) - but not of the Upstream map, whose keys are file paths
					okCopy := k.Op == "rangekey" && v.Op == "rangeval" && k.Args[0].String() == v.Args[0].String() &&
						!(k.Args[0].Op == "field" && strings.HasSuffix(k.Args[0].Name, ".Upstream"))
					// the same copy written as keys-then-lookup: m2[k] = m[k] with k ranging over m
					if !okCopy && k.Op == "rangekey" && len(k.Args) == 1 && vs == k.Args[0].String()+"["+ks+"]" &&
						!(k.Args[0].Op == "field" && strings.HasSuffix(k.Args[0].Name, ".Upstream")) {
						okCopy = true
					}
					ob1k.Check(okID || okCopy, e.where(mu), "m["+trunc(ks, 50)+"] = "+trunc(vs, 50), "entry m["+ks+"] = "+vs+" is not keyed by the stored record's ID: records are lost or listed several times (the keys of Upstream are file paths, several of which can carry the same record)")
				}
			}
		}
		if nUpd == 0 {
			ob1k.Fail(core.FuncName(flatten), "the collector never stores a record")
		}
	}
	// ---- R2 / R3
	ob2 := r.Ob("R2", "sort-by-start:permutation", "the sort returns every value of its input map exactly once: values are appended to the result directly, no intermediate map keyed by something else")
	ob3 := r.Ob("R3", "sort-by-start:comparator", "records are ordered by StartTime ascending")
	if sortfn == nil {
		ob2.Unknown("cmd/scipipe", "no func(map[..]*AuditInfo) []*AuditInfo found")
	} else {
		par := "$" + sortfn.Params[0].Name()
		for _, b := range sortfn.Blocks {
			for _, in := range b.Instrs {
				rt, ok := in.(*ssa.Return)
				if !ok {
					continue
				}
				res := sy.InFunc(sortfn, rt.Results[0])
				pieces := appendedPieces(res)
				if len(pieces) == 0 {
					ob2.Fail(e.where(rt), "the returned slice is not built by appending the input values: "+trunc(res.String(), 160))
					continue
				}
				okAll := true
				for _, pc := range pieces {
					s := pc.String()
					// the input's values: ranged directly, or looked up with the input's own ranged key
					if s != "val∈"+par && s != par+"[key∈"+par+"]" {
						okAll = false
						ob2.Fail(e.where(rt), "an element of the result is "+trunc(s, 140)+" instead of a value of the input map: looking records up through another key (e.g. their start time) loses those that share it and lists the survivor several times")
					}
				}
				if okAll {
					// the appending loop ranges the input completely
					okL := true
					for _, b2 := range sortfn.Blocks {
						for _, in2 := range b2.Instrs {
							if c, ok := in2.(*ssa.Call); ok {
								if bi, ok := c.Call.Value.(*ssa.Builtin); ok && bi.Name() == "append" {
									for _, l := range core.LoopsOf(c) {
										if ex := p.EarlyExits(l); len(ex) > 0 {
											okL = false
											ob2.Fail(e.where(c), "the loop collecting the records can be left early: "+ex[0])
										}
									}
								}
							}
						}
					}
					if okL {
						ob2.OK(e.where(rt), "result = all values of "+par+", sorted in place")
					}
				}
			}
		}
		// comparator
		found := false
		for _, b := range sortfn.Blocks {
			for _, in := range b.Instrs {
				c, ok := in.(*ssa.Call)
				if !ok || c.Call.StaticCallee() == nil {
					continue
				}
				nm := c.Call.StaticCallee().String()
				var cmp *ssa.Function
				iIdx, jIdx := 0, 1
				switch nm {
				case "sort.Slice", "sort.SliceStable":
					cmp = funcOf(c.Call.Args[1])
				case "sort.Sort", "sort.Stable":
					// the Less method of the sorted value's type
					a := c.Call.Args[0]
					if mi, ok := a.(*ssa.MakeInterface); ok {
						a = mi.X
					}
					if sel := p.SSA.MethodSets.MethodSet(a.Type()).Lookup(cmdPkg.Pkg, "Less"); sel != nil {
						cmp = p.SSA.MethodValue(sel)
						iIdx, jIdx = 1, 2
					} else if sel := p.SSA.MethodSets.MethodSet(a.Type()).Lookup(nil, "Less"); sel != nil {
						cmp = p.SSA.MethodValue(sel)
						iIdx, jIdx = 1, 2
					}
				default:
					continue
				}
				if cmp == nil || len(cmp.Params) <= jIdx {
					ob3.Unknown(e.where(c), "comparator is not a function literal or a Less method")
					continue
				}
				found = true
				// find Before/After calls on StartTime fields, anywhere in the comparator's call tree
				okCmp := false
				bad := ""
				gc := e.XG(cmp)
				if gc == nil {
					continue
				}
				csy := e.fsym()
				for _, cn := range gc.Nodes {
					cc, ok := cn.Instr.(*ssa.Call)
					if !ok || cc.Call.StaticCallee() == nil || cn.Kind == core.KAfter {
						continue
					}
					switch cc.Call.StaticCallee().String() {
					case "(time.Time).Equal":
						// the tie test must look at the same key as the ordering: records whose OTHER time stamps happen to
						// coincide are not ties
						a0 := csy.InCtx(cn.Ctx, cc.Call.Args[0]).String()
						a1 := csy.InCtx(cn.Ctx, cc.Call.Args[1]).String()
						if !strings.Contains(a0, ".StartTime") || !strings.Contains(a1, ".StartTime") {
							bad = "the tie test compares " + trunc(a0, 60) + " with " + trunc(a1, 60) + ", not the two start times: records with different start times can be ordered by the tie-breaker"
						}
					case "(time.Time).Before", "(time.Time).After":
						a0 := csy.InCtx(cn.Ctx, cc.Call.Args[0]).String()
						a1 := csy.InCtx(cn.Ctx, cc.Call.Args[1]).String()
						iName, jName := "$"+cmp.Params[iIdx].Name(), "$"+cmp.Params[jIdx].Name()
						first := strings.Contains(a0, "["+iName+"]") && strings.Contains(a1, "["+jName+"]")
						second := strings.Contains(a0, "["+jName+"]") && strings.Contains(a1, "["+iName+"]")
						isBefore := strings.HasSuffix(cc.Call.StaticCallee().String(), "Before")
						if !strings.Contains(a0, ".StartTime") || !strings.Contains(a1, ".StartTime") {
							bad = "compares " + a0 + " with " + a1
						} else if (first && isBefore) || (second && !isBefore) {
							okCmp = true
						} else {
							bad = "orders descending: " + cc.Call.StaticCallee().Name() + "(" + a0 + ", " + a1 + ")"
						}
					}
				}
				if okCmp && bad == "" {
					ob3.OK(e.where(c), "less(i,j) = x[i].StartTime.Before(x[j].StartTime) (ties may be broken further)")
				} else {
					if bad == "" {
						bad = "no StartTime comparison in the comparator"
					}
					ob3.Fail(e.where(c), bad)
				}
			}
		}
		if !found {
			ob3.Fail(core.FuncName(sortfn), "no sort.Slice call in the sort function")
		}
	}
	// ---- R6 shared with C10.R8: one record (one ID) per task execution, or a task is listed once per output
	e.oneRecordPerTask("R6")
	// ---- R4 converters
	e.c20Converters(cmdPkg, flatten, sortfn)
}

// passesAccumulator: the recursive call passes on a map parameter of its caller (accumulator style), so its result need not be used.
func passesAccumulator(c *ssa.Call, fn *ssa.Function) bool {
	for _, a := range c.Call.Args {
		if pa, ok := a.(*ssa.Parameter); ok && pa.Parent() == fn {
			if _, isMap := pa.Type().Underlying().(*types.Map); isMap {
				return true
			}
		}
	}
	return false
}

func (e *Env) c20Converters(cmdPkg *ssa.Package, flatten, sortfn *ssa.Function) {
	r := e.R
	p := e.P
	// helpers are looked through, the two pipeline stages themselves stay visible as calls
	sy := p.NewSymbolizer(func(f *ssa.Function) bool {
		return isPrivateFunc(f) && f != flatten && f != sortfn && f.Pkg == cmdPkg
	})
	// template constants of the package
	consts := map[string]string{}
	for name, m := range cmdPkg.Members {
		if k, ok := m.(*ssa.NamedConst); ok && k.Value != nil && k.Value.Value != nil && k.Value.Value.Kind() == constant.String {
			consts[name] = constant.StringVal(k.Value.Value)
		}
	}
	// template function names
	funcs := map[string]interface{}{}
	tplFuncImpl := map[string]*ssa.Function{}
	for _, m := range cmdPkg.Members {
		fn, ok := m.(*ssa.Function)
		if !ok || fn.Name() != "init" {
			continue
		}
		for _, b := range fn.Blocks {
			for _, in := range b.Instrs {
				if mu, ok := in.(*ssa.MapUpdate); ok {
					if k, ok := mu.Key.(*ssa.Const); ok && k.Value != nil && k.Value.Kind() == constant.String {
						v := mu.Value
						if mi, ok := v.(*ssa.MakeInterface); ok {
							v = mi.X
						}
						if f := funcOf(v); f != nil {
							funcs[constant.StringVal(k.Value)] = func() {}
							tplFuncImpl[constant.StringVal(k.Value)] = f
						}
					}
				}
			}
		}
	}
	type conv struct {
		name     string
		tplConst string
		fields   []string
	}
	convs := []conv{
		{"auditInfoToBash", "bashTemplate", []string{"ProcessName", "Command", "OutFiles"}},
		{"auditInfoToTeX", "texTemplate", []string{"ProcessName", "ID", "Command", "Params", "Tags", "StartTime", "FinishTime"}},
		{"auditInfoToHTML", "", []string{"ProcessName", "ID", "Command", "Params", "Tags", "StartTime", "FinishTime"}},
	}
	for _, cv := range convs {
		fn := cmdPkg.Func(cv.name)
		obP := r.Ob("R4", cv.name+":pipeline", "the converter renders the flattened lineage sorted by start time")
		obA := r.Ob("R4", cv.name+":all-elements", "every element of the sorted lineage is rendered")
		obF := r.Ob("R4", cv.name+":fields", "the per-task fields of this format ("+strings.Join(cv.fields, ", ")+") are all rendered")
		if fn == nil {
			obP.Unknown("cmd/scipipe", cv.name+" not found")
			continue
		}
		// pipeline: some value in fn is sortfn(flatten(...))
		okPipe := false
		if gf := e.XG(fn); gf != nil {
			for _, n := range gf.Nodes {
				if c, ok := n.Instr.(*ssa.Call); ok && c.Call.StaticCallee() == sortfn && sortfn != nil && n.Kind != core.KAfter {
					arg := sy.InCtx(n.Ctx, c.Call.Args[0])
					if flatten != nil && arg.Op == "call" && arg.Callee != nil && (arg.Callee == flatten || p.Reachable(arg.Callee)[flatten]) {
						okPipe = true
						obP.OK(gf.Where(n), core.FuncName(sortfn)+"("+core.FuncName(flatten)+"(record))")
					}
				}
			}
		}
		if !okPipe {
			obP.Fail(core.FuncName(fn), "the converter does not pass flatten(record) through the sort-by-start function")
		}
		// polarity of the error handling: when nothing fails the report is written, and a failure is reported to the
		// caller (an inverted `err != nil` makes the converter return early with success and an empty file)
		if gf := e.XG(fn); gf != nil {
			obW := r.Ob("R4", cv.name+":success⇒written", "when no step fails the rendered report is written to the output file; when writing it fails the converter returns an error")
			isWrite := func(m *core.Node) bool {
				return m.Kind != core.KAfter && m.IsCallTo("(*text/template.Template).Execute", "(*os.File).WriteString", "(*os.File).Write", "io/ioutil.WriteFile", "os.WriteFile", "(*bufio.Writer).WriteString", "fmt.Fprint", "fmt.Fprintf", "io.WriteString")
			}
			isRet := func(m *core.Node) bool { return m.Kind == core.KRootRet }
			allOK := func(m *core.Node) (core.AV, bool) {
				if m.Call == nil || m.Kind == core.KAfter || m.Kind == core.KCall {
					return core.Top, false
				}
				res := m.Call.Signature().Results()
				if res.Len() == 0 || !types.Identical(res.At(res.Len()-1).Type(), types.Universe.Lookup("error").Type()) {
					return core.Top, false
				}
				if res.Len() == 1 {
					return core.NilAV(), true
				}
				t := make([]core.AV, res.Len())
				for i := range t {
					t[i] = core.Top
				}
				t[len(t)-1] = core.NilAV()
				return core.TupleAV(t...), true
			}
			ws := gf.Select(isWrite)
			resOK := gf.Run(core.Scenario{Start: gf.Entry, AtEntry: true, CallResult: allOK})
			switch {
			case len(ws) == 0:
				obW.Unknown(core.FuncName(fn), "no write of the rendered report found (template Execute / file write)")
			case resOK.NormalReturn() == nil:
				obW.Fail(core.FuncName(fn), "when every step succeeds the converter never returns normally")
			case resOK.ReachesAvoiding(isRet, isWrite) != nil:
				obW.Fail(core.FuncName(fn), "when every step succeeds the converter can return without having written the report (an error test with the wrong polarity)")
			default:
				obW.OK(core.FuncName(fn), "all steps succeed ⇒ the report is written before the converter returns")
			}
		}
		if cv.tplConst == "" {
			// HTML: per-task formatter called for every element of the sorted slice
			found := false
			for _, b := range fn.Blocks {
				for _, in := range b.Instrs {
					c, ok := in.(*ssa.Call)
					if !ok || c.Call.StaticCallee() == nil || c.Call.StaticCallee().Pkg != cmdPkg {
						continue
					}
					for _, a := range c.Call.Args {
						s := sy.InFunc(fn, a).String()
						if typeNamed(a.Type()) != nil && typeNamed(a.Type()).Obj().Name() == "AuditInfo" && sortfn != nil && strings.Contains(s, core.FuncName(sortfn)+"(") && core.InnermostLoop(c) != nil {
							found = true
							okL := true
							for _, l := range core.LoopsOf(c) {
								if ex := p.EarlyExits(l); len(ex) > 0 {
									okL = false
									obA.Fail(e.where(c), "the rendering loop can be left early: "+ex[0])
								}
							}
							if okL && !core.OncePerIteration(core.InnermostLoop(c), c) {
								okL = false
								obA.Fail(e.where(c), "the per-task formatter is not called on every iteration")
							}
							if okL {
								obA.OK(e.where(c), core.FuncName(c.Call.StaticCallee())+" for every element")
							}
							// fields used by the formatter
							used := map[string]bool{}
							fmtFns := []*ssa.Function{c.Call.StaticCallee()}
							for rf := range p.Reachable(c.Call.StaticCallee()) {
								if rf.Pkg == cmdPkg && rf != c.Call.StaticCallee() && rf.Blocks != nil {
									fmtFns = append(fmtFns, rf)
								}
							}
							for _, ff := range fmtFns {
								for _, fb := range ff.Blocks {
									for _, fi := range fb.Instrs {
										if v, ok := fi.(ssa.Value); ok {
											if f := fieldOfLoad(v); f != nil {
												used[f.Name()] = true
											}
										}
										if fa, ok := fi.(*ssa.FieldAddr); ok {
											used[fieldOfAddr(fa).Name()] = true
										}
									}
								}
							}
							var miss []string
							for _, f := range cv.fields {
								if !used[f] {
									miss = append(miss, f)
								}
							}
							obF.Check(len(miss) == 0, e.where(c), "all fields referenced", "the per-task HTML formatter no longer renders: "+strings.Join(miss, ", "))
						}
					}
				}
			}
			if !found {
				obA.Fail(core.FuncName(fn), "no per-element formatter call over the sorted lineage")
			}
			continue
		}
		text, ok := consts[cv.tplConst]
		if !ok {
			obA.Unknown("cmd/scipipe", "template constant "+cv.tplConst+" not found")
			continue
		}
		trees, err := parse.Parse(cv.tplConst, text, "", "", funcs, builtinTplFuncs)
		if err != nil {
			obA.Fail("cmd/scipipe/"+cv.tplConst, "the template does not parse: "+err.Error())
			continue
		}
		nRange := 0
		used := map[string]bool{}
		var walk func(n parse.Node, inRange bool)
		walk = func(n parse.Node, inRange bool) {
			switch x := n.(type) {
			case *parse.ListNode:
				if x != nil {
					for _, c := range x.Nodes {
						walk(c, inRange)
					}
				}
			case *parse.RangeNode:
				over := x.Pipe.String()
				isAll := strings.HasSuffix(strings.TrimSpace(over[strings.Index(over, ":=")+2:]), ".AuditInfos") && !strings.Contains(over, "slice") && !strings.Contains(over, "index")
				if strings.Contains(over, ".AuditInfos") {
					if isAll {
						nRange++
					} else {
						obA.Fail("cmd/scipipe/"+cv.tplConst, "the template ranges over "+over+" instead of the whole .AuditInfos")
					}
				}
				walk(x.Pipe, inRange)
				walk(x.List, inRange || isAll)
				walk(x.ElseList, inRange)
			case *parse.IfNode:
				walk(x.Pipe, inRange)
				walk(x.List, inRange)
				walk(x.ElseList, inRange)
			case *parse.WithNode:
				walk(x.List, inRange)
			case *parse.ActionNode:
				walk(x.Pipe, inRange)
			case *parse.PipeNode:
				if x != nil {
					for _, c := range x.Cmds {
						walk(c, inRange)
					}
				}
			case *parse.CommandNode:
				for _, a := range x.Args {
					walk(a, inRange)
				}
			case *parse.FieldNode:
				if inRange {
					for _, id := range x.Ident {
						used[id] = true
					}
				}
			case *parse.VariableNode:
				if inRange {
					for _, id := range x.Ident[1:] {
						used[id] = true
					}
				}
			case *parse.ChainNode:
				walk(x.Node, inRange)
				if inRange {
					for _, id := range x.Field {
						used[id] = true
					}
				}
			}
		}
		for _, t := range trees {
			walk(t.Root, false)
		}
		if nRange == 0 {
			obA.Fail("cmd/scipipe/"+cv.tplConst, "the template has no range over the whole .AuditInfos")
		} else {
			obA.OK("cmd/scipipe/"+cv.tplConst, fmt.Sprintf("%d range(s) over the whole .AuditInfos", nRange))
		}
		var miss []string
		for _, f := range cv.fields {
			if !used[f] {
				miss = append(miss, f)
			}
		}
		obF.Check(len(miss) == 0, "cmd/scipipe/"+cv.tplConst, "all fields referenced inside the range", "the template no longer renders per task: "+strings.Join(miss, ", "))
		if cv.name == "auditInfoToBash" {
			e.c20BashStrip(trees, tplFuncImpl, cv.tplConst)
		}
	}
}

var builtinTplFuncs = map[string]interface{}{
	"and": 0, "call": 0, "html": 0, "index": 0, "slice": 0, "js": 0, "len": 0, "not": 0, "or": 0, "print": 0, "printf": 0, "println": 0, "urlquery": 0,
	"eq": 0, "ge": 0, "gt": 0, "le": 0, "lt": 0, "ne": 0,
}

// c20BashStrip: R5 - the executed command line in the Bash template strips exactly the parent-dir prefix
// the command formatter adds, everywhere.
func (e *Env) c20BashStrip(trees map[string]*parse.Tree, impl map[string]*ssa.Function, tplName string) {
	r := e.R
	p := e.P
	ob := r.Ob("R5", "bashTemplate:strip≙formatter-prefix", "the replayed command is the recorded command with every occurrence of the formatter's parent-dir prefix removed (the script runs in the working directory, not in a temp dir)")
	// the prefix the formatter adds
	prefix := ""
	// the literal that the command formatter puts in front of relative input paths: the constant left operand
	// of the string concatenation reached in the {i:} arm of the formatter (whatever the helper is called)
	if fi := e.formatter(); fi != nil && fi.g != nil && len(fi.problems) == 0 {
		res := fi.arm("i", false, false)
		for _, n := range fi.g.Nodes {
			bo, ok := n.Instr.(*ssa.BinOp)
			if !ok || bo.Op != token.ADD || res.Reaches(func(m *core.Node) bool { return m == n }) == nil {
				continue
			}
			if k, ok := bo.X.(*ssa.Const); ok && k.Value != nil && k.Value.Kind() == constant.String {
				if v := constant.StringVal(k.Value); strings.HasSuffix(v, "/") && strings.HasPrefix(v, ".") {
					prefix = v
				}
			}
		}
	}
	if prefix == "" {
		ob.Unknown("task.go", "the literal prefix added by the formatter to input paths could not be determined")
		return
	}
	// pipelines in the template that mention .Command and stand alone on a line (the executed command)
	n := 0
	var visit func(nd parse.Node)
	visit = func(nd parse.Node) {
		switch x := nd.(type) {
		case *parse.ListNode:
			if x != nil {
				for _, c := range x.Nodes {
					visit(c)
				}
			}
		case *parse.RangeNode:
			visit(x.List)
		case *parse.IfNode:
			visit(x.List)
			visit(x.ElseList)
		case *parse.ActionNode:
			s := x.Pipe.String()
			if !strings.Contains(s, ".Command") {
				return
			}
			n++
			okStrip, why := stripOK(x.Pipe, impl, prefix, p)
			ob.Check(okStrip, "cmd/scipipe/"+tplName, "{{"+s+"}} removes every "+fmt.Sprintf("%q", prefix), "{{"+s+"}}: "+why)
		}
	}
	for _, t := range trees {
		visit(t.Root)
	}
	if n == 0 {
		ob.Fail("cmd/scipipe/"+tplName, "the Bash template never emits the command")
	}
}

// stripOK: the pipeline applies, to .Command, a function that removes all occurrences of exactly `prefix`.
func stripOK(pipe *parse.PipeNode, impl map[string]*ssa.Function, prefix string, p *core.Prog) (bool, string) {
	var check func(cmd *parse.CommandNode) (bool, string, bool)
	check = func(cmd *parse.CommandNode) (ok bool, why string, touchesCommand bool) {
		if len(cmd.Args) == 0 {
			return false, "", false
		}
		id, isIdent := cmd.Args[0].(*parse.IdentifierNode)
		// does any argument (possibly nested) mention .Command ?
		mention := strings.Contains(cmd.String(), ".Command")
		if !mention {
			return false, "", false
		}
		// nested pipelines first
		for _, a := range cmd.Args[1:] {
			if pn, isPipe := a.(*parse.PipeNode); isPipe {
				for _, c := range pn.Cmds {
					if ok, why, t := check(c); t {
						if ok {
							return true, "", true
						}
						_ = why
					}
				}
			}
		}
		if !isIdent {
			return false, "the command is emitted without removing " + fmt.Sprintf("%q", prefix), true
		}
		f := impl[id.Ident]
		if f == nil {
			return false, "template function " + id.Ident + " not found", true
		}
		// symbolic return of f with the template's literal arguments
		sy := p.NewSymbolizer(nil)
		for _, b := range f.Blocks {
			for _, in := range b.Instrs {
				rt, isRet := in.(*ssa.Return)
				if !isRet {
					continue
				}
				s := sy.InFunc(f, rt.Results[0])
				if !isCallSym(s, "strings.Replace") && !isCallSym(s, "strings.ReplaceAll") {
					return false, "template function " + id.Ident + " is not a plain strings.Replace: " + trunc(s.String(), 100), true
				}
				lits := []string{}
				for _, a := range cmd.Args[1:] {
					if sn, isStr := a.(*parse.StringNode); isStr {
						lits = append(lits, sn.Text)
					}
				}
				resolve := func(z *core.Sym) (string, bool) {
					if z.Op == "lit" {
						return z.Lit, true
					}
					if z.Op == "param" {
						// map parameter position to template literal: params are (subj, find, repl)
						for i, pa := range f.Params {
							if pa.Name() == z.Name && i >= 1 && i-1 < len(lits) {
								return lits[i-1], true
							}
						}
					}
					return "", false
				}
				from, ok1 := resolve(s.Args[1])
				to, ok2 := resolve(s.Args[2])
				all := isCallSym(s, "strings.ReplaceAll") || (len(s.Args) == 4 && strings.HasPrefix(s.Args[3].String(), "-"))
				switch {
				case !ok1 || !ok2:
					return false, "replacement strings not constant", true
				case from != prefix:
					return false, fmt.Sprintf("removes %q, but the formatter adds %q in front of input paths (a prefix not preceded by the extra characters survives: the replayed command reads from the parent directory)", from, prefix), true
				case to != "":
					return false, fmt.Sprintf("replaces the prefix by %q instead of removing it", to), true
				case !all:
					return false, "removes only the first occurrence", true
				}
				return true, "", true
			}
		}
		return false, "template function " + id.Ident + " has no return", true
	}
	for _, c := range pipe.Cmds {
		if ok, why, t := check(c); t {
			return ok, why
		}
	}
	return false, "the command is emitted without removing " + fmt.Sprintf("%q", prefix)
}
