package rules

import (
	"fmt"
	"sort"
	"strings"

	"golang.org/x/tools/go/ssa"

	"scicheck/internal/core"
)

func init() { Registry["C09"] = c09 }

func c09(e *Env) {
	r := e.R
	r.Explanation = "Error fate on every failure branch (branches no test takes): (R1) every Fail*/Failf helper of the library is no-return and ends the process through os.Exit with a constant non-zero status; (R2) in Task.Execute's expanded call tree a non-nil error from the command execution, from creating the temp/output/audit directories, from marshalling or writing the audit record, from renaming a declared output and from removing the temp dir makes a never-returning call inevitable (scenario engine, one scenario per call site); the missing-output case is C01.R5 and is re-evaluated here; (R3) while a task is formed: missing in-IP / out-IP / empty parameter / empty tag / unknown placeholder type, an invalid output path and a NewFileIP error make exit inevitable before NewTask returns; (R4) the library contains no recover(); (R5) Task.Execute's call tree sends nothing on a port, so a dependant can only receive outputs after Done (ordering of Done itself: C05.R4)."
	r.NotDecided = "exit status of the OS process beyond the constant passed to os.Exit; errors while moving *extra* (undeclared) files are only logged by the library, which is outside the statement."
	a := e.anchors()
	if !a.ok() {
		return
	}
	p := e.P
	// ---- R1
	var names []string
	byName := map[string]*ssa.Function{}
	for fn := range p.NoRet {
		if p.IsLib(fn) {
			names = append(names, core.FuncName(fn))
			byName[core.FuncName(fn)] = fn
		}
	}
	sort.Strings(names)
	ob1 := r.Ob("R1", "Fail*:os.Exit(≠0)", "every never-returning helper of the library terminates the process through os.Exit with a constant non-zero status (not Goexit, not a panic that could be recovered, not exit 0)")
	for _, nm := range names {
		fn := byName[nm]
		codes, all := p.ExitCodes(fn, nil)
		bad := !all || len(codes) == 0
		for _, c := range codes {
			if c == 0 {
				bad = true
			}
		}
		ob1.Check(!bad, e.where(fn.Blocks[0].Instrs[0]), fmt.Sprintf("%s→exit%v", nm, codes), fmt.Sprintf("%s does not always end in os.Exit(non-zero): codes %v, all paths through os.Exit: %v", nm, codes, all))
	}
	if len(names) < 4 {
		ob1.Unknown("-", fmt.Sprintf("only %d never-returning library helpers found (Fail, Failf and the per-type Fail/Failf methods expected)", len(names)))
	}
	// every Fail / Failf of the library (exported names: package functions and the methods of Task, Process, ports,
	// IPs, Workflow) is such a helper: one that can return lets the failing caller continue
	nFail := 0
	for _, fn := range p.LibFuncs {
		if (fn.Name() == "Fail" || fn.Name() == "Failf") && fn.Blocks != nil && fn.Synthetic == "" {
			nFail++
			if !p.NoRet[fn] {
				ob1.Fail(e.where(fn.Blocks[0].Instrs[0]), core.FuncName(fn)+" can return: the code that reports a fatal condition through it carries on (an unconnected port, a duplicate port name, a missing remote port are then ignored)")
			}
		}
	}
	if nFail < 10 {
		ob1.Unknown("-", fmt.Sprintf("only %d Fail/Failf helpers found in the library (18 on the pinned tree)", nFail))
	}
	top := p.Func("Fail")
	if top == nil || !p.NoRet[top] {
		ob1.Fail("common.go", "the package-level Fail is not a never-returning function any more")
	}
	// ---- R2
	sp := e.spine()
	if sp == nil {
		return
	}
	g := sp.g
	isMarshal := func(n *core.Node) bool {
		return n.IsCallTo("encoding/json.MarshalIndent", "encoding/json.Marshal", "(*encoding/json.Encoder).Encode")
	}
	type site struct {
		n    *core.Node
		kind string
	}
	var sites []site
	for _, n := range g.Nodes {
		if inCallback(n) {
			continue
		}
		switch {
		case isExec(n):
			sites = append(sites, site{n, "command"})
		case isMkdir(n):
			sites = append(sites, site{n, "mkdir:" + pathClass(e.argSym(n, 0))})
		case isMarshal(n):
			sites = append(sites, site{n, "audit-marshal"})
		case isWriteFile(n):
			sites = append(sites, site{n, "write:" + pathClass(e.argSym(n, 0))})
		case isRename(n):
			sites = append(sites, site{n, "rename-declared"})
		case isRemoveAll(n):
			sites = append(sites, site{n, "remove-tempdir"})
		}
	}
	seenKinds := map[string]bool{}
	for _, s := range sites {
		seenKinds[strings.SplitN(s.kind, ":", 2)[0]] = true
		ob := r.Ob("R2", "Execute:"+s.kind, "a non-nil error from this call makes a never-returning call inevitable (the workflow stops, Done is not signalled)")
		res := g.Run(core.Scenario{Start: s.n, Result: errResult(s.n, core.ErrOther, false)})
		if w := res.NormalReturn(); w != nil {
			ob.Fail(g.Where(s.n), "with a non-nil error from "+nodeDesc(s.n)+" Task.Execute can still return normally: the failure is silent")
		} else if w := res.Reaches(a.isDoneSend); w != nil {
			ob.Fail(g.Where(s.n), "with a non-nil error from "+nodeDesc(s.n)+" Done is still signalled: dependants run on a failed task")
		} else {
			ob.OK(g.Where(s.n), "err != nil ⇒ exit")
		}
	}
	for _, k := range []string{"command", "mkdir", "audit-marshal", "write", "rename-declared", "remove-tempdir"} {
		if !seenKinds[k] {
			r.Ob("R2", "Execute:"+k, "a failure of this step is fatal").Unknown(core.FuncName(a.execute), "no call site of this kind found in Execute's call tree")
		}
	}
	// missing output (same rule as C01.R5)
	ob2m := r.Ob("R2", "Execute:missing-output", "a declared non-streaming output missing in the temp dir makes exit inevitable (no rename, no Done)")
	for _, n := range sp.ensureStat {
		sc := core.Scenario{Start: n, Result: errResult(n, core.ErrNotExist, false), FieldLoad: e.assumeStream(false)}
		res := g.Run(sc)
		if res.NormalReturn() != nil || res.Reaches(isRename) != nil || res.Reaches(a.isDoneSend) != nil {
			ob2m.Fail(g.Where(n), "with a declared output missing, a rename, the Done signal or a normal return is still reachable")
		} else {
			ob2m.OK(g.Where(n), "ENOENT ⇒ exit")
		}
	}
	if len(sp.ensureStat) == 0 {
		ob2m.Unknown("-", "no existence test of declared outputs found")
	}
	ob2a := r.Ob("R2", "Execute:missing-output-all", "the existence test covers every declared non-streaming output (its loop over Task.OutIPs is not left early), so no missing output escapes it")
	for _, n := range sp.ensureStat {
		if e.forAllOutputs(ob2a, g, n, func(m *core.Node) bool { return m == n }, core.Scenario{FieldLoad: e.assumeStream(false)}, "existence test") {
			ob2a.OK(g.Where(n), "complete range over Task.OutIPs")
		}
	}
	// all-or-nothing: no output of a task with a missing output is published (shared with C01.R5)
	e.ensureBeforeRename("R2", "Execute:missing-output≺any-rename")
	// ---- R3 forming the task
	e.c09FormTask()
	// ---- R4 no recover
	ob4 := r.Ob("R4", "library:recover=∅", "no function of the library calls recover() (a failing task's panic or exit cannot be swallowed)")
	nScanned := len(p.LibFuncs)
	for _, in := range findRecover(p.LibFuncs) {
		ob4.Fail(e.where(in), "recover() in "+core.FuncName(in.Parent()))
	}
	e.positiveControls("recover")
	ob4.OK("-", fmt.Sprintf("%d library functions scanned", nScanned))
	// ---- R5 no port send below Execute
	ob5 := r.Ob("R5", "Execute:no-port-send", "Task.Execute's call tree sends nothing on a port: outputs reach dependants only through the process, after Done")
	n5 := 0
	for _, n := range g.Nodes {
		if s, ok := n.Instr.(*ssa.Send); ok {
			n5++
			if a.isFieldLoad(s.Chan, a.doneField) || a.isFieldLoad(s.Chan, a.slotField) {
				continue
			}
			ob5.Fail(g.Where(n), "channel send "+s.String()+" inside Task.Execute's call tree")
		}
	}
	ob5.OK("-", fmt.Sprintf("%d channel sends in Execute's tree, all on Task.Done or the slot channel", n5))
}

// pathClass names the kind of path an effect targets (stable under restructuring of the expression).
func pathClass(s *core.Sym) string {
	switch {
	case s == nil:
		return "?"
	case isTempDirRoot(s):
		return "temp-dir"
	case symHasCall(s, fnAuditPath):
		return "audit-file"
	case symHasCall(s, fnTempDir):
		return "inside-temp-dir"
	case symHasCall(s, fnPath) || symHasCall(s, fnFifoPath):
		return "final-path"
	}
	return "other"
}

func shortTpl(s *core.Sym) string {
	if s == nil {
		return "?"
	}
	t := s.Template()
	t = strings.ReplaceAll(t, "val∈$t.OutIPs", "oip")
	t = strings.ReplaceAll(t, "path/filepath.", "")
	if len(t) > 90 {
		t = t[:90]
	}
	return t
}

// c09FormTask: R3 - forming the task.
func (e *Env) c09FormTask() {
	r := e.R
	a := e.anchors()
	e.formatterMissingRule("R3")
	obDef := r.Ob("R3", "formatter:default", "a placeholder type matched by no arm makes exit inevitable (the placeholder is never replaced by an empty string)")
	fi := e.formatter()
	if fi.ok(obDef) {
		obDef.Check(e.fmtDefaultFatal(obDef), fi.regexPos, "unknown placeholder type ⇒ exit", "a placeholder type matched by no arm does not stop the workflow: the placeholder would be replaced by an empty string")
	}
	nfip := e.P.Func("NewFileIP")
	g := fi.g
	if g == nil {
		return
	}
	obN := r.Ob("R3", "NewTask:NewFileIP-error", "an error from creating an out-IP (invalid output path) makes exit inevitable")
	n0 := 0
	for _, n := range g.Select(func(n *core.Node) bool { return n.IsCallToFn(nfip) }) {
		n0++
		res := g.Run(core.Scenario{Start: n, Result: errResult(n, core.ErrOther, false)})
		obN.Check(res.NormalReturn() == nil, g.Where(n), "NewFileIP error ⇒ exit", "NewTask continues with a nil out-IP after NewFileIP failed")
	}
	if n0 == 0 {
		obN.Unknown(core.FuncName(a.newTask), "NewTask's call tree does not call NewFileIP")
	}
	obV := r.Ob("R3", "NewFileIP:invalid-path", "a path outside the allowed alphabet makes NewFileIP return a non-nil error")
	if nfip != nil {
		gf := e.XG(nfip)
		if gf != nil {
			n1 := 0
			for _, n := range gf.Select(func(n *core.Node) bool { return n.IsCallTo("(*regexp.Regexp).MatchString", "regexp.MatchString") }) {
				n1++
				res := gf.Run(core.Scenario{Start: n, Result: core.BoolAV(false)})
				bad := res.Reaches(func(m *core.Node) bool {
					if m.Kind != core.KRootRet {
						return false
					}
					ret := m.Instr.(*ssa.Return)
					last := ret.Results[len(ret.Results)-1]
					k, ok := last.(*ssa.Const)
					return ok && k.Value == nil
				})
				obV.Check(bad == nil, gf.Where(n), "no match ⇒ error returned", "with a path that does not match the allowed alphabet NewFileIP can return a nil error")
			}
			if n1 == 0 {
				obV.Unknown(core.FuncName(nfip), "no regular-expression match found in NewFileIP's call tree")
			}
		}
	}
}
