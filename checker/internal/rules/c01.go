package rules

import (
	"fmt"
	"strings"

	"golang.org/x/tools/go/ssa"

	"scicheck/internal/core"
)

func init() { Registry["C01"] = c01 }

func c01(e *Env) {
	r := e.R
	r.Explanation = "Decides, for every path of Task.Execute's expanded call tree (so for every kill instant and every failure branch), that nothing can create or modify a file at a declared final path except one os.Rename reached only after the command / Go function returned without error and every declared output was found in the temp dir: (R1) the {o:} placeholder is substituted with the temp path, never the final or FIFO path; (R2) the shell script is `cd <task temp dir> && <Task.Command> ...` (temp dir first, joined by &&); (R3) command precedes every rename, temp-dir creation precedes the command; (R4) a non-nil error of the command execution makes a never-returning call inevitable with no rename, no Done signal; (R5) a missing declared output (ENOENT, non-streaming) makes exit inevitable before any rename, the existence test covers every output (no early loop exit) and the whole test precedes the first rename; (R6) who-may-write: every file-creating call in Execute's tree targets the temp dir, the audit side-car, or is the finalising rename; FileIP's own writer API is checked the same way; (R7) the rename source is <temp dir>/<TempPath(x)> and the destination Path(x) of the same x."
	r.NotDecided = "atomicity of rename(2) itself (assumed, same file system); what a user command or user Go function writes on its own initiative (e.g. to an absolute path); partial writes inside the temp dir (allowed by the property)."
	a := e.anchors()
	if !a.ok() {
		return
	}
	sp := e.spine()
	if sp == nil {
		return
	}
	g := sp.g
	// ---- R1 formatter arm "o"
	e.fmtArmO("R1")
	// ---- R2 script template
	ob2 := r.Ob("R2", "runner:script", "the command runs inside the task's temp dir: script = `cd <Task.TempDir> && <Task.Command> ...` or Cmd.Dir = Task.TempDir")
	nCmd := 0
	for _, n := range g.Select(func(n *core.Node) bool { return n.IsCallTo("os/exec.Command", "os/exec.CommandContext") }) {
		// only the runner: its Cmd must flow to an exec node of the spine
		usedByRunner := false
		for _, x := range sp.runs {
			if isExec(x) && x.Ctx == n.Ctx {
				usedByRunner = true
			}
		}
		if !usedByRunner {
			continue
		}
		nCmd++
		args := e.xargSym(n, len(n.Call.Args)-1)
		if args == nil || args.Op != "list" || len(args.Args) == 0 {
			ob2.Unknown(g.Where(n), "argument list of exec.Command not recognised: "+fmt.Sprint(args))
			continue
		}
		script := args.Args[len(args.Args)-1]
		fl := script.Flat()
		iDir, iCmd := -1, -1
		for i, p := range fl {
			if isTempDirRoot(p) && iDir < 0 {
				iDir = i
			}
			if p.Op == "field" && p.Name == "Task.Command" && iCmd < 0 {
				iCmd = i
			}
		}
		tpl := script.Template()
		switch {
		case iCmd < 0:
			ob2.Fail(g.Where(n), "the executed script does not contain Task.Command: "+tpl)
		case iDir < 0 || iDir > iCmd:
			ob2.Fail(g.Where(n), "the script does not change into the task's temp dir before the command: "+tpl)
		default:
			okCd := iDir > 0 && fl[iDir-1].Op == "lit" && strings.HasSuffix(strings.TrimRight(fl[iDir-1].Lit, " "), "cd") && strings.TrimSpace(strings.TrimSuffix(strings.TrimRight(fl[iDir-1].Lit, " "), "cd")) == ""
			sep := ""
			allLit := true
			for _, p := range fl[iDir+1 : iCmd] {
				if p.Op != "lit" {
					allLit = false
				}
				sep += p.Lit
			}
			switch {
			case !okCd:
				ob2.Fail(g.Where(n), "the temp dir is not the operand of a leading `cd`: "+tpl)
			case !allLit || strings.TrimSpace(sep) != "&&":
				ob2.Fail(g.Where(n), fmt.Sprintf("`cd <temp dir>` and the command are joined by %q instead of `&&` (if cd fails the command would run in the working directory): %s", strings.TrimSpace(sep), tpl))
			default:
				ob2.OK(g.Where(n), tpl)
			}
		}
	}
	if nCmd == 0 {
		ob2.Unknown(core.FuncName(a.execute), "no exec.Command feeding the command runner found")
	}
	// ---- R3 ordering
	const (
		evRun core.Bits = 1 << iota
		evMkTemp
		evEnsureDone
		evRename
	)
	ensureExit := map[*core.Node]bool{}
	for _, s := range sp.ensureStat {
		ex, _ := loopExitNodes(g, s)
		for _, x := range ex {
			ensureExit[x] = true
		}
	}
	isMkTemp := nodeSet(sp.mkTemp)
	tf := func(n *core.Node) core.Transfer {
		var b core.Bits
		if a.isRun(n) {
			b |= evRun
		}
		if isMkTemp[n] {
			b |= evMkTemp
		}
		if ensureExit[n] {
			b |= evEnsureDone
		}
		if isRename(n) {
			b |= evRename
		}
		return core.Transfer{Gen: b}
	}
	must := g.Forward(tf, true)
	ob3a := r.Ob("R3", "Execute:run≺rename", "on every path the command / Go function has been executed before any os.Rename")
	renames := append(append([]*core.Node{}, sp.declRename...), sp.extraRename...)
	for _, n := range renames {
		ob3a.Check(must[n]&evRun != 0, g.Where(n), "command precedes rename", "a path reaches os.Rename without having executed the command")
	}
	if len(renames) == 0 {
		ob3a.Unknown("-", "no os.Rename in Execute's call tree: outputs would never be finalised")
	}
	ob3b := r.Ob("R3", "Execute:mkTemp≺run", "the task's temp dir is created on every path before the command runs")
	for _, n := range sp.runs {
		ob3b.Check(must[n]&evMkTemp != 0, g.Where(n), "MkdirAll(TempDir) precedes "+nodeDesc(n), "a path reaches "+nodeDesc(n)+" without creating the temp dir")
	}
	// ---- R4 command failure is fatal
	ob4 := r.Ob("R4", "runner:error⇒exit", "a non-nil error from the command execution makes a never-returning call inevitable; no rename and no Done signal is reachable")
	for _, n := range sp.runs {
		if !isExec(n) {
			continue
		}
		res := g.Run(core.Scenario{Start: n, Result: errResult(n, core.ErrOther, false)})
		if w := res.Reaches(isRename); w != nil {
			ob4.Fail(g.Where(n), "after a failed command an os.Rename is still reachable at "+g.Where(w))
		} else if w := res.NormalReturn(); w != nil {
			ob4.Fail(g.Where(n), "after a failed command Task.Execute can return normally (the failure is not fatal)")
		} else if w := res.Reaches(a.isDoneSend); w != nil {
			ob4.Fail(g.Where(n), "after a failed command Done is still signalled at "+g.Where(w))
		} else {
			ob4.OK(g.Where(n), "err != nil ⇒ exit")
		}
	}
	// ---- R5 missing output is fatal before any rename
	ob5 := r.Ob("R5", "ensure:missing⇒exit", "a declared non-streaming output missing in the temp dir (ENOENT) makes exit inevitable before any rename")
	ob5c := r.Ob("R5", "ensure:all-outputs", "the existence test is performed for every declared output (loop over Task.OutIPs not left early, test not skipped for non-streaming outputs)")
	noStream := core.Scenario{FieldLoad: e.assumeStream(false)}
	for _, n := range sp.ensureStat {
		sc := noStream
		sc.Start, sc.Result = n, errResult(n, core.ErrNotExist, false)
		res := g.Run(sc)
		if w := res.Reaches(isRename); w != nil {
			ob5.Fail(g.Where(n), "with a declared output missing an os.Rename is still reachable at "+g.Where(w)+" (sibling outputs of the failed task would be published)")
		} else if w := res.NormalReturn(); w != nil {
			ob5.Fail(g.Where(n), "with a declared output missing Task.Execute can return normally")
		} else {
			ob5.OK(g.Where(n), "ENOENT ⇒ exit before any rename")
		}
		if e.forAllOutputs(ob5c, g, n, func(m *core.Node) bool { return m == n }, noStream, "existence test") {
			ob5c.OK(g.Where(n), "complete range over Task.OutIPs")
		}
	}
	if len(sp.ensureStat) == 0 {
		ob5.Unknown(core.FuncName(a.execute), "no os.Stat of <Task.TempDir>/<FileIP.TempPath> over Task.OutIPs found in Execute's call tree")
		ob5c.Unknown(core.FuncName(a.execute), "no existence test found")
	}
	ob5b := r.Ob("R5", "Execute:ensure≺rename", "the existence test over all outputs has completed on every path before the first rename")
	for _, n := range renames {
		ob5b.Check(must[n]&evEnsureDone != 0, g.Where(n), "ensure loop completed before rename", "a path reaches os.Rename without the completed existence test")
	}
	// ---- R6 who may write
	e.c01WhoMayWrite(sp)
	// ---- R7 rename templates
	ob7 := r.Ob("R7", "finalize:rename-template", "declared outputs are renamed from <temp dir>/<TempPath(x)> to Path(x) of the same x")
	for _, n := range sp.declRename {
		src, dst := e.xargSym(n, 0), e.xargSym(n, 1)
		fl := src.Flat()
		ok := len(fl) == 3 && fl[1].Op == "lit" && fl[1].Lit == "/" && isCallSym(fl[2], fnTempPath) && isCallSym(dst, fnPath) &&
			len(fl[2].Args) == 1 && len(dst.Args) == 1 && fl[2].Args[0].String() == dst.Args[0].String() && isTempDirRoot(fl[0])
		ob7.Check(ok, g.Where(n), src.Template()+" → "+dst.Template(), "rename "+src.Template()+" → "+dst.Template()+" is not <temp dir>/<TempPath(x)> → <Path(x)>")
	}
	if len(sp.declRename) == 0 {
		ob7.Unknown("-", "no declared-output rename found")
	}
}

func nodeSet(ns []*core.Node) map[*core.Node]bool {
	m := map[*core.Node]bool{}
	for _, n := range ns {
		m[n] = true
	}
	return m
}

// assumeStream: scenario assumption "every load of the streaming flag yields v".
func (e *Env) assumeStream(v bool) func(f *typesVar) (core.AV, bool) {
	a := e.anchors()
	return func(f *typesVar) (core.AV, bool) {
		if f == a.streamFld {
			return core.BoolAV(v), true
		}
		return core.Top, false
	}
}

// c01WhoMayWrite: R6.
func (e *Env) c01WhoMayWrite(sp *spine) {
	r := e.R
	g := sp.g
	ob := r.Ob("R6", "Execute:writers", "every file-creating call in Task.Execute's call tree targets the task's temp dir, the audit side-car <Path>.audit.json, or is the finalising rename (declared output or extra file of the walk)")
	declared := nodeSet(sp.declRename)
	extra := nodeSet(sp.extraRename)
	for _, n := range g.Nodes {
		if !(isWriteFile(n) || isCreate(n) || isRename(n)) {
			continue
		}
		idx := 0
		if isRename(n) || n.IsCallTo("os.Link", "os.Symlink") {
			idx = 1
		}
		dst := e.xargSym(n, idx)
		fl := dst.Flat()
		switch {
		case declared[n] && isCallSym(dst, fnPath):
			ob.OK(g.Where(n), "finalising rename → "+dst.Template())
		case extra[n]:
			ob.OK(g.Where(n), "extra file of the temp-dir walk → "+dst.Template())
		case isCallSym(dst, fnAuditPath):
			ob.OK(g.Where(n), "audit side-car "+dst.Template())
		case len(fl) > 0 && isTempDirRoot(fl[0]):
			ob.OK(g.Where(n), "inside the temp dir: "+dst.Template())
		default:
			ob.Fail(g.Where(n), nodeDesc(n)+" writes "+dst.Template()+", which is not confined to the task's temp dir")
		}
	}
	// FileIP's writer API (used by Go-function tasks): same discipline
	ob2 := r.Ob("R6", "(*FileIP).Write", "FileIP's own file-writing method (the output API for Go-function tasks) writes inside a task temp dir, not relative to the working directory")
	ipT := e.P.Named("scipipe", "FileIP")
	found := false
	for _, fn := range e.P.LibFuncs {
		if fn.Signature.Recv() == nil || ipT == nil || typeNamed(fn.Signature.Recv().Type()) != ipT {
			continue
		}
		for _, b := range fn.Blocks {
			for _, in := range b.Instrs {
				c, ok := in.(*ssa.Call)
				if !ok || c.Call.StaticCallee() == nil {
					continue
				}
				nm := c.Call.StaticCallee().String()
				if nm != "io/ioutil.WriteFile" && nm != "os.WriteFile" && nm != "os.Create" {
					continue
				}
				dst := e.symbolizer().InFunc(fn, c.Call.Args[0])
				if isCallSym(dst, fnAuditPath) {
					continue // the audit side-car, covered above
				}
				found = true
				fl := dst.Flat()
				key := core.FuncName(fn)
				o := ob2
				if key != "(*FileIP).Write" {
					o = r.Ob("R6", key, "FileIP file-writing method writes inside a task temp dir")
				}
				if len(fl) > 1 && (fl[0].Op == "param" || isTempDirRoot(fl[0])) {
					o.OK(e.where(c), dst.Template())
				} else {
					o.Fail(e.where(c), core.FuncName(fn)+" writes "+dst.Template()+" relative to the working directory: for a plain relative path that IS the final path, so a Go-function task's output is visible (and stays) at its final path although the task has not finished or later fails")
				}
			}
		}
	}
	if !found {
		ob2.OK("-", "FileIP has no direct file-writing method besides the audit writer")
	}
}
