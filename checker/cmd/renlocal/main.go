// renlocal: development tool of the verifier's regression corpus (not part of any check). It renames the
// receivers and parameters of the functions of Go source files, scope-correctly (go/ast object resolution),
// to produce behaviour-preserving "rename" variants of the analysed repository.
//
//	renlocal old=new[,old=new...] file.go...
package main

import (
	"fmt"
	"go/ast"
	"go/format"
	"go/parser"
	"go/token"
	"os"
	"strings"
)

func main() {
	if len(os.Args) < 3 {
		fmt.Fprintln(os.Stderr, "usage: renlocal old=new[,old=new...] file.go...")
		os.Exit(2)
	}
	ren := map[string]string{}
	for _, kv := range strings.Split(os.Args[1], ",") {
		p := strings.SplitN(kv, "=", 2)
		ren[p[0]] = p[1]
	}
	for _, fn := range os.Args[2:] {
		fset := token.NewFileSet()
		f, err := parser.ParseFile(fset, fn, nil, parser.ParseComments)
		if err != nil {
			fmt.Fprintln(os.Stderr, err)
			os.Exit(1)
		}
		// objects to rename: receivers and parameters (of declarations and literals) with a listed name
		objs := map[*ast.Object]string{}
		collect := func(fl *ast.FieldList) {
			if fl == nil {
				return
			}
			for _, fld := range fl.List {
				for _, nm := range fld.Names {
					if to, ok := ren[nm.Name]; ok && nm.Obj != nil {
						objs[nm.Obj] = to
					}
				}
			}
		}
		ast.Inspect(f, func(n ast.Node) bool {
			switch x := n.(type) {
			case *ast.FuncDecl:
				collect(x.Recv)
				collect(x.Type.Params)
			case *ast.FuncLit:
				collect(x.Type.Params)
			}
			return true
		})
		ast.Inspect(f, func(n ast.Node) bool {
			if id, ok := n.(*ast.Ident); ok && id.Obj != nil {
				if to, ok := objs[id.Obj]; ok {
					id.Name = to
				}
			}
			return true
		})
		out, err := os.Create(fn)
		if err != nil {
			fmt.Fprintln(os.Stderr, err)
			os.Exit(1)
		}
		if err := format.Node(out, fset, f); err != nil {
			fmt.Fprintln(os.Stderr, err)
			os.Exit(1)
		}
		out.Close()
	}
}
