// mutgen: mechanical mutants of scipipe's library source, for assessing the checker (never part of a check).
//
// usage: mutgen -repo /repo > mutants.json
//
// Emits one JSON object per line: {id, file, start, end, repl, op, func, line, orig}. A mutant is the textual
// replacement of bytes [start,end) of file by repl. Operators: negate-if, relop, logop, del-stmt, del-go, del-defer,
// break-continue, int-const, str-const, method-swap (same receiver type, identical signature), field-swap (same
// struct, identical field type), arg-swap (adjacent arguments of identical type), nil-err (err != nil -> false).
package main

import (
	"crypto/sha1"
	"encoding/hex"
	"encoding/json"
	"flag"
	"fmt"
	"go/ast"
	"go/token"
	"go/types"
	"os"
	"path/filepath"
	"sort"
	"strings"

	"golang.org/x/tools/go/packages"
)

type Mut struct {
	ID    string `json:"id"`
	File  string `json:"file"`
	Start int    `json:"start"`
	End   int    `json:"end"`
	Repl  string `json:"repl"`
	Op    string `json:"op"`
	Func  string `json:"func"`
	Line  int    `json:"line"`
	Orig  string `json:"orig"`
}

var skipFiles = map[string]bool{"log.go": true, "palettes.go": true, "const.go": true}
var skipFuncs = map[string]bool{"DotGraph": true, "PlotGraph": true, "PlotGraphPDF": true, "String": true,
	"printNewUsage": true, "printHelp": true, "main": true, "InitLog": true, "InitLogDebug": true, "InitLogAudit": true,
	"InitLogInfo": true, "InitLogWarning": true, "InitLogError": true, "InitLogAuditToFile": true, "InitLogCustom": true,
	"Audit": true, "Auditf": true, "Debug": true, "Debugf": true, "Info": true, "Infof": true, "Warn": true, "Warnf": true}

func main() {
	repo := flag.String("repo", "/repo", "repository root")
	neutral := flag.Bool("neutral", false, "emit behaviour-preserving rewrites instead of mutants (every check must stay silent on them)")
	flag.Parse()
	cfg := &packages.Config{Mode: packages.LoadSyntax, Dir: *repo, Env: append(os.Environ(), "GOFLAGS=-mod=mod", "GOPROXY=off", "GOSUMDB=off", "GOTOOLCHAIN=local", "GOWORK=off")}
	pkgs, err := packages.Load(cfg, ".", "./components", "./cmd/scipipe")
	if err != nil {
		fmt.Fprintln(os.Stderr, err)
		os.Exit(2)
	}
	var muts []Mut
	for _, pkg := range pkgs {
		if len(pkg.Errors) > 0 {
			fmt.Fprintln(os.Stderr, pkg.Errors)
			os.Exit(2)
		}
		for _, f := range pkg.Syntax {
			fn := pkg.Fset.Position(f.Pos()).Filename
			rel, _ := filepath.Rel(*repo, fn)
			if strings.HasSuffix(fn, "_test.go") || skipFiles[filepath.Base(fn)] {
				continue
			}
			src, err := os.ReadFile(fn)
			if err != nil {
				panic(err)
			}
			m := &mutator{pkg: pkg, fset: pkg.Fset, src: src, rel: rel, neutral: *neutral}
			for _, d := range f.Decls {
				fd, ok := d.(*ast.FuncDecl)
				if !ok || fd.Body == nil || skipFuncs[fd.Name.Name] {
					continue
				}
				m.fn = fd.Name.Name
				if fd.Recv != nil && len(fd.Recv.List) > 0 {
					m.fn = types.ExprString(fd.Recv.List[0].Type) + "." + fd.Name.Name
				}
				m.walk(fd.Body)
			}
			muts = append(muts, m.out...)
		}
	}
	rank := func(f string) int {
		for i, x := range []string{"task.go", "process.go", "port.go", "workflow.go", "ip.go", "sink.go", "baseprocess.go", "common.go", "components/", "audit.go", "cmd/scipipe/audit_reports.go"} {
			if strings.HasPrefix(f, x) {
				return i
			}
		}
		return 99
	}
	sort.SliceStable(muts, func(i, j int) bool {
		if ri, rj := rank(muts[i].File), rank(muts[j].File); ri != rj {
			return ri < rj
		}
		if muts[i].File != muts[j].File {
			return muts[i].File < muts[j].File
		}
		return muts[i].Start < muts[j].Start
	})
	enc := json.NewEncoder(os.Stdout)
	n := 0
	for i := range muts {
		if rank(muts[i].File) == 99 {
			continue // CLI argument parsing, scaffolding
		}
		h := sha1.Sum([]byte(fmt.Sprintf("%s:%d:%d:%s", muts[i].File, muts[i].Start, muts[i].End, muts[i].Repl)))
		muts[i].ID = "M" + hex.EncodeToString(h[:4])
		enc.Encode(muts[i])
		n++
	}
	fmt.Fprintf(os.Stderr, "%d mutants emitted\n", n)
	fmt.Fprintf(os.Stderr, "%d mutants\n", len(muts))
}

type mutator struct {
	pkg     *packages.Package
	fset    *token.FileSet
	src     []byte
	rel     string
	fn      string
	out     []Mut
	neutral bool
}

func (m *mutator) off(p token.Pos) int { return m.fset.Position(p).Offset }
func (m *mutator) text(n ast.Node) string {
	return string(m.src[m.off(n.Pos()):m.off(n.End())])
}
func (m *mutator) add(op string, start, end token.Pos, repl string) {
	s, e := m.off(start), m.off(end)
	orig := string(m.src[s:e])
	if orig == repl {
		return
	}
	if len(orig) > 120 {
		orig = orig[:120] + "…"
	}
	m.out = append(m.out, Mut{File: m.rel, Start: s, End: e, Repl: repl, Op: op, Func: m.fn, Line: m.fset.Position(start).Line, Orig: orig})
}

func isLogCall(e ast.Expr) bool {
	c, ok := e.(*ast.CallExpr)
	if !ok {
		return false
	}
	s := types.ExprString(c.Fun)
	for _, p := range []string{"Debug.", "Info.", "Audit.", "Warning.", "Error.", "fmt.Print", "log.Print", "t.Auditf", "t.Debugf", "t.Infof", "t.Warnf", "p.Auditf", "p.Debugf", "p.Infof", "p.Warnf", "wf.Auditf", "wf.Debugf", "wf.Infof", "wf.Warnf", "ip.Debugf", "ip.Auditf", "ip.Infof", "ip.Warnf", "pt.Debugf", "pt.Warnf", "pt.Infof", "pip.Debugf", "pop.Debugf"} {
		if strings.HasPrefix(s, p) {
			return true
		}
	}
	return false
}

// isMsgCall: Fail/Failf/Check/CheckWithMsg/errWrap...: the arguments only make up a message.
func isMsgCall(c *ast.CallExpr) bool {
	name := ""
	switch f := c.Fun.(type) {
	case *ast.SelectorExpr:
		name = f.Sel.Name
	case *ast.Ident:
		name = f.Name
	}
	switch name {
	case "Fail", "Failf", "errWrap", "errWrapf", "Errorf", "New", "Sprintf", "Println", "Printf", "Fatalln", "Fatalf":
		return true
	}
	return false
}

func (m *mutator) walk(body *ast.BlockStmt) {
	if m.neutral {
		m.walkNeutral(body)
		return
	}
	ast.Inspect(body, func(n ast.Node) bool {
		switch x := n.(type) {
		case *ast.CallExpr:
			if isLogCall(x) {
				return false // nothing inside a log call matters
			}
			if isMsgCall(x) {
				m.call(x) // the call itself may be swapped (Failf -> Auditf), its message arguments are not mutated
				return false
			}
			m.call(x)
		case *ast.IfStmt:
			m.add("negate-if", x.Cond.Pos(), x.Cond.End(), "!("+m.text(x.Cond)+")")
		case *ast.ForStmt:
			if x.Cond != nil {
				if _, ok := x.Cond.(*ast.BinaryExpr); !ok {
					m.add("negate-for", x.Cond.Pos(), x.Cond.End(), "!("+m.text(x.Cond)+")")
				}
			}
		case *ast.BinaryExpr:
			m.binary(x)
		case *ast.ExprStmt:
			if !isLogCall(x.X) {
				m.add("del-stmt", x.Pos(), x.End(), "_ = 0")
			}
		case *ast.IncDecStmt:
			m.add("del-stmt", x.Pos(), x.End(), "_ = 0")
		case *ast.SendStmt:
			m.add("del-stmt", x.Pos(), x.End(), "_ = 0")
		case *ast.AssignStmt:
			if x.Tok != token.DEFINE && len(x.Lhs) == 1 {
				m.add("del-stmt", x.Pos(), x.End(), "_ = 0")
			}
		case *ast.GoStmt:
			m.add("del-go", x.Pos(), x.Call.Pos(), "")
			m.add("del-stmt", x.Pos(), x.End(), "_ = 0")
		case *ast.DeferStmt:
			m.add("del-defer", x.Pos(), x.Call.Pos(), "")
			m.add("del-stmt", x.Pos(), x.End(), "_ = 0")
		case *ast.BranchStmt:
			if x.Label == nil {
				switch x.Tok {
				case token.BREAK:
					m.add("break-continue", x.Pos(), x.End(), "continue")
				case token.CONTINUE:
					m.add("break-continue", x.Pos(), x.End(), "break")
				}
			}
		case *ast.ReturnStmt:
			if len(x.Results) == 1 {
				if id, ok := x.Results[0].(*ast.Ident); ok && (id.Name == "true" || id.Name == "false") {
					r := "true"
					if id.Name == "true" {
						r = "false"
					}
					m.add("bool-const", id.Pos(), id.End(), r)
				}
			}
		case *ast.BasicLit:
			m.lit(x)
		case *ast.SelectorExpr:
			m.field(x)
		}
		return true
	})
}

func (m *mutator) binary(x *ast.BinaryExpr) {
	swap := map[token.Token][]string{
		token.LSS: {"<="}, token.LEQ: {"<"}, token.GTR: {">="}, token.GEQ: {">"},
		token.EQL: {"!="}, token.NEQ: {"=="}, token.LAND: {"||"}, token.LOR: {"&&"},
		token.ADD: {"-"}, token.SUB: {"+"},
	}
	reps, ok := swap[x.Op]
	if !ok {
		return
	}
	if x.Op == token.ADD {
		if t := m.pkg.TypesInfo.TypeOf(x); t != nil {
			if b, ok := t.Underlying().(*types.Basic); ok && b.Info()&types.IsString != 0 {
				return
			}
		}
	}
	op := "relop"
	if x.Op == token.LAND || x.Op == token.LOR {
		op = "logop"
	}
	if x.Op == token.ADD || x.Op == token.SUB {
		op = "arith"
	}
	for _, r := range reps {
		m.add(op, x.OpPos, x.OpPos+token.Pos(len(x.Op.String())), r)
	}
}

func (m *mutator) lit(x *ast.BasicLit) {
	switch x.Kind {
	case token.INT:
		switch x.Value {
		case "0":
			m.add("int-const", x.Pos(), x.End(), "1")
		case "1":
			m.add("int-const", x.Pos(), x.End(), "0")
			m.add("int-const", x.Pos(), x.End(), "2")
		default:
			if strings.HasPrefix(x.Value, "0") && len(x.Value) == 4 {
				return // file permissions
			}
			m.add("int-const", x.Pos(), x.End(), "("+x.Value+"+1)")
			m.add("int-const", x.Pos(), x.End(), "("+x.Value+"-1)")
		}
	case token.STRING:
		v := x.Value
		if len(v) >= 2 && len(v) <= 5 && v[0] == '"' {
			if v == `""` {
				m.add("str-const", x.Pos(), x.End(), `"x"`)
			} else {
				m.add("str-const", x.Pos(), x.End(), `""`)
			}
		}
	}
}

// call: method swap and argument swap.
func (m *mutator) call(c *ast.CallExpr) {
	info := m.pkg.TypesInfo
	if sel, ok := c.Fun.(*ast.SelectorExpr); ok {
		if s := info.Selections[sel]; s != nil && s.Kind() == types.MethodVal {
			fn := s.Obj().(*types.Func)
			sig := fn.Type().(*types.Signature)
			recv := s.Recv()
			ms := types.NewMethodSet(recv)
			if _, isPtr := recv.(*types.Pointer); !isPtr {
				ms = types.NewMethodSet(types.NewPointer(recv))
			}
			var alts []string
			for i := 0; i < ms.Len(); i++ {
				o := ms.At(i).Obj().(*types.Func)
				if o == fn || o.Pkg() == nil || !strings.Contains(o.Pkg().Path(), "scipipe") {
					continue
				}
				if !o.Exported() && o.Pkg() != m.pkg.Types {
					continue
				}
				os2 := o.Type().(*types.Signature)
				if types.Identical(stripRecv(sig), stripRecv(os2)) && (sig.Params().Len() > 0 || sig.Results().Len() > 0) {
					alts = append(alts, o.Name())
				}
			}
			sort.Strings(alts)
			if len(alts) > 4 {
				alts = alts[:4]
			}
			for _, a := range alts {
				if a == "String" || a == "ID" {
					continue // String() is Path(); ID() of an IP is never a path
				}
				m.add("method-swap", sel.Sel.Pos(), sel.Sel.End(), a)
			}
		}
	}
	for i := 0; i+1 < len(c.Args); i++ {
		ta, tb := info.TypeOf(c.Args[i]), info.TypeOf(c.Args[i+1])
		if ta != nil && tb != nil && types.Identical(ta, tb) && c.Ellipsis == token.NoPos {
			a, b := m.text(c.Args[i]), m.text(c.Args[i+1])
			if strings.Contains(a, "%") || strings.Contains(b, "%") {
				continue // format string and its argument
			}
			if a != b {
				m.add("arg-swap", c.Args[i].Pos(), c.Args[i+1].End(), b+", "+a)
			}
		}
	}
}

func stripRecv(s *types.Signature) *types.Signature {
	return types.NewSignatureType(nil, nil, nil, s.Params(), s.Results(), s.Variadic())
}

// field: x.F -> x.G for another field of the same struct with an identical type.
func (m *mutator) field(sel *ast.SelectorExpr) {
	s := m.pkg.TypesInfo.Selections[sel]
	if s == nil || s.Kind() != types.FieldVal {
		return
	}
	v := s.Obj().(*types.Var)
	if v.Pkg() == nil || !strings.Contains(v.Pkg().Path(), "scipipe") {
		return
	}
	rt := s.Recv()
	if p, ok := rt.Underlying().(*types.Pointer); ok {
		rt = p.Elem()
	}
	st, ok := rt.Underlying().(*types.Struct)
	if !ok {
		return
	}
	n := 0
	for i := 0; i < st.NumFields() && n < 3; i++ {
		f := st.Field(i)
		if f == v || f.Embedded() || !types.Identical(f.Type(), v.Type()) {
			continue
		}
		if !f.Exported() && f.Pkg() != m.pkg.Types {
			continue
		}
		m.add("field-swap", sel.Sel.Pos(), sel.Sel.End(), f.Name())
		n++
	}
}

// walkNeutral: behaviour-preserving rewrites (each compiles to the same behaviour by construction).
func (m *mutator) walkNeutral(body *ast.BlockStmt) {
	info := m.pkg.TypesInfo
	isNil := func(e ast.Expr) bool { id, ok := e.(*ast.Ident); return ok && id.Name == "nil" }
	pure := func(e ast.Expr) bool { // no calls (except len), no receives
		ok := true
		ast.Inspect(e, func(n ast.Node) bool {
			switch x := n.(type) {
			case *ast.CallExpr:
				if id, isId := x.Fun.(*ast.Ident); !isId || (id.Name != "len" && id.Name != "cap") {
					ok = false
				}
			case *ast.UnaryExpr:
				if x.Op == token.ARROW {
					ok = false
				}
			}
			return ok
		})
		return ok
	}
	ast.Inspect(body, func(n ast.Node) bool {
		switch x := n.(type) {
		case *ast.CallExpr:
			if isLogCall(x) {
				return false
			}
		case *ast.BinaryExpr:
			switch x.Op {
			case token.EQL, token.NEQ:
				// commutativity: a == b  ->  b == a
				if pure(x.X) && pure(x.Y) {
					m.add("n-swap-eq", x.Pos(), x.End(), m.text(x.Y)+" "+x.Op.String()+" "+m.text(x.X))
				}
				_ = isNil
			case token.GTR:
				// len(x) > 0  ->  len(x) >= 1 ;  a > b -> b < a
				if lit, ok := x.Y.(*ast.BasicLit); ok && lit.Value == "0" {
					if t := info.TypeOf(x.X); t != nil {
						if b, ok := t.Underlying().(*types.Basic); ok && b.Info()&types.IsInteger != 0 {
							m.add("n-gt0-ge1", x.Pos(), x.End(), m.text(x.X)+" >= 1")
						}
					}
				}
				if pure(x.X) && pure(x.Y) {
					m.add("n-flip-rel", x.Pos(), x.End(), m.text(x.Y)+" < "+m.text(x.X))
				}
			case token.LSS:
				if pure(x.X) && pure(x.Y) {
					m.add("n-flip-rel", x.Pos(), x.End(), m.text(x.Y)+" > "+m.text(x.X))
				}
			}
		case *ast.IfStmt:
			// if c { A } else { B }  ->  if !(c) { B } else { A }      (else must be a block)
			if eb, ok := x.Else.(*ast.BlockStmt); ok && x.Init == nil {
				m.add("n-swap-arms", x.Pos(), x.End(), "if !("+m.text(x.Cond)+") "+m.text(eb)+" else "+m.text(x.Body))
			}
			// if a && b { A }  (no else) -> if a { if b { A } }
			if be, ok := x.Cond.(*ast.BinaryExpr); ok && be.Op == token.LAND && x.Else == nil && x.Init == nil {
				m.add("n-nest-and", x.Pos(), x.End(), "if "+m.text(be.X)+" { if "+m.text(be.Y)+" "+m.text(x.Body)+" }")
			}
			// if c {..}  ->  if !(!(c)) {..}
			m.add("n-double-neg", x.Cond.Pos(), x.Cond.End(), "!(!("+m.text(x.Cond)+"))")
		case *ast.AssignStmt:
			// s += a  ->  s = s + a  (identifiers only)
			if x.Tok == token.ADD_ASSIGN && len(x.Lhs) == 1 {
				if id, ok := x.Lhs[0].(*ast.Ident); ok {
					m.add("n-expand-addassign", x.Pos(), x.End(), id.Name+" = "+id.Name+" + "+m.text(x.Rhs[0]))
				}
			}
		case *ast.ReturnStmt:
			// return e  ->  { res := e; return res }   (single non-nil result, not a bare identifier)
			if len(x.Results) == 1 {
				if _, isId := x.Results[0].(*ast.Ident); !isId {
					if t := info.TypeOf(x.Results[0]); t != nil {
						if _, isTuple := t.(*types.Tuple); !isTuple {
							m.add("n-return-via-local", x.Pos(), x.End(), "{ vpRes := "+m.text(x.Results[0])+"; return vpRes }")
						}
					}
				}
			}
		case *ast.RangeStmt:
			// for k, v := range m  ->  for k := range m { v := m[k]; ... }   (maps, pure collection expression, := form)
			if x.Tok == token.DEFINE && x.Key != nil && x.Value != nil && pure(x.X) {
				if t := info.TypeOf(x.X); t != nil {
					if _, isMap := t.Underlying().(*types.Map); isMap {
						k, kok := x.Key.(*ast.Ident)
						v, vok := x.Value.(*ast.Ident)
						if kok && vok && k.Name != "_" && v.Name != "_" {
							bodyTxt := m.text(x.Body)
							m.add("n-range-key-lookup", x.Pos(), x.End(), "for "+k.Name+" := range "+m.text(x.X)+" { "+v.Name+" := "+m.text(x.X)+"["+k.Name+"]; "+bodyTxt[1:])
						}
					}
				}
			}
		}
		return true
	})
	// a debug log line at function entry
	if len(body.List) > 0 && strings.HasPrefix(m.rel, "components/") == false && !strings.HasPrefix(m.rel, "cmd/") {
		m.add("n-log-at-entry", body.Lbrace+1, body.Lbrace+1, "\n\tDebug.Printf(\"entering %s\", \""+m.fn+"\")\n")
	}
}
