package main

import (
	"encoding/json"
	"fmt"
	"os"
	"os/exec"
	"path/filepath"
	"sort"
	"strings"

	"scicheck/internal/core"
	"scicheck/internal/rules"
)

// Thorough tier = quick tier plus
//  (T1) the same rules re-evaluated with the CHA call graph instead of VTA: verdicts must agree;
//  (T2) checker self-validation on the CURRENT tree: every variant of /verif/variants/index.json that
//       belongs to the property is applied to a scratch copy of the tree (outside /repo and /verif,
//       removed at once) and analysed by a child process; a breaking variant must raise (one of) its
//       expected obligations in addition to whatever the current tree raises, a refactoring variant
//       must give exactly the verdicts of the current tree.  A variant that no longer applies is
//       skipped and listed.  A wrongly judged variant is an infrastructure failure (exit 2), never a
//       VIOLATION: it says the checker is broken, not the repository.

type variant struct {
	ID       string   `json:"id"`
	Property string   `json:"property"`
	Kind     string   `json:"kind"` // break | refactor
	Patch    string   `json:"patch"`
	Expect   []string `json:"expect"` // any of these obligation keys (break)
}

func violatedKeys(rep *core.Report) map[string]bool {
	out := map[string]bool{}
	for _, o := range rep.Obls {
		if o.Status != core.Discharged {
			out[o.Key] = true
		}
	}
	return out
}

func thorough(p *core.Prog, rep *core.Report, id, repo, verif string) {
	// ---- T1 CHA cross-check
	p.SetCG("cha")
	rep2 := core.NewReport(id, "thorough-cha", 0)
	env2 := rules.NewEnv(p, rep2, "quick", verif)
	func() {
		defer func() {
			if r := recover(); r != nil {
				rep.Infra = append(rep.Infra, fmt.Sprintf("panic in CHA re-run: %v", r))
			}
		}()
		rules.Registry[id](env2)
	}()
	p.SetCG("vta")
	st1 := map[string]core.Status{}
	for _, o := range rep.Obls {
		st1[o.Key] = o.Status
	}
	var diffs []string
	for _, o := range rep2.Obls {
		if s, ok := st1[o.Key]; !ok || s != o.Status {
			diffs = append(diffs, fmt.Sprintf("%s: vta=%v cha=%v", o.Key, s, o.Status))
		}
		delete(st1, o.Key)
	}
	for k := range st1 {
		diffs = append(diffs, k+": missing under cha")
	}
	sort.Strings(diffs)
	ob := rep.Ob("T1", "cha-cross-check", "every obligation gets the same verdict when who-may-call facts are taken from the coarser CHA call graph (more edges) instead of VTA")
	if len(diffs) == 0 {
		ob.OK("-", fmt.Sprintf("%d obligations agree", len(rep2.Obls)))
	} else {
		ob.Fail("-", strings.Join(diffs, "; "))
	}
	// ---- T2 variants
	b, err := os.ReadFile(filepath.Join(verif, "variants", "index.json"))
	if err != nil {
		rep.Notes = append(rep.Notes, "no variants/index.json: self-validation skipped")
		return
	}
	var vs []variant
	if err := json.Unmarshal(b, &vs); err != nil {
		rep.Infra = append(rep.Infra, "variants/index.json: "+err.Error())
		return
	}
	base := violatedKeys(rep)
	delete(base, id+".T1@cha-cross-check")
	exe, _ := os.Executable()
	var ran, skipped []string
	obv := rep.Ob("T2", "variants", "checker self-validation: seeded breaking edits of this property are reported with their expected obligation, behaviour-preserving refactorings get exactly the verdicts of the current tree")
	for _, v := range vs {
		if v.Property != id {
			continue
		}
		tmp, err := os.MkdirTemp("", "scicheck-variant-")
		if err != nil {
			rep.Infra = append(rep.Infra, err.Error())
			return
		}
		func() {
			defer os.RemoveAll(tmp)
			src := filepath.Join(tmp, "repo")
			vdir := filepath.Join(tmp, "verif")
			os.MkdirAll(filepath.Join(vdir, "evidence"), 0o755)
			if out, err := exec.Command("rsync", "-a", "--exclude=.git", "--exclude=log", "--exclude=_scipipe_tmp*", repo+"/", src+"/").CombinedOutput(); err != nil {
				rep.Infra = append(rep.Infra, "copy of the tree failed: "+string(out))
				return
			}
			kf, _ := os.ReadFile(filepath.Join(verif, "known_findings.json"))
			os.WriteFile(filepath.Join(vdir, "known_findings.json"), kf, 0o644)
			patch := filepath.Join(verif, v.Patch)
			ap := exec.Command("git", "apply", "--whitespace=nowarn", patch)
			ap.Dir = src
			if out, err := ap.CombinedOutput(); err != nil {
				skipped = append(skipped, v.ID+" (does not apply to the current tree: "+firstLine(string(out))+")")
				return
			}
			ch := exec.Command(exe, "-property", id, "-tier", "quick", "-repo", src, "-verif", vdir)
			ch.Env = append(os.Environ(), "VERIF_TIER=quick")
			out, _ := ch.CombinedOutput()
			code := ch.ProcessState.ExitCode()
			got := map[string]bool{}
			for _, ln := range strings.Split(string(out), "\n") {
				f := strings.Fields(ln)
				if len(f) >= 2 && (f[0] == "VIOLATED" || f[0] == "UNDECIDED") {
					got[f[1]] = true
				}
			}
			if code == 2 {
				skipped = append(skipped, v.ID+" (variant tree does not load/type-check with the current tree)")
				return
			}
			ran = append(ran, v.ID)
			switch v.Kind {
			case "break":
				hit := false
				for _, k := range v.Expect {
					if got[k] {
						hit = true
					}
				}
				if !hit {
					rep.Infra = append(rep.Infra, fmt.Sprintf("checker self-validation failed: breaking variant %s did not raise any of %v (raised: %v)", v.ID, v.Expect, keysOf(got)))
				}
			case "refactor":
				for k := range got {
					if !base[k] {
						rep.Infra = append(rep.Infra, fmt.Sprintf("checker self-validation failed: behaviour-preserving variant %s raised %s, which the current tree does not", v.ID, k))
					}
				}
			}
		}()
	}
	sort.Strings(ran)
	rep.Analysed["variants_run"] = ran
	rep.Analysed["variants_skipped"] = skipped
	if len(ran) > 0 {
		obv.OK("-", fmt.Sprintf("%d variants judged as expected (%s); %d skipped", len(ran), strings.Join(ran, ","), len(skipped)))
	} else {
		obv.OK("-", fmt.Sprintf("no applicable variant for this property on the current tree (%d skipped)", len(skipped)))
	}
}

func keysOf(m map[string]bool) []string {
	var out []string
	for k := range m {
		out = append(out, k)
	}
	sort.Strings(out)
	return out
}

func firstLine(s string) string {
	if i := strings.Index(s, "\n"); i >= 0 {
		return s[:i]
	}
	return s
}
