package main

import (
	"encoding/json"
	"fmt"
	"os"
	"os/exec"
	"path/filepath"
	"runtime"
	"sort"
	"strings"
	"sync"

	"scicheck/internal/core"
	"scicheck/internal/rules"
)

// Thorough tier = quick tier plus
//  (T1) the same rules re-evaluated with the CHA call graph instead of VTA: verdicts must agree;
//  (T2) checker self-validation on the CURRENT tree: every variant of /verif/variants/index.json that
//       belongs to the property is applied to a scratch copy of the tree (outside /repo and /verif,
//       removed at once) and analysed by a child process; a breaking variant must raise (one of) its
//       expected obligations in addition to whatever the current tree raises, a refactoring variant
//       must give exactly the verdicts of the current tree.  A variant that no longer applies is
//       skipped and listed.  A wrongly judged variant is an infrastructure failure (exit 2), never a
//       VIOLATION: it says the checker is broken, not the repository.

type variant struct {
	ID       string   `json:"id"`
	Property string   `json:"property"`
	Kind     string   `json:"kind"` // break | refactor
	Patch    string   `json:"patch"`
	Expect   []string `json:"expect"` // any of these obligation keys (break)
}

func violatedKeys(rep *core.Report) map[string]bool {
	out := map[string]bool{}
	for _, o := range rep.Obls {
		if o.Status != core.Discharged {
			out[o.Key] = true
		}
	}
	return out
}

func thorough(p *core.Prog, rep *core.Report, id, repo, verif string) {
	// ---- T1 CHA cross-check
	p.SetCG("cha")
	rep2 := core.NewReport(id, "thorough-cha", 0)
	env2 := rules.NewEnv(p, rep2, "quick", verif)
	func() {
		defer func() {
			if r := recover(); r != nil {
				rep.Infra = append(rep.Infra, fmt.Sprintf("panic in CHA re-run: %v", r))
			}
		}()
		rules.Registry[id](env2)
	}()
	p.SetCG("vta")
	st1 := map[string]core.Status{}
	for _, o := range rep.Obls {
		st1[o.Key] = o.Status
	}
	// CHA has more call edges than VTA. Rules that ask "who may call / what may run in the run phase" get
	// stricter under it, rules that ask about the complement ("started outside the run phase") get more lenient,
	// so a difference is not by itself an error of either verdict: the verdict of record is the one computed with
	// VTA (sound for this program: no reflection-based calls into the library, no unsafe). The cross-check lists
	// every obligation whose verdict depends on that precision, so that a reader of the evidence knows which
	// verdicts rest on the resolution of interface calls; it never raises a violation by itself.
	var differ []string
	for _, o := range rep2.Obls {
		s, ok := st1[o.Key]
		delete(st1, o.Key)
		switch {
		case !ok:
			differ = append(differ, o.Key+": only evaluated under cha ("+statusName(o.Status)+")")
		case s != o.Status:
			differ = append(differ, fmt.Sprintf("%s: vta=%s cha=%s", o.Key, statusName(s), statusName(o.Status)))
		}
	}
	for k, s := range st1 {
		differ = append(differ, fmt.Sprintf("%s: vta=%s, not evaluated under cha", k, statusName(s)))
	}
	sort.Strings(differ)
	rep.Analysed["cha_cross_check_differences"] = differ
	rep.Ob("T1", "cha-cross-check", "the rules are re-evaluated with the coarser CHA call graph; obligations whose verdict depends on the call graph's precision are listed in the evidence (analysed.cha_cross_check_differences)").
		OK("-", fmt.Sprintf("%d obligations re-evaluated under CHA; %d depend on call-graph precision", len(rep2.Obls), len(differ)))
	// ---- T2 variants
	b, err := os.ReadFile(filepath.Join(verif, "variants", "index.json"))
	if err != nil {
		rep.Notes = append(rep.Notes, "no variants/index.json: self-validation skipped")
		return
	}
	var vs []variant
	if err := json.Unmarshal(b, &vs); err != nil {
		rep.Infra = append(rep.Infra, "variants/index.json: "+err.Error())
		return
	}
	base := violatedKeys(rep)
	delete(base, id+".T1@cha-cross-check")
	exe, _ := os.Executable()
	var ran, skipped []string
	obv := rep.Ob("T2", "variants", "checker self-validation: seeded breaking edits of this property are reported with their expected obligation, behaviour-preserving refactorings get exactly the verdicts of the current tree")
	var mine []variant
	for _, v := range vs {
		if v.Property == id || v.Property == "*" {
			mine = append(mine, v)
		}
	}
	type outcome struct {
		skipped string
		infra   []string
		ran     bool
	}
	results := make([]outcome, len(mine))
	jobs := runtime.NumCPU() * 3 / 4
	if jobs < 1 {
		jobs = 1
	}
	if jobs > 12 {
		jobs = 12
	}
	sem := make(chan struct{}, jobs)
	var wg sync.WaitGroup
	for i, v := range mine {
		wg.Add(1)
		go func(i int, v variant) {
			defer wg.Done()
			sem <- struct{}{}
			defer func() { <-sem }()
			res := &results[i]
			tmp, err := os.MkdirTemp("", "scicheck-variant-")
			if err != nil {
				res.infra = append(res.infra, err.Error())
				return
			}
			defer os.RemoveAll(tmp)
			src := filepath.Join(tmp, "repo")
			vdir := filepath.Join(tmp, "verif")
			os.MkdirAll(filepath.Join(vdir, "evidence"), 0o755)
			os.MkdirAll(filepath.Join(vdir, "checker"), 0o755)
			os.Symlink(filepath.Join(verif, "checker", "testdata"), filepath.Join(vdir, "checker", "testdata"))
			if out, err := exec.Command("rsync", "-a", "--exclude=.git", "--exclude=log", "--exclude=_scipipe_tmp*", repo+"/", src+"/").CombinedOutput(); err != nil {
				res.infra = append(res.infra, "copy of the tree failed: "+string(out))
				return
			}
			kf, _ := os.ReadFile(filepath.Join(verif, "known_findings.json"))
			os.WriteFile(filepath.Join(vdir, "known_findings.json"), kf, 0o644)
			patch := filepath.Join(verif, v.Patch)
			ap := exec.Command("git", "apply", "--whitespace=nowarn", patch)
			ap.Dir = src
			if out, err := ap.CombinedOutput(); err != nil {
				res.skipped = v.ID + " (does not apply to the current tree: " + firstLine(string(out)) + ")"
				return
			}
			ch := exec.Command(exe, "-property", id, "-tier", "quick", "-repo", src, "-verif", vdir)
			ch.Env = append(os.Environ(), "VERIF_TIER=quick")
			out, _ := ch.CombinedOutput()
			code := ch.ProcessState.ExitCode()
			got := map[string]bool{}
			for _, ln := range strings.Split(string(out), "\n") {
				f := strings.Fields(ln)
				if len(f) >= 2 && (f[0] == "VIOLATED" || f[0] == "UNDECIDED") {
					got[f[1]] = true
				}
			}
			if code == 2 {
				res.skipped = v.ID + " (variant tree does not load/type-check with the current tree)"
				return
			}
			res.ran = true
			switch v.Kind {
			case "break":
				hit := false
				for _, k := range v.Expect {
					if got[k] {
						hit = true
					}
				}
				if !hit {
					res.infra = append(res.infra, fmt.Sprintf("checker self-validation failed: breaking variant %s did not raise any of %v (raised: %v)", v.ID, v.Expect, keysOf(got)))
				}
			case "refactor":
				for k := range got {
					if !base[k] {
						res.infra = append(res.infra, fmt.Sprintf("checker self-validation failed: behaviour-preserving variant %s raised %s, which the current tree does not", v.ID, k))
					}
				}
			}
		}(i, v)
	}
	wg.Wait()
	for i, v := range mine {
		res := results[i]
		rep.Infra = append(rep.Infra, res.infra...)
		if res.skipped != "" {
			skipped = append(skipped, res.skipped)
		}
		if res.ran {
			ran = append(ran, v.ID)
		}
	}
	sort.Strings(ran)
	rep.Analysed["variants_run"] = ran
	rep.Analysed["variants_skipped"] = skipped
	if len(ran) > 0 {
		obv.OK("-", fmt.Sprintf("%d variants judged as expected (%s); %d skipped", len(ran), strings.Join(ran, ","), len(skipped)))
	} else {
		obv.OK("-", fmt.Sprintf("no applicable variant for this property on the current tree (%d skipped)", len(skipped)))
	}
}

func statusName(s core.Status) string {
	switch s {
	case core.Discharged:
		return "discharged"
	case core.Violated:
		return "violated"
	}
	return "undecided"
}

func keysOf(m map[string]bool) []string {
	var out []string
	for k := range m {
		out = append(out, k)
	}
	sort.Strings(out)
	return out
}

func firstLine(s string) string {
	if i := strings.Index(s, "\n"); i >= 0 {
		return s[:i]
	}
	return s
}
