// scicheck decides the scipipe properties C01..C20 by static analysis of /repo's current source.
package main

import (
	"encoding/json"
	"flag"
	"fmt"
	"os"
	"path/filepath"
	"runtime/debug"
	"sort"
	"strconv"
	"strings"

	"scicheck/internal/core"
	"scicheck/internal/rules"
)

func main() {
	prop := flag.String("property", "", "property id (C01..C20) or 'all'")
	tier := flag.String("tier", "", "quick|thorough (default: $VERIF_TIER or quick)")
	repo := flag.String("repo", "/repo", "repository working tree to analyse")
	verif := flag.String("verif", "", "verification directory (default: parent of the binary's directory)")
	replay := flag.String("replay", "", "replay file: re-evaluate the property it names and show that obligation")
	dump := flag.String("dump", "", "debug: xg:<func spec> prints the expanded CFG")
	flag.Parse()

	if *verif == "" {
		exe, _ := os.Executable()
		*verif = filepath.Dir(filepath.Dir(exe))
		if _, err := os.Stat(filepath.Join(*verif, "properties.jsonl")); err != nil {
			*verif = "/verif"
		}
	}
	if *tier == "" {
		*tier = os.Getenv("VERIF_TIER")
		if *tier != "thorough" {
			*tier = "quick"
		}
	}
	seed, _ := strconv.ParseInt(os.Getenv("VERIF_SEED"), 10, 64)
	onlyKey := ""
	if *replay != "" {
		b, err := os.ReadFile(*replay)
		if err != nil {
			fmt.Fprintln(os.Stderr, "cannot read replay file:", err)
			os.Exit(2)
		}
		var rp struct {
			Property   string
			Obligation struct{ Key string }
		}
		json.Unmarshal(b, &rp)
		*prop, onlyKey = rp.Property, rp.Obligation.Key
	}
	if *prop == "" && *dump == "" {
		fmt.Fprintln(os.Stderr, "usage: scicheck -property Cnn [-tier quick|thorough] [-repo dir]")
		os.Exit(2)
	}
	defer func() {
		if r := recover(); r != nil {
			fmt.Printf("INFRASTRUCTURE FAILURE (no verdict): internal panic: %v\n%s\n", r, debug.Stack())
			os.Exit(2)
		}
	}()
	p, err := core.Load(*repo)
	if err != nil {
		fmt.Printf("INFRASTRUCTURE FAILURE (no verdict): %v\n", err)
		os.Exit(2)
	}
	if *dump != "" {
		doDump(p, *dump)
		return
	}
	known, err := core.LoadKnown(filepath.Join(*verif, "known_findings.json"))
	if err != nil {
		fmt.Printf("INFRASTRUCTURE FAILURE (no verdict): known_findings.json: %v\n", err)
		os.Exit(2)
	}
	props := []string{*prop}
	if *prop == "all" {
		props = rules.All()
	}
	code := 0
	for _, id := range props {
		fn := rules.Registry[id]
		if fn == nil {
			fmt.Printf("INFRASTRUCTURE FAILURE (no verdict): no check registered for %s\n", id)
			os.Exit(2)
		}
		rep := core.NewReport(id, *tier, seed)
		env := rules.NewEnv(p, rep, *tier, *verif)
		func() {
			defer func() {
				if r := recover(); r != nil {
					rep.Infra = append(rep.Infra, fmt.Sprintf("internal panic in rules of %s: %v\n%s", id, r, debug.Stack()))
				}
			}()
			fn(env)
			if *tier == "thorough" {
				thorough(p, rep, id, *repo, *verif)
			}
			env.Common()
		}()
		if onlyKey != "" {
			for _, o := range rep.Obls {
				if o.Key == onlyKey {
					fmt.Printf("replay %s: verdict on the current tree = %s\n  rule: %s\n  at:   %s\n  why:  %s\n", o.Key, o.Status, o.Desc, o.Where, o.Detail)
				}
			}
		}
		c := rep.Finish(*verif, known, strings.Join(os.Args, " "))
		if c > code {
			code = c
		}
	}
	os.Exit(code)
}

func doDump(p *core.Prog, what string) {
	switch {
	case strings.HasPrefix(what, "xg:"):
		fn := p.Func(what[3:])
		if fn == nil {
			fmt.Println("no such function")
			return
		}
		g, err := p.BuildXG(fn, core.XGOpts{})
		if err != nil {
			fmt.Println(err)
			return
		}
		fmt.Printf("nodes=%d ctxs=%d\n", len(g.Nodes), len(g.Ctxs))
		for _, n := range g.Nodes {
			var ss []string
			for _, s := range n.Succs {
				ss = append(ss, strconv.Itoa(s.ID))
			}
			fmt.Printf("%5d k=%d d=%d %-40s -> %s   @%s\n", n.ID, n.Kind, n.Ctx.Depth, trunc(fmt.Sprint(n.Instr), 60), strings.Join(ss, ","), g.Where(n))
		}
	case what == "noret":
		var names []string
		for f := range p.NoRet {
			names = append(names, core.FuncName(f))
		}
		sort.Strings(names)
		fmt.Println(len(names), strings.Join(names, "\n"))
	}
}

func trunc(s string, n int) string {
	if len(s) > n {
		return s[:n]
	}
	return s
}
