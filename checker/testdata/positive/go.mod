module positive

go 1.22
