// Package positive holds tiny constructs that MUST be matched by the zero-expected rules of scicheck
// (rules whose expected number of matches on a healthy tree is zero).  A zero-expected rule that does
// not fire here is broken, and the check reports an infrastructure failure instead of passing vacuously.
package positive

import (
	"strings"
	"sync"
)

// recover() in library code (C09.R4)
func swallow(f func()) {
	defer func() { _ = recover() }()
	f()
}

// cut-set trimming with a variable cut-set (C13.R1, C15.R2)
func stripPrefixWrong(path, dir string) string {
	return strings.TrimLeft(path, dir+"/")
}

// goroutine inside a send path and a select (C08.R3)
type port struct {
	ch chan int
	mu sync.Mutex
}

func (p *port) Send(v int) {
	select {
	case p.ch <- v:
	default:
		go func() { p.ch <- v }()
	}
}

// a second, foreign user of a "slot" channel (C06.R1 other-uses): close
type pool struct{ slots chan struct{} }

func (q *pool) drain() { close(q.slots) }

// access to a cache field without its lock (C12.R1)
type cached struct {
	lock  sync.Mutex
	value *int
}

func (c *cached) get() *int { return c.value }

// Use makes the methods above reachable for the loader.
func Use() {
	p := &port{ch: make(chan int, 1)}
	p.Send(1)
	q := &pool{slots: make(chan struct{}, 1)}
	q.drain()
	c := &cached{}
	_ = c.get()
	swallow(func() {})
	_ = stripPrefixWrong("a", "b")
}
