#!/bin/bash
# Runs the repository's own test suite (guard off; there are no hook commits) on a tree
# (default /repo) and compares with the 60 stable tests of /root/.vp/BASELINE.json.
# usage: baseline.sh [dir]   exit 0 iff every stable test passes.
DIR=${1:-/repo}
export GOFLAGS=-mod=mod GOPROXY=off GOSUMDB=off GOTOOLCHAIN=local
unset GOWORK
cd "$DIR" || exit 2
timeout 600 go test -vet=off -count=1 -json -timeout 5m ./... 2>/dev/null | python3 -c "
import sys,json
p=set();f=set()
for l in sys.stdin:
    try: e=json.loads(l)
    except Exception: continue
    if e.get('Test') and e.get('Action') in('pass','fail'):
        (p if e['Action']=='pass' else f).add(e['Package']+'::'+e['Test'])
base=set(json.load(open('/root/.vp/BASELINE.json'))['stable_pass'])
miss=sorted(base-p)
print('passed=%d failed=%d stable_missing=%d'%(len(p),len(f),len(miss)))
for m in miss: print('  MISSING',m)
sys.exit(1 if miss else 0)
"
