#!/usr/bin/env python3
"""usage: trymut.py <mutants.json> <id>[,<id>...] [props...]  - applies one mechanical mutant to a scratch copy of
/repo's HEAD and runs the quick checks (all, or the named properties) on it. Checker assessment only."""
import json, os, subprocess, sys, tempfile, shutil
muts = {}
for l in open(sys.argv[1]):
    m = json.loads(l); muts[m['id']] = m
props = sys.argv[3:] or ['all']
for mid in sys.argv[2].split(','):
    m = muts[mid]
    t = tempfile.mkdtemp(prefix='trymut.')
    try:
        os.makedirs(t + '/repo'); os.makedirs(t + '/verif/evidence'); os.makedirs(t + '/verif/checker')
        os.symlink('/verif/checker/testdata', t + '/verif/checker/testdata')
        subprocess.run('git -C /repo archive HEAD | tar -x -C %s/repo' % t, shell=True, check=True)
        shutil.copy('/verif/known_findings.json', t + '/verif/')
        f = t + '/repo/' + m['file']; src = open(f, 'rb').read()
        open(f, 'wb').write(src[:m['start']] + m['repl'].encode() + src[m['end']:])
        keys = []
        for p in props:
            r = subprocess.run([os.environ.get('SCICHECK', '/verif/bin/scicheck'), '-property', p, '-tier', 'quick', '-repo', t + '/repo', '-verif', t + '/verif'], capture_output=True, text=True)
            for ln in (r.stdout + r.stderr).splitlines():
                w = ln.split()
                if len(w) >= 2 and w[0] in ('VIOLATED', 'UNDECIDED'): keys.append(w[0][0] + ':' + w[1])
                if ln.startswith('INFRA'): keys.append(ln[:100])
        print('%s %s:%d %s [%s]->[%s]: %s' % (mid, m['file'], m['line'], m['op'], m['orig'][:40], m['repl'][:20], ' '.join(sorted(set(keys))) or 'UNCAUGHT'))
    finally:
        shutil.rmtree(t, ignore_errors=True)
