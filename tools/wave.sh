#!/bin/bash
# usage: wave.sh <outdir> <tag> <k>     e.g. wave.sh /tmp/w4/Q0/out W4 4
# Takes a sub-agent's deliverables (<ID>-b1, -b2 ... breaking changes -> m<k>, m<k+1> ...; <ID>-r1/-r2 refactorings), verifies each in a scratch
# worktree (verify_seed.sh / verify_refactor.sh), keeps them as seeded/<ID>-m<k> and variants/refactor/<tag>-<ID>-r<n>,
# and runs the checks: the seed against its own property, the refactorings against all 20.
OUT=$1; TAG=$2; K0=$3
for d in $OUT/*-b[0-9]; do
  [ -d $d ] || continue
  n=$(basename $d); id=${n%%-*}; bn=${n##*-b}; K=$((K0+bn-1))
  /verif/tools/verify_seed.sh $id $K $d 2>&1 | grep -v conda | tail -2
  if [ -d /verif/seeded/$id-m$K ]; then
    r=$(/verif/tools/tryvariant.sh /verif/seeded/$id-m$K/patch.diff $id 2>&1 | grep -v conda | head -2 | cut -c1-260 | tr '\n' ' ')
    echo "  SEED $id-m$K: $r"
  fi
done
for d in $OUT/*-r[0-9]; do
  [ -d $d ] || continue
  n=$(basename $d)
  /verif/tools/verify_refactor.sh $d $TAG-$n 2>&1 | grep -v conda | head -2
  if [ -d /verif/variants/refactor/$TAG-$n ]; then
    r=$(/verif/tools/tryvariant.sh /verif/variants/refactor/$TAG-$n/patch.diff 2>&1 | grep -v conda | grep -E "^(VIOLATED|UNDECIDED|INFRA|SILENT|PATCH)" | awk '{print $1" "$2}' | tr '\n' ';' | cut -c1-600)
    echo "  REFACTOR $TAG-$n: $r"
  fi
done
