#!/bin/bash
# usage: scratch.sh <patch.diff> <dir>  - scratch export of /repo HEAD with the patch applied (for debugging the checker); remove <dir> afterwards
P=$1; T=$2
rm -rf $T; mkdir -p $T/repo $T/verif/evidence
git -C /repo archive HEAD | tar -x -C $T/repo
cp /verif/known_findings.json $T/verif/
mkdir -p $T/verif/checker && ln -s /verif/checker/testdata $T/verif/checker/testdata
(cd $T/repo && git apply --whitespace=nowarn "$P") || { echo "PATCH DOES NOT APPLY: $P"; exit 2; }
echo "scicheck -repo $T/repo -verif $T/verif"
