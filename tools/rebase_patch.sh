#!/bin/bash
# usage: rebase_patch.sh <patch.diff> [base-commit]
# A sub-agent's patch was written against an older commit of /repo (default 55c296b): re-express it against the
# current HEAD (git apply on the old base in a scratch worktree, then cherry-pick onto HEAD). Rewrites the file in
# place (the original is kept as <patch>.orig-base) only when the cherry-pick is conflict-free.
P=$(readlink -f $1); BASE=${2:-55c296b}
WT=$(mktemp -d /tmp/rebase.XXXXXX); rmdir $WT
git -C /repo worktree add -q --detach $WT $BASE || exit 2
trap 'git -C /repo worktree remove --force '$WT' 2>/dev/null; rm -rf '$WT EXIT
cd $WT
git apply --whitespace=nowarn $P || { echo "does not apply to $BASE either"; exit 2; }
git add -A && git -c user.name=x -c user.email=x@x commit -q -m tmp
C=$(git rev-parse HEAD)
git checkout -q --detach $(git -C /repo rev-parse HEAD)
if git -c user.name=x -c user.email=x@x cherry-pick $C >/dev/null 2>&1; then
  cp $P $P.orig-base
  git diff HEAD~1 HEAD > $P
  echo "rebased: $P"
else
  git cherry-pick --abort 2>/dev/null
  echo "CONFLICT: $P"; exit 1
fi
