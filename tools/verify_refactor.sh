#!/bin/bash
# usage: verify_refactor.sh <srcdir> <name>
# Confirms a sub-agent's behaviour-preserving refactoring in a scratch worktree of /repo: the patch applies to HEAD,
# builds, and the 60 stable tests pass; optional extra demos (seed demonstrations that pass on HEAD) can be run
# with DEMOS="file_test.go ...". On success copies it to /verif/variants/refactor/<name>/.
SRC=$1; NAME=$2
export GOFLAGS=-mod=mod GOPROXY=off GOSUMDB=off GOTOOLCHAIN=local; unset GOWORK
[ -f $SRC/patch.diff ] || { echo "no patch in $SRC"; exit 2; }
WT=$(mktemp -d /tmp/vref.XXXXXX); rmdir $WT
git -C /repo worktree add -q --detach $WT HEAD || exit 2
trap 'git -C /repo worktree remove --force '$WT' 2>/dev/null; rm -rf '$WT EXIT
cd $WT
git apply --whitespace=nowarn $SRC/patch.diff || { echo "$NAME: patch does not apply"; exit 2; }
go build ./... > $WT/build.out 2>&1; BUILD=$?
/verif/tools/baseline.sh $WT > $WT/base.out 2>&1; BASE=$?
echo "$NAME: build=$BUILD baseline=$BASE($(head -1 $WT/base.out))"
if [ $BUILD -eq 0 ] && [ $BASE -eq 0 ]; then
  OUT=/verif/variants/refactor/$NAME; mkdir -p $OUT
  cp $SRC/patch.diff $OUT/; [ -f $SRC/README.md ] && cp $SRC/README.md $OUT/
  echo "  kept in $OUT"
else
  echo "  NOT kept"; tail -5 $WT/build.out $WT/base.out | cut -c1-200
fi
