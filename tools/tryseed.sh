#!/bin/bash
# usage: tryseed.sh <patch.diff> <property> [property...]
# Applies a seeded change to /repo, runs the quick checks of the named properties, and always reverts.
P=$1; shift
cd /repo || exit 2
if ! git diff --quiet; then echo "/repo has uncommitted changes; refusing"; exit 2; fi
git apply "$P" || { echo "patch does not apply"; exit 2; }
trap 'git -C /repo checkout -- . ' EXIT
rc=0
for id in "$@"; do
  /verif/bin/scicheck -property $id -tier quick > /tmp/tryseed.$$.out 2>&1; c=$?
  grep -E "^(VIOLATED|UNDECIDED|VIOLATION|KNOWN-FINDING|INFRA|    (at|why):)" /tmp/tryseed.$$.out | cut -c1-260
  tail -1 /tmp/tryseed.$$.out | cut -c1-200
  echo "  -> $id exit=$c"
  [ $c -ne 0 ] && rc=1
done
rm -f /tmp/tryseed.$$.out
exit $rc
