#!/usr/bin/env python3
"""Regenerates /verif/MANIFEST.json from the table below (claimed checks) and properties.jsonl."""
import json, os
V = '/verif'
ENV = "GOFLAGS=-mod=mod GOPROXY=off GOSUMDB=off GOTOOLCHAIN=local GOWORK=off"
props = [json.loads(l)['id'] for l in open(V + '/properties.jsonl')]

COMMON_NOTE = ("Trusted base: go/packages+go/types load of /repo's current tree, go/ssa, CHA+VTA call graph (x/tools v0.29.0), "
               "the no-return seeds (os.Exit, log.Fatal*, panic, Goexit) and the stdlib effect/error-predicate models of DESIGN.md App. B. "
               "Assumes documented Go channel/mutex and OS rename semantics; user-supplied Go functions and custom processes are outside the analysed code. "
               "Undecided obligations (unrecognised idiom, unresolved anchor) are reported as VIOLATION, never passed.")

claimed = {
 'C01': ("path-sensitive interprocedural CFG analysis (must-precede dataflow + error-branch scenarios + path templates)",
         "Structural necessary conditions decided on ALL paths of Task.Execute's expanded call tree (every kill instant and failure branch is a path): {o:} substituted by the temp path; script is `cd <tempdir> && <Task.Command>`; command before any rename; failed command or missing declared output => never-returning call before any rename/Done; existence test covers every output; only the finalising rename, the audit side-car and temp-dir writes can create files; rename template <tempdir>/<TempPath(x)> -> Path(x). Not decided: rename(2) atomicity, what user commands write themselves. Known finding K8 (FileIP.Write).", "§7 C01"),
 'C02': ("error-branch scenario analysis (abstract interpretation) on the expanded CFG",
         "Decides for all paths: the skip test stats the final path of every non-streaming output; once one os.Stat says 'exists', no acquire/mkdir/command/write/rename/remove is reachable, Execute returns and Done is signalled on every returning path; the skip test completes before any effect; NewFileIP loads the audit record of an existing file under the IP lock. Not decided: inode/mtime/bytes identity (a runtime fact that follows from 'nothing reachable writes').", "§7 C02"),
 'C03': ("must-precede / never-after dataflow + scenarios on the expanded CFG",
         "Necessary conditions of restart convergence on every path (= crash point): leftover temp dir => exit before any effect, tested before the skip test; all effects bracketed between creation and removal of the temp dir; audit records of all outputs written before the first rename; existing FIFO => exit before mkfifo/go; plus a contradiction rule (skip-if-any vs one rename per output) whose violation is known finding K7. Not decided: content equality with an uninterrupted run, convergence as a history property.", "§7 C03"),
 'C06': ("who-may-touch + counted-loop idiom + must-precede/must-follow dataflow + value roots",
         "Obligations that are together sufficient for the bound (paper argument in DESIGN §7 C06): only acquire sends / release receives on the slot channel; acquire(n)/release(n) do exactly n operations; acquire precedes every command/Go-function call and is followed by release on all returning paths, same constructor-only count; count rooted in CoresPerTask, capacity in NewWorkflow's parameter; commands run only below Execute. The glue argument is not machine-checked, hence level 'other'.", "§7 C06"),
 'C07': ("lockset analysis (must/may-held) + scenario analysis of the oversize test",
         "Necessary conditions for slot progress on all paths: slot sends hold the slot mutex; release is lock-free and non-blocking apart from its receives; Lock->Unlock pairing; exactly CoresPerTask > cap(slots) is rejected fatally before any goroutine starts (cores == max accepted); no mutex possibly held and no other blocking channel operation on the way to the command; acquire->release pairing. Not decided: real overlap of fitting tasks, fairness.", "§7 C07"),
 'C09': ("error-fate analysis: one abstract-interpretation scenario per fallible call site",
         "For every failure branch (which no test takes): Fail* helpers end in os.Exit(non-zero); a non-nil error from command execution, mkdir (temp/out/audit dirs), audit marshal/write, declared-output rename, temp-dir removal, a missing declared output, a missing placeholder value, an unknown placeholder type, an invalid output path => a never-returning call is inevitable, Done is not signalled; no recover() in the library; no port send below Execute. Not decided: OS-level exit status beyond the os.Exit constant.", "§7 C09"),
 'C04': ("complete-loop (for-all) idiom + scenario analysis of the close test + loop-iteration counting",
         "Necessary conditions of exactly-once processing/delivery on all paths: broadcast send/close to every remote port; in-port channel closed exactly when the last upstream closed (len==0 after delete, under closeLock; scenarios len=0,1,2); one NewTask per loop iteration built from this iteration's one-element-per-port receive rounds; closed port ends task creation; no-ports process runs once; every process spawned once and the driver only synchronously (skip/delete idiom on the ranged map; repaired defect F2/F7); Process.Run forwards every output; the sink drains all ports concurrently. Not decided: absence of loss/duplication for the channel network as a whole.", "§7 C04"),
 'C05': ("typestate (close/send) + must-precede on the feasible subgraph + guard-multiset pairing + scenarios",
         "Necessary conditions of 'Run returns exactly when all work is done': scheduling loop left only with feed nil AND queue empty; new-task and oldest-done in one blocking select; every process type closes its out-ports on all returning paths and never sends after close; Done only after all renames, temp-dir removal and slot release; sink starts all drainers before waiting, same guards, drain to closure; dangling (param) out-ports wired to the sink, every connection examined; temp dir and FIFOs removed. Deadlock-freedom/termination of the network as a whole is NOT decided by this family (stated in DESIGN §9).", "§7 C05"),
 'C08': ("FIFO-queue idiom recognition on symbolic values + who-may-send + scenario (stream flag false)",
         "Necessary conditions of order preservation: started-task queue is append-tail/read-[0]/pop-[1:], the awaited Done and the forwarded outputs are the head's; OutPort.Send in package scipipe only from Process.Run, nothing below Execute sends; with streaming off every reachable send forwards the queue head (no fast path can overtake); port sends are plain blocking sends without goroutine/select; one sequential task feeder. Go channel FIFO is assumed.", "§7 C08"),
 'C10': ("field-by-field value-flow (symbolic roots resolved through calling contexts) + complete-loop idiom",
         "Every AuditInfo field is stored from the right root (Command=Task.Command, process name, Params, start/finish = time.Now before/after the command on all paths, ExecTimeNS = finish.Sub(start), OutFiles over all out-IPs, Upstream[Path(in)] = in.AuditInfo() for every in-IP and every sub-stream member, unconditionally); record attached, tags merged and file written for every out-IP; write errors fatal; Tags maps never shared between records. Not decided: that a concrete run's JSON equals its true lineage.", "§7 C10"),
 'C11': ("type-level serialisability check + writer/reader agreement + scenarios on the loader",
         "AuditInfo is losslessly serialisable by encoding/json (all fields exported, no dropping tags, closed type set, no custom marshalers); writer replaces the whole file at AuditFilePath with the JSON of the record, reader decodes the same path into the same type; nil cache => load from file under the IP lock; unreadable/unparsable => exit, missing => empty; audit written for all outputs before any rename. Not decided: equality of lineages across run histories.", "§7 C11"),
 'C14': ("value-flow coverage of the hash pre-image + order-taint + constant/threshold arithmetic",
         "The SHA-1 pre-image covers name, every in-IP path, every sub-stream member, key AND value of every param and tag (each from its own map); every contributing map is traversed in sorted order; result is prefix.hex(sha1) with the fold threshold T satisfying T+1+40<=255, sanitiser removes '/', no clock/random input; carrier IP of a joined port excluded (repaired defect F5). Known finding K1: pieces joined with an empty separator (non-injective). SHA-1 collision resistance assumed.", "§7 C14"),
 'C12': ("lockset (must-held) analysis + field write inventory judged by a frozen guarded-by/confinement table + ownership-transfer rule",
         "Field-based lockset/ownership discipline for the library's shared state: audit cache under the IP lock; in-port delete/len/close under closeLock; slot sends under the slot mutex; Task/FileIP identity fields written only in constructors before publication; wiring data never written from the run phase (closure of all go targets and Run implementations); no access to an IP's audit record after sending it; received IPs immutable (known finding K2: MapToTags); no goroutine started during wiring (known finding K4: FromStr). A sufficient-condition discipline for the listed fields, not a happens-before model; user functions excluded.", "§7 C12"),
 'C13': ("table agreement (encoder/decoder replace pairs) + per-arm value-flow routing + path templates + must-precede",
         "Decides for all path strings at once: decoder of extra files = inverse of TempPath's encoder (prefix strip once, root placeholder once, parent placeholder everywhere; no cut-set trimming); routing of o/os/i placeholders and the ../ prefix (unless basename; absolute unchanged); declared outputs renamed to exactly Path(x); output dirs created inside the temp dir before the command; final directory created before the rename (repaired defect F4). Known finding K3: placeholders lie inside the valid path alphabet. Not decided: resulting FS state for concrete paths.", "§7 C13"),
 'C15': ("regex-alternative exhaustiveness (regexp/syntax) vs switch arms + scenarios for absent/empty values + constant checks",
         "Every placeholder type the regex accepts has an arm or reaches the fatal default (formatter and SetOut); modifiers applied in list order with a handler per documented modifier, no cut-set trimming, and `%STRING` cut only as a suffix (cut length = len(STRING) under a suffix comparison); all occurrences replaced (count < 0); absent AND present-but-empty values fatal per arm, accessors fatal; default name and command free of map-order input. The result strings of modifier chains (most of the property) are NOT decided by this family.", "§7 C15"),
 'C16': ("must-precede on the feasible subgraph + scenarios (Ready=false) + recursion/visited-guard idiom + complete-loop idiom",
         "Readiness of every process of the run set - driver included (repaired defect F6) - established before the first goroutine starts, not-ready is fatal before any start, BaseProcess.Ready covers all four port maps; upstream closure recurses over in-ports and param in-ports, adds what it recurses into, guarded by a visited test on the same process (repaired defect F3), targets added (the recursive form and the work-list form of the traversal are both recognised); the driver is chosen among the processes being run; cut + reconnect for both port kinds with every connection examined; each process started once (repaired defect F2/F7). Not decided: which commands execute for a concrete graph.", "§7 C16"),
 'C17': ("symbolic agreement of the two formatter arms + must-precede within the select iteration + scenarios with the streaming flag set",
         "Producer and consumer name the same pipe (prefix(mods(FifoPath))), FifoPath = path+.fifo; existing FIFO fatal; FIFO created then IP sent for every streaming output before `go Execute`; FIFO of every streaming output removed after Done; streaming outputs exempt from skip test, missing-output check and rename. a task skipped because its outputs exist still opens the FIFO of every streaming in-IP for reading, with an open that cannot block (R6: necessary for 'the re-run terminates'; the defect F8 behind it was repaired); the consumer's record links every input unconditionally (R5, shared with C10.R1). NOT decided: byte delivery, termination of the re-run as a whole. Known finding K10 (record of a streaming IP attached after it is published).", "§7 C17"),
 'C18': ("symbolic value-flow of the collected slice and of the joined replacement",
         "Sub-stream channel ranged to closure into a slice that is fresh per joined port; replacement = Join(prefix(mods(Path(member)))..., PortInfo.joinSep) with modifiers per member and the separator rooted in the join:(..) capture group; members in the temp-dir identity and in Upstream; carrier gets SubStream before its single send. Not decided: one task per sub-stream under all timings.", "§7 C18"),
 'C19': ("complete-loop / once-per-iteration idioms, WaitGroup pairing, must-precede, scenarios on the selector, value-flow root of the product factor",
         "ONLY the structural clauses: sources send on every iteration of complete loops, scanner loops send every token and stop at exhaustion (polarity by scenario), a bufio.Reader loop also sends text delivered together with EOF; combinators drain every in-port to closure before combining, one full-range sender per out-port with Add/Done/Wait paired, head repetition factor rooted in the recursion's result; selector: one receive per port, reject => nothing of the tuple sent, accept-all => everything sent, no loop-carried decision state; splitter Close<Finalize<Send; concatenator content+newline per input, every handle closed and every output IP (main and per-group) sent on all returning paths, close before send. All data-dependent clauses (product contents, split arithmetic, glob semantics) are NOT decided - they are most of the property.", "§7 C19"),
 'C20': ("recursion/keying idiom + permutation idiom on symbolic slices + comparator orientation + static parsing of text/template constants",
         "Flatten recurses over every Upstream value and keys entries by the stored record's ID; sort returns exactly the input values (repaired defect F1) ordered by StartTime ascending; all three converters use flatten+sort and render every element with their per-format field sets (templates parsed statically), and write the report when no step fails (error-test polarity by scenario); the Bash template strips exactly the ../ prefix the formatter adds, everywhere. Not decided: byte-identical re-creation by the script, ID uniqueness.", "§7 C20"),
}

checks = []
for pid in props:
    if pid not in claimed: continue
    tech, text, ref = claimed[pid]
    checks.append({
        "property_id": pid,
        "quick_cmd": "/verif/bin/scicheck -property %s -tier quick" % pid,
        "thorough_cmd": "/verif/bin/scicheck -property %s -tier thorough" % pid,
        "evidence_file": "/verif/evidence/%s.json" % pid,
        "replay_cmd_template": "/verif/bin/scicheck -replay {path}",
        "engine": "scicheck",
        "level_claimed": {"category": "other", "text": text, "design_ref": "DESIGN.md " + ref},
        "level_note": COMMON_NOTE,
        "technique": "static analysis: " + tech,
    })

na_reasons = json.load(open(V + '/tools/not_applicable.json')) if os.path.exists(V + '/tools/not_applicable.json') else {}
na = [{"property_id": p, "reason": na_reasons.get(p, "check under construction in this session (see DESIGN.md §7); not claimed until its rules run clean on the pinned tree")} for p in props if p not in claimed]

m = {"version": 1,
     "setup_cmd": "cd /verif/checker && env %s go build -o /verif/bin/scicheck ./cmd/scicheck" % ENV,
     "hooks": {"guard": "verif", "enable": "none needed: every check is a static analysis of /repo's source as it is; there are no hook commits",
               "baseline_off_cmd": "/verif/tools/baseline.sh /repo", "source_commits": [], "add_only": True},
     "engines": [{"name": "scicheck", "path": "/verif/checker", "serves_properties": sorted(claimed),
                  "kind_free_text": "custom Go static analyser over go/packages + go/ssa + CHA/VTA: expanded interprocedural CFG, event dataflow, abstract-interpretation scenarios, symbolic path templates, locksets"}],
     "checks": checks,
     "notes": "All checks read /repo's current working tree on every run (packages.Load), write /verif/evidence/<id>.json, print VIOLATION/KNOWN-FINDING lines; exit 0 held, 1 violation/undecided, 2 infrastructure failure. Known findings: /verif/known_findings.json. Repaired defects: five 'fix:' commits in /repo (see DESIGN.md §8).",
     "not_applicable": na}
json.dump(m, open(V + '/MANIFEST.json', 'w'), indent=1)
print("claimed:", sorted(claimed), "na:", len(na))
