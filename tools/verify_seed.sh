#!/bin/bash
# usage: verify_seed.sh <ID> <k> [srcdir]     e.g. verify_seed.sh C01 1     (srcdir default /tmp/seed/<ID>/m<k>)
# Confirms a sub-agent's seeded change in a scratch worktree of /repo: compiles, the 60 stable tests pass,
# its demonstration passes without and fails with the change. On success copies it to /verif/seeded/<ID>-m<k>/.
ID=$1; K=$2; SRC=${3:-/tmp/seed/$ID/m$K}
export GOFLAGS=-mod=mod GOPROXY=off GOSUMDB=off GOTOOLCHAIN=local; unset GOWORK
[ -f $SRC/patch.diff ] || { echo "no patch in $SRC"; exit 2; }
DEMO=$(ls $SRC/*_test.go 2>/dev/null | head -1)
[ -n "$DEMO" ] || { echo "no demo test in $SRC"; exit 2; }
PKG=$(grep -m1 '^package ' $DEMO | awk '{print $2}')
case $PKG in scipipe) DIR=.;; components) DIR=components;; main) DIR=cmd/scipipe;; *) echo "unknown package $PKG"; exit 2;; esac
RACE=""; grep -q -- "-race\|go:build race" $DEMO && RACE="-race"
WT=$(mktemp -d /tmp/vseed.XXXXXX); rmdir $WT
git -C /repo worktree add -q --detach $WT HEAD || exit 2
trap 'git -C /repo worktree remove --force '$WT' 2>/dev/null; rm -rf '$WT EXIT
cd $WT; mkdir -p .tmp
PAT="${ID}_?M${K}"
# demos that do not follow the <ID>_M<k> naming: run exactly the tests the demo file defines
grep -qiE "func Test[A-Za-z0-9_]*${ID}_?M${K}" $DEMO || PAT="^($(grep -oE '^func Test[A-Za-z0-9_]+' $DEMO | sed 's/func //' | tr '\n' '|' | sed 's/|$//'))\$"
run_demo() { cp $DEMO $WT/$DIR/zz_seed_demo_test.go; (cd $WT/$DIR && timeout 600 go test -vet=off -count=1 $RACE -run "(?i)$PAT" -timeout 500s . > $WT/demo.out 2>&1); rc=$?; rm -f $WT/$DIR/zz_seed_demo_test.go; return $rc; }
run_demo; WITHOUT=$?
grep -q "no tests to run" $WT/demo.out && { echo "$ID m$K: demo pattern $PAT matched no test"; exit 2; }
git apply $SRC/patch.diff || { echo "$ID m$K: patch does not apply"; exit 2; }
go build ./... > $WT/build.out 2>&1; BUILD=$?
/verif/tools/baseline.sh $WT > $WT/base.out 2>&1; BASE=$?
git status --short | grep -v '^ M\|^??' >/dev/null
run_demo; WITH=$?
tail -5 $WT/demo.out | cut -c1-300 > $WT/demo.tail
echo "$ID m$K: build=$BUILD baseline=$BASE($(head -1 $WT/base.out)) demo_without_change=$WITHOUT demo_with_change=$WITH"
if [ $BUILD -eq 0 ] && [ $BASE -eq 0 ] && [ $WITHOUT -eq 0 ] && [ $WITH -ne 0 ]; then
  OUT=/verif/seeded/$ID-m$K; mkdir -p $OUT
  cp $SRC/patch.diff $OUT/; cp $DEMO $OUT/; [ -f $SRC/README.md ] && cp $SRC/README.md $OUT/
  FILES=$(grep '^+++ b/' $SRC/patch.diff | sed 's|+++ b/||' | tr '\n' ' ')
  python3 - "$ID" "$K" "$DIR" "$RACE" "$PAT" "$OUT" "$FILES" "$(head -1 $WT/base.out)" "$(cat $WT/demo.tail)" <<'PY'
import json,sys,os
ID,K,DIR,RACE,PAT,OUT,FILES,BASE,TAIL=sys.argv[1:10]
meta_path=OUT+'/meta.json'
meta=json.load(open(meta_path)) if os.path.exists(meta_path) else {}
meta.update({"property":ID,"mutant":"m"+K,"files_changed":FILES.split(),
 "origin":"independent sub-agent given only the property text and a scratch worktree",
 "demonstration":os.path.basename([f for f in os.listdir(OUT) if f.endswith('_test.go')][0]),
 "demo_dir_in_repo":DIR,
 "what_i_ran":["git worktree add <scratch> HEAD (of /repo)",
   "demo without the change: cd %s && go test -vet=off -count=1 %s -run '(?i)%s' .  -> PASS"%(DIR,RACE,PAT),
   "git apply patch.diff; go build ./... -> ok",
   "/verif/tools/baseline.sh <scratch> -> "+BASE,
   "demo with the change -> FAIL: "+TAIL.replace('\n',' | ')[:400]]})
meta.setdefault("needs_to_manifest","see README.md")
json.dump(meta,open(meta_path,'w'),indent=1)
PY
  echo "  kept in $OUT"
else
  echo "  NOT kept"; tail -8 $WT/demo.out | cut -c1-200
fi
