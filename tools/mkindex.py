#!/usr/bin/env python3
"""Generates /verif/variants/index.json, the variant list of the thorough tier's checker self-validation (T2).
 break    : every seeded change (/verif/seeded/<ID>-*/patch.diff) and every re-introduction of a repaired defect
            (/verif/variants/reintroduce/*.diff); `expect` = the obligation keys the current checker raises for
            the variant's own property on a scratch copy of /repo's HEAD (determined here by running it; a variant
            that raises nothing is reported and left out - it would be a hole, see seeded/RESULTS.md).
 refactor : every behaviour-preserving refactoring under /verif/variants/refactor/*/ ; property "*" (judged by the
            check of every property: it must raise nothing the current tree does not raise).
Run after changing rules or adding variants:  tools/mkindex.py [jobs]"""
import json, os, subprocess, sys, glob, tempfile, shutil, re
from concurrent.futures import ThreadPoolExecutor
V = '/verif'
jobs = int(sys.argv[1]) if len(sys.argv) > 1 else 8
REINTRO = {'F1': 'C20', 'F2': 'C04', 'F3': 'C16', 'F4': 'C13', 'F5': 'C14', 'F8': 'C17', 'F8b': 'C17'}

def keys_for(patch, prop):
    t = tempfile.mkdtemp(prefix='mkindex.')
    try:
        os.makedirs(t + '/repo'); os.makedirs(t + '/verif/evidence'); os.makedirs(t + '/verif/checker')
        os.symlink(V + '/checker/testdata', t + '/verif/checker/testdata')
        subprocess.run('git -C /repo archive HEAD | tar -x -C %s/repo' % t, shell=True, check=True)
        shutil.copy(V + '/known_findings.json', t + '/verif/')
        r = subprocess.run(['git', 'apply', '--whitespace=nowarn', patch], cwd=t + '/repo', capture_output=True, text=True)
        if r.returncode != 0:
            return None
        r = subprocess.run([V + '/bin/scicheck', '-property', prop, '-tier', 'quick', '-repo', t + '/repo', '-verif', t + '/verif'], capture_output=True, text=True)
        ks = []
        for ln in (r.stdout + r.stderr).splitlines():
            f = ln.split()
            if len(f) >= 2 and f[0] in ('VIOLATED', 'UNDECIDED'):
                ks.append(f[1])
        return sorted(set(ks))
    finally:
        shutil.rmtree(t, ignore_errors=True)

items = []
for d in sorted(glob.glob(V + '/seeded/C*-*/')):
    n = os.path.basename(d.rstrip('/'))
    if os.path.exists(d + 'patch.diff'):
        items.append((n, n.split('-')[0], 'seeded/%s/patch.diff' % n))
for f, prop in sorted(REINTRO.items()):
    items.append(('reintroduce-' + f, prop, 'variants/reintroduce/%s.diff' % f))
# breaking edits constructed on top of a refactoring (variants/derived/<PROP>-<name>.diff): they test that a
# generalised recogniser (queue object, work-list closure, ...) still detects the break in the refactored shape
for f in sorted(glob.glob(V + '/variants/derived/*.diff')):
    n = os.path.basename(f)[:-5]
    items.append(('derived-' + n, n.split('-')[0], 'variants/derived/%s.diff' % n))
with ThreadPoolExecutor(jobs) as ex:
    res = list(ex.map(lambda it: keys_for(V + '/' + it[2], it[1]), items))
out = []
for (n, prop, patch), ks in zip(items, res):
    if ks is None:
        print('DOES NOT APPLY', n); continue
    if not ks:
        print('NOT CAUGHT BY OWN PROPERTY (left out):', n); continue
    out.append({'id': n, 'property': prop, 'kind': 'break', 'patch': patch, 'expect': ks})
for d in sorted(glob.glob(V + '/variants/refactor/*/')):
    n = os.path.basename(d.rstrip('/'))
    if os.path.exists(d + 'LIMIT.md'):
        print('known limit (left out):', n); continue
    out.append({'id': 'refactor-' + n, 'property': '*', 'kind': 'refactor', 'patch': 'variants/refactor/%s/patch.diff' % n, 'expect': []})
json.dump(out, open(V + '/variants/index.json', 'w'), indent=1, ensure_ascii=False)
print('wrote %d variants (%d break, %d refactor)' % (len(out), sum(1 for x in out if x['kind'] == 'break'), sum(1 for x in out if x['kind'] == 'refactor')))
