#!/bin/bash
# Regression of the checker itself on scratch copies of /repo's HEAD, in parallel:
#   every refactoring under /verif/variants/refactor must be SILENT on all 20 checks,
#   every seeded change under /verif/seeded and every re-introduction must be caught by its own property's check.
# usage: regress.sh [refactor|seeds|all] [jobs]
WHAT=${1:-all}; JOBS=${2:-8}
OUT=/tmp/regress; rm -rf $OUT; mkdir -p $OUT
one() { # kind name patch props
  kind=$1; name=$2; patch=$3; props=$4
  /verif/tools/tryvariant.sh $patch $props > $OUT/$name.out 2>&1
}
export -f one; export OUT
LIST=$OUT/list.txt; : > $LIST
if [ $WHAT != seeds ]; then for d in /verif/variants/refactor/*/; do n=$(basename $d); echo "refactor $n $d/patch.diff ''" >> $LIST; done; fi
if [ $WHAT != refactor ]; then
  for d in /verif/seeded/C*-m*/; do n=$(basename $d); echo "seed $n $d/patch.diff ${n%%-*}" >> $LIST; done
  for f in /verif/variants/derived/*.diff; do n=$(basename $f .diff); echo "seed derived-$n $f ${n%%-*}" >> $LIST; done
  for f in F1:C20 F2:C04 F3:C16 F4:C13 F5:C14 F8:C17 F8b:C17; do echo "seed reintroduce-${f%%:*} /verif/variants/reintroduce/${f%%:*}.diff ${f##*:}" >> $LIST; done
fi
cat $LIST | xargs -P $JOBS -L 1 bash -c 'one "$0" "$1" "$2" "$3"'
bad=0
while read kind name patch props; do
  if [ $kind = refactor ]; then
    if grep -q "^SILENT" $OUT/$name.out; then :; elif [ -f /verif/variants/refactor/$name/LIMIT.md ]; then echo "KNOWN-LIMIT $name (see LIMIT.md)"; else bad=$((bad+1)); echo "FALSE-ALARM $name: $(grep -E '^(VIOLATED|UNDECIDED|INFRA|PATCH)' $OUT/$name.out | awk '{print $2}' | tr '\n' ' ' | cut -c1-300)"; fi
  else
    if grep -qE "^(VIOLATED|UNDECIDED)" $OUT/$name.out; then :; else bad=$((bad+1)); echo "MISSED $name: $(head -2 $OUT/$name.out | tr '\n' ' ')"; fi
  fi
done < $LIST
echo "regress: $(wc -l < $LIST) variants, $bad wrong"
