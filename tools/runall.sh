#!/bin/bash
# Runs all 20 quick checks against /repo (evidence rewritten), 5 at a time; prints one line per property.
# usage: runall.sh [tier]
TIER=${1:-quick}
mkdir -p /tmp/runall
seq -w 1 20 | xargs -P 5 -I{} bash -c '/verif/bin/scicheck -property C{} -tier '$TIER' > /tmp/runall/C{}.out 2>&1; echo "C{} exit=$? $(tail -1 /tmp/runall/C{}.out | cut -c1-120)"' | sort
grep -h "^VIOLATION\|^UNDECIDED\|^VIOLATED\|^INFRA" /tmp/runall/C*.out | cut -c1-300
