#!/usr/bin/env python3
"""Mutation sweep: an assessment of the CHECKER, never part of a registered check.

  mutsweep.py <mutants.json> <outdir> [jobs]

For every mechanical mutant of scipipe's library source produced by /verif/bin/mutgen (one JSON object per line):
  1. apply it to a private scratch copy of /repo's HEAD, `go build ./...`      -> stillborn if it does not compile
  2. run the repository's test suite (60 stable tests of BASELINE.json, 90 s)   -> killed if a stable test fails/hangs
  3. survivors only: run all 20 quick checks (one scicheck process) on the copy -> caught (keys) / uncaught
Results are appended to <outdir>/results.jsonl; the sweep can be resumed (mutants already in results are skipped).
The interesting output is the list of mutants that SURVIVE the suite and are UNCAUGHT by every check: each is
either an equivalent / property-irrelevant mutant or a gap in the rules, to be triaged by hand.
"""
import json, os, signal, subprocess, sys, shutil, tempfile, threading, queue, time

MUT, OUT = sys.argv[1], sys.argv[2]
JOBS = int(sys.argv[3]) if len(sys.argv) > 3 else 10
ENV = dict(os.environ, GOFLAGS='-mod=mod', GOPROXY='off', GOSUMDB='off', GOTOOLCHAIN='local')
ENV.pop('GOWORK', None)
STABLE = set(json.load(open('/root/.vp/BASELINE.json'))['stable_pass'])
SCICHECK = os.environ.get('SCICHECK', '/verif/bin/scicheck')
os.makedirs(OUT, exist_ok=True)
RES = os.path.join(OUT, 'results.jsonl')
done = set()
if os.path.exists(RES):
    for l in open(RES):
        try: done.add(json.loads(l)['id'])
        except Exception: pass
muts = [json.loads(l) for l in open(MUT) if l.strip()]
todo = [m for m in muts if m['id'] not in done]
print('%d mutants, %d to do, %d jobs' % (len(muts), len(todo), JOBS), flush=True)

root = tempfile.mkdtemp(prefix='mutsweep.', dir='/tmp')
pristine = os.path.join(root, 'pristine')
os.makedirs(pristine)
subprocess.run('git -C /repo archive HEAD | tar -x -C %s' % pristine, shell=True, check=True)
lock = threading.Lock()
q = queue.Queue()
for m in todo: q.put(m)

def run(cmd, cwd, timeout):
    p = subprocess.Popen(cmd, cwd=cwd, env=ENV, stdout=subprocess.PIPE, stderr=subprocess.STDOUT, start_new_session=True)
    try:
        out, _ = p.communicate(timeout=timeout)
        rc = p.returncode
    except subprocess.TimeoutExpired:
        rc = 124
        try: os.killpg(p.pid, signal.SIGKILL)
        except Exception: pass
        out, _ = p.communicate()
    try: os.killpg(p.pid, signal.SIGKILL)   # stray children of the test binary (sleep, cat on a FIFO, ...)
    except Exception: pass
    return rc, out.decode('utf-8', 'replace')

def suite(repo):
    rc, out = run(['go', 'test', '-vet=off', '-count=1', '-json', '-timeout', '80s', './...'], repo, 100)
    passed = set()
    for l in out.splitlines():
        try: e = json.loads(l)
        except Exception: continue
        if e.get('Test') and e.get('Action') == 'pass':
            passed.add(e['Package'] + '::' + e['Test'])
    return sorted(STABLE - passed)

def worker(i):
    w = os.path.join(root, 'w%d' % i)
    repo, verif = os.path.join(w, 'repo'), os.path.join(w, 'verif')
    os.makedirs(os.path.join(verif, 'evidence'), exist_ok=True)
    os.makedirs(os.path.join(verif, 'checker'), exist_ok=True)
    shutil.copy('/verif/known_findings.json', verif)
    if not os.path.exists(os.path.join(verif, 'checker', 'testdata')):
        os.symlink('/verif/checker/testdata', os.path.join(verif, 'checker', 'testdata'))
    while True:
        try: m = q.get_nowait()
        except queue.Empty: return
        t0 = time.time()
        subprocess.run(['rsync', '-a', '--delete', pristine + '/', repo + '/'], check=True)
        f = os.path.join(repo, m['file'])
        src = open(f, 'rb').read()
        open(f, 'wb').write(src[:m['start']] + m['repl'].encode() + src[m['end']:])
        r = dict(id=m['id'], file=m['file'], line=m['line'], func=m['func'], op=m['op'], orig=m['orig'], repl=m['repl'])
        rc, out = run(['go', 'build', './...'], repo, 300)
        if rc != 0:
            r['status'] = 'stillborn'
        else:
            missing = suite(repo)
            if missing:
                r['status'] = 'killed'; r['killed_by'] = missing[:3]
            else:
                # restore a clean tree with the mutant (the suite leaves files behind)
                subprocess.run(['rsync', '-a', '--delete', pristine + '/', repo + '/'], check=True)
                open(f, 'wb').write(src[:m['start']] + m['repl'].encode() + src[m['end']:])
                rc, out = run([SCICHECK, '-property', 'all', '-tier', 'quick', '-repo', repo, '-verif', verif], w, 900)
                keys = []
                for l in out.splitlines():
                    if l.startswith('VIOLATED ') or l.startswith('UNDECIDED '):
                        keys.append(l.split()[0][0] + ':' + l.split()[1])
                    elif l.startswith('INFRA'):
                        keys.append('INFRA:' + l[:120])
                r['status'] = 'caught' if keys else ('uncaught' if rc == 0 else 'error')
                r['keys'] = sorted(set(keys))[:12]
                r['rc'] = rc
        r['secs'] = round(time.time() - t0, 1)
        with lock:
            open(RES, 'a').write(json.dumps(r, ensure_ascii=False) + '\n')

ths = [threading.Thread(target=worker, args=(i,)) for i in range(JOBS)]
for t in ths: t.start()
for t in ths: t.join()
shutil.rmtree(root, ignore_errors=True)
cnt = {}
for l in open(RES):
    s = json.loads(l)['status']; cnt[s] = cnt.get(s, 0) + 1
print('done', cnt)
