#!/bin/bash
# usage: tryvariant.sh <patch.diff> [property ...]   (default: all)
# Applies a patch to a scratch export of /repo's HEAD (not the working tree) and runs the quick checks on it.
P=$1; shift
PROPS=${@:-C01 C02 C03 C04 C05 C06 C07 C08 C09 C10 C11 C12 C13 C14 C15 C16 C17 C18 C19 C20}
T=$(mktemp -d /tmp/tryvar.XXXXXX); trap 'rm -rf '$T EXIT
mkdir -p $T/repo $T/verif/evidence
git -C /repo archive HEAD | tar -x -C $T/repo
cp /verif/known_findings.json $T/verif/
mkdir -p $T/verif/checker && ln -s /verif/checker/testdata $T/verif/checker/testdata
(cd $T/repo && git apply --whitespace=nowarn "$P") || { echo "PATCH DOES NOT APPLY: $P"; exit 2; }
rc=0
for id in $PROPS; do
  o=$(${SCICHECK:-/verif/bin/scicheck} -property $id -tier quick -repo $T/repo -verif $T/verif 2>&1); c=$?
  if [ $c -ne 0 ]; then rc=1; echo "$o" | grep -E "^(VIOLATED|UNDECIDED|INFRA)|^    why:" | cut -c1-420; fi
done
[ $rc -eq 0 ] && echo "SILENT: $P"
exit $rc
