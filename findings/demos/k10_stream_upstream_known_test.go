package scipipe

// Demonstration for K10 (C17 / C10), a KNOWN finding: the audit record of a task that consumed a streaming
// input can lack the producer's record. Copy to /repo; go test -vet=off -run TestDemoK10 .
// The producer's record is attached to the streamed IP only when the producer's command has finished
// (Task.Execute -> writeAuditLogs -> SetAuditInfo), but the IP is handed to the consumer BEFORE the producer
// starts (Process.Run sends streaming out-IPs first). A consumer that finishes earlier than the producer reads
// iip.AuditInfo() too early: FileIP.AuditInfo() finds no audit file, creates an empty record and caches it.
// Here the producer lingers for a second after closing the pipe, so the outcome is deterministic.
import (
	"os"
	"testing"
)

func TestDemoK10StreamingUpstreamRecord(t *testing.T) {
	initTestLogs()
	os.MkdirAll(".tmp", 0777)
	defer cleanFiles(".tmp/k10_src.txt.fifo", ".tmp/k10_dst.txt", ".tmp/k10_dst.txt.audit.json")
	wf := NewWorkflow("k10wf", 4)
	prod := wf.NewProc("k10prod", "echo hello > {os:out}; sleep 1")
	prod.SetOut("out", ".tmp/k10_src.txt")
	cons := wf.NewProc("k10cons", "cat {i:in} > {o:out}")
	cons.SetOut("out", ".tmp/k10_dst.txt")
	cons.In("in").From(prod.Out("out"))
	wf.Run()

	ai := UnmarshalAuditInfoJSONFile(".tmp/k10_dst.txt.audit.json")
	up, ok := ai.Upstream[".tmp/k10_src.txt"]
	if !ok {
		t.Fatalf("no Upstream entry for the streamed input at all: %v", ai.Upstream)
	}
	if up.ProcessName != "k10prod" || up.Command == "" {
		t.Errorf("the consumer's audit record does not name the producer: Upstream[.tmp/k10_src.txt] = {ProcessName:%q Command:%q} (an empty record)", up.ProcessName, up.Command)
	}
}
