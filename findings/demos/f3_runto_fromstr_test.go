package scipipe

// Demonstration for F3 (C16). Copy to /repo; go test -vet=off -run TestDemoF3 .
// Before b687eb4: "fatal error: stack overflow"; after: ok.
import (
	"fmt"
	"testing"
)

func TestDemoF3RunToWithFromStr(t *testing.T) {
	initTestLogs()
	wf := NewWorkflow("f3wf", 4)
	vals := []string{}
	for i := 0; i < 200; i++ { // more than BUFSIZE (128): the feeder is still connected at RunTo
		vals = append(vals, fmt.Sprintf("v%d", i))
	}
	n := 0
	a := wf.NewProc("a", "# {p:n}")
	a.CustomExecute = func(tk *Task) { n++ }
	a.InParam("n").FromStr(vals...)
	wf.RunTo("a")
	if n == 0 {
		t.Errorf("no task ran")
	}
}
