package scipipe

// Demonstration for F5 (C14, C03). Copy to /repo; go test -vet=off -run TestDemoF5 .
// Before 63f024e the two temp dirs differ; after, they are equal.
import (
	"strings"
	"testing"
)

func TestDemoF5JoinedTempDirStable(t *testing.T) {
	initTestLogs()
	mk := func(carrier string) string {
		car, _ := NewFileIP(carrier)
		m1, _ := NewFileIP("m1.txt")
		m2, _ := NewFileIP("m2.txt")
		car.SubStream.Chan <- m1
		car.SubStream.Chan <- m2
		close(car.SubStream.Chan)
		pi := map[string]*PortInfo{"in": {portType: "i", join: true, joinSep: " "}, "out": {portType: "o"}}
		wf := NewWorkflow("f5wf"+strings.Replace(carrier, "/", "_", -1), 1)
		p := NewProc(wf, "cat", "cat {i:in|join: } > {o:out}")
		tk := NewTask(wf, p, "cat", "cat {i:in|join: } > {o:out}", map[string]*FileIP{"in": car},
			map[string]func(*Task) string{"out": func(*Task) string { return "o.txt" }}, pi, nil, nil, "", nil, 1)
		return tk.TempDir()
	}
	if d1, d2 := mk("/tmp/_scipipe_tmp.111"), mk("/tmp/_scipipe_tmp.222"); d1 != d2 {
		t.Errorf("same joined task, different temp dirs: %s vs %s", d1, d2)
	}
}
