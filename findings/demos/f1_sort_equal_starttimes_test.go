package main

// Demonstration for F1 (C20). Copy to /repo/cmd/scipipe/ and run
//   go test -vet=off -run TestDemoF1 ./cmd/scipipe
// Fails before commit 2a04c00 ("record aaa listed 0 times ... ccc listed 3 times"), passes after.
import (
	"testing"

	"github.com/scipipe/scipipe"
)

func TestDemoF1SortKeepsAll(t *testing.T) {
	a, b, c := scipipe.NewAuditInfo(), scipipe.NewAuditInfo(), scipipe.NewAuditInfo()
	a.ID, b.ID, c.ID = "aaa", "bbb", "ccc" // all three have the zero start time, like source files
	in := map[string]*scipipe.AuditInfo{"aaa": a, "bbb": b, "ccc": c}
	seen := map[string]int{}
	for _, ai := range sortAuditInfosByStartTime(in) {
		seen[ai.ID]++
	}
	for id := range in {
		if seen[id] != 1 {
			t.Errorf("record %s listed %d times (want 1); output %v", id, seen[id], seen)
		}
	}
}
