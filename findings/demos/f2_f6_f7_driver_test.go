package scipipe

// Demonstrations for F2 / F6 / F7 (C04, C05, C16). Copy to /repo and run e.g.
//   go test -vet=off -count=30 -run TestDemoF2 .      (schedule dependent: ~4 of 30 runs failed before 93c126e)
//   go test -vet=off -run TestDemoSingleDriverOnce .  (exit 1 "Existing temp folders found" before 93c126e)
//   timeout 60 go test -vet=off -run TestDemoDriverUnconnected .  (hung after running foo before 93c126e)
import (
	"fmt"
	"io/ioutil"
	"os"
	"os/exec"
	"strings"
	"sync/atomic"
	"testing"
)

func TestDemoF2DriverStartedOnce(t *testing.T) {
	initTestLogs()
	os.MkdirAll(".tmp/f2", 0777)
	wf := NewWorkflow("f2wf", 4)
	as, bs := []string{}, []string{}
	for i := 0; i < 6; i++ {
		a, b := fmt.Sprintf(".tmp/f2/a_%d.txt", i), fmt.Sprintf(".tmp/f2/b_%d.txt", i)
		ioutil.WriteFile(a, []byte("a"), 0644)
		ioutil.WriteFile(b, []byte("b"), 0644)
		as, bs = append(as, a), append(bs, b)
	}
	srcA := NewFileSource(wf, "srca", as...)
	srcB := NewFileSource(wf, "srcb", bs...)
	var runs int32
	c := wf.NewProc("c", "# {i:a} {i:b}")
	c.CustomExecute = func(tk *Task) {
		atomic.AddInt32(&runs, 1)
		na := strings.TrimSuffix(strings.Split(tk.InPath("a"), "_")[1], ".txt")
		nb := strings.TrimSuffix(strings.Split(tk.InPath("b"), "_")[1], ".txt")
		if na != nb {
			t.Errorf("mis-paired inputs: %s with %s", tk.InPath("a"), tk.InPath("b"))
		}
	}
	c.In("a").From(srcA.Out())
	c.In("b").From(srcB.Out())
	wf.RunTo("c")
	if runs != 6 {
		t.Errorf("expected 6 tasks, ran %d", runs)
	}
	os.RemoveAll(".tmp/f2")
	exec.Command("bash", "-c", "rm -rf _scipipe_tmp.c.*").Run()
}

func TestDemoSingleDriverOnce(t *testing.T) {
	initTestLogs()
	for i := 0; i < 20; i++ {
		wf := NewWorkflow("singlewf", 4)
		var n int32
		p := wf.NewProc("only", "# no ports")
		p.CustomExecute = func(tk *Task) { atomic.AddInt32(&n, 1) }
		wf.Run()
		if n != 1 {
			t.Errorf("single port-less process executed %d tasks, want 1", n)
		}
	}
}

func TestDemoDriverUnconnected(t *testing.T) {
	initTestLogs()
	wf := NewWorkflow("drvwf", 4)
	foo := wf.NewProc("foo", "echo foo > {o:out}")
	foo.SetOut("out", ".tmp/drv_foo.txt")
	last := wf.NewProc("last", "cat {i:in} {i:other}")
	last.In("in").From(foo.Out("out"))
	// last.In("other") is left unconnected: Run must refuse before executing foo
	wf.Run()
	if _, err := os.Stat(".tmp/drv_foo.txt"); err == nil {
		t.Errorf("foo executed although the workflow is not fully connected")
	}
}
