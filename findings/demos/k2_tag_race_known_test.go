package components

// Demonstration for known finding K2 (C12). Copy to /repo/components and run
//   go test -vet=off -race -count=1 -run TestDemoK2 ./components
// The race detector reports FileIP.AddTag (write of AuditInfo.Tags, via MapToTags.Run) against the
// sibling consumer's read of the same map (FileIP.Tags in Process.createTasks / json.MarshalIndent).
import (
	"fmt"
	"os"
	"testing"

	"github.com/scipipe/scipipe"
)

func TestDemoK2TagRace(t *testing.T) {
	scipipe.InitLogError()
	os.MkdirAll(".tmp/k2", 0777)
	var paths []string
	for i := 0; i < 40; i++ {
		pth := fmt.Sprintf(".tmp/k2/in_%d.txt", i)
		os.WriteFile(pth, []byte("x"), 0644)
		paths = append(paths, pth)
	}
	wf := scipipe.NewWorkflow("k2wf", 4)
	src := NewFileSource(wf, "src", paths...)
	// the same out-port fans out to a tagger and to an ordinary process
	tagger := NewMapToTags(wf, "tagger", func(ip *scipipe.FileIP) map[string]string {
		return map[string]string{"a": "1", "b": "2", "c": "3"}
	})
	tagger.In().From(src.Out())
	cp := wf.NewProc("cp", "cat {i:in} > {o:out}")
	cp.SetOut("out", "{i:in}.copy.txt")
	cp.In("in").From(src.Out())
	wf.Run()
	os.RemoveAll(".tmp/k2")
}
