package scipipe

// Demonstrations for the known findings K7 (C03) and K8 (C01, C09), against the real code.
// Copy to /repo and run:  go test -vet=off -count=1 -run 'TestDemoK7|TestDemoK8' .
import (
	"io/ioutil"
	"os"
	"os/exec"
	"testing"
)

// K8: a Go-function task writes through FileIP.Write, the documented output API. The task FAILS
// ("Missing output temp-file", exit 1) and yet its output exists at the final path.
func TestDemoK8WriteGoesToFinalPath(t *testing.T) {
	if os.Getenv("BE_CRASHER") == "1" {
		initTestLogs()
		wf := NewWorkflow("k8wf", 4)
		p := wf.NewProc("gofunc", "{o:out}")
		p.SetOut("out", ".tmp/k8_out.txt")
		p.CustomExecute = func(tk *Task) { tk.OutIP("out").Write([]byte("half-done")) }
		wf.Run()
		return
	}
	os.Remove(".tmp/k8_out.txt")
	cmd := exec.Command(os.Args[0], "-test.run=TestDemoK8WriteGoesToFinalPath")
	cmd.Env = append(os.Environ(), "BE_CRASHER=1")
	out, err := cmd.CombinedOutput()
	_, statErr := os.Stat(".tmp/k8_out.txt")
	t.Logf("child: err=%v final-path-exists=%v", err, statErr == nil)
	if err != nil && statErr == nil {
		t.Errorf("the workflow failed (%v) but the output is present at its final path .tmp/k8_out.txt\n%s", err, lastLines(string(out)))
	}
	os.Remove(".tmp/k8_out.txt")
	exec.Command("bash", "-c", "rm -rf _scipipe_tmp.gofunc.*").Run()
}

// K7: state left by a crash between the two renames of a two-output task, after the documented clean-up
// (temp dirs removed): o1 finalised (with audit file), o2 missing. Every re-run skips the task and then fails
// downstream; it never converges to the uninterrupted result.
func TestDemoK7PartialFinalisationNeverConverges(t *testing.T) {
	if os.Getenv("BE_CRASHER") == "1" {
		initTestLogs()
		wf := NewWorkflow("k7wf", 4)
		two := wf.NewProc("two", "echo 1 > {o:o1}; echo 2 > {o:o2}")
		two.SetOut("o1", ".tmp/k7_o1.txt")
		two.SetOut("o2", ".tmp/k7_o2.txt")
		use := wf.NewProc("use", "cat {i:a} {i:b} > {o:out}")
		use.SetOut("out", ".tmp/k7_out.txt")
		use.In("a").From(two.Out("o1"))
		use.In("b").From(two.Out("o2"))
		wf.Run()
		return
	}
	for _, f := range []string{".tmp/k7_o1.txt", ".tmp/k7_o2.txt", ".tmp/k7_out.txt"} {
		os.Remove(f)
		os.Remove(f + ".audit.json")
	}
	ioutil.WriteFile(".tmp/k7_o1.txt", []byte("1\n"), 0644) // the state after crash + clean-up
	for run := 1; run <= 2; run++ {
		cmd := exec.Command(os.Args[0], "-test.run=TestDemoK7PartialFinalisationNeverConverges")
		cmd.Env = append(os.Environ(), "BE_CRASHER=1")
		out, err := cmd.CombinedOutput()
		_, e2 := os.Stat(".tmp/k7_o2.txt")
		_, e3 := os.Stat(".tmp/k7_out.txt")
		t.Logf("re-run %d: err=%v o2-exists=%v out-exists=%v", run, err, e2 == nil, e3 == nil)
		if err != nil || e2 != nil || e3 != nil {
			t.Errorf("re-run %d did not converge (err=%v, o2 present=%v, out present=%v)\n%s", run, err, e2 == nil, e3 == nil, lastLines(string(out)))
		}
		exec.Command("bash", "-c", "rm -rf _scipipe_tmp.use.* _scipipe_tmp.two.*").Run()
	}
	for _, f := range []string{".tmp/k7_o1.txt", ".tmp/k7_o2.txt", ".tmp/k7_out.txt"} {
		os.Remove(f)
		os.Remove(f + ".audit.json")
	}
}

func lastLines(s string) string {
	if len(s) > 600 {
		return s[len(s)-600:]
	}
	return s
}
