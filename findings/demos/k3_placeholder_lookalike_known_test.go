package scipipe

// Demonstration for known finding K3 (C13): the internal placeholders lie inside the alphabet of valid
// paths, so a file a command creates whose name contains one is "decoded" when it is moved out of the
// temp dir. Copy to /repo; go test -vet=off -run TestDemoK3 .
import (
	"os"
	"testing"
)

func TestDemoK3PlaceholderLookalikeExtraFile(t *testing.T) {
	initTestLogs()
	os.Remove("../k3_foo.txt")
	wf := NewWorkflow("k3wf", 4)
	p := wf.NewProc("mk", "echo hi > {o:out}; echo extra > __parent__k3_foo.txt")
	p.SetOut("out", ".tmp/k3_out.txt")
	wf.Run()
	_, errHere := os.Stat("__parent__k3_foo.txt")
	_, errParent := os.Stat("../k3_foo.txt")
	if errHere != nil || errParent == nil {
		t.Errorf("extra file __parent__k3_foo.txt: present in the working directory: %v; present as ../k3_foo.txt (outside the working directory): %v", errHere == nil, errParent == nil)
	}
	os.Remove("../k3_foo.txt")
	os.Remove("__parent__k3_foo.txt")
	os.Remove(".tmp/k3_out.txt")
	os.Remove(".tmp/k3_out.txt.audit.json")
}
