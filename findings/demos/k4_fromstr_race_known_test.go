package scipipe

// Demonstration for known finding K4 (C12). Copy to /repo and run
//   go test -vet=off -race -count=1 -run TestDemoK4 .
// InParamPort.FromStr starts its feeder goroutine while the workflow is still being wired; its
// (locked) delete on RemotePorts in CloseConnection races with the unlocked read of the same map
// in the RunTo upstream traversal (and in AddRemotePort).
import "testing"

func TestDemoK4FromStrRace(t *testing.T) {
	initTestLogs()
	for i := 0; i < 20; i++ {
		wf := NewWorkflow("k4wf", 4)
		a := wf.NewProc("a", "# {p:n}")
		a.CustomExecute = func(tk *Task) {}
		a.InParam("n").FromStr("1", "2")
		wf.RunTo("a")
	}
}
