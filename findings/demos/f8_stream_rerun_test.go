package scipipe

// Demonstration of defect F8 (formerly observation K5; property C17, clause "re-running the workflow after
// it completed terminates and leaves the consumer's outputs untouched") and of the regression an earlier,
// blocking version of the repair would have had for producers with mixed (streaming + regular) outputs.
//
// Copy into /repo as zz_f8_test.go and run:  go test -vet=off -count=1 -run 'TestDemoF8' .
//   - on the tree before the fix (efe09f7): TestDemoF8StreamRerunTerminates fails (second run hangs);
//   - on the repaired tree both pass.

import (
	"io/ioutil"
	"os"
	"os/exec"
	"path/filepath"
	"syscall"
	"testing"
	"time"
)

func f8Workflow(dir string, mixed bool) *Workflow {
	wf := NewWorkflow("f8wf", 4)
	var prod *Process
	if mixed {
		prod = wf.NewProc("f8prod", "echo hello > {os:out}; echo side > {o:side}")
		prod.SetOut("side", dir+"/side.txt")
	} else {
		prod = wf.NewProc("f8prod", "echo hello > {os:out}")
	}
	prod.SetOut("out", dir+"/streamed.txt")
	cons := wf.NewProc("f8cons", "cat {i:in} > {o:out}")
	cons.SetOut("out", dir+"/consumed.txt")
	cons.In("in").From(prod.Out("out"))
	return wf
}

func f8Child(t *testing.T, mixed string, dir string) {
	cmd := exec.Command(os.Args[0], "-test.run", "^TestDemoF8Child$")
	cmd.Env = append(os.Environ(), "F8_CHILD="+mixed, "F8_DIR="+dir)
	cmd.SysProcAttr = &syscall.SysProcAttr{Setpgid: true}
	done := make(chan error, 1)
	var out []byte
	go func() { var err error; out, err = cmd.CombinedOutput(); done <- err }()
	select {
	case err := <-done:
		if err != nil {
			t.Fatalf("run failed: %v\n%s", err, out)
		}
	case <-time.After(20 * time.Second):
		syscall.Kill(-cmd.Process.Pid, syscall.SIGKILL)
		f8Clean()
		t.Fatalf("run did not terminate within 20 s (hang)")
	}
}

func TestDemoF8Child(t *testing.T) {
	if os.Getenv("F8_CHILD") == "" {
		t.Skip("helper")
	}
	InitLogError()
	f8Workflow(os.Getenv("F8_DIR"), os.Getenv("F8_CHILD") == "mixed").Run()
}

func f8Clean() {
	for _, pat := range []string{"_scipipe_tmp.f8prod.*", "_scipipe_tmp.f8cons.*"} {
		ms, _ := filepath.Glob(pat)
		for _, m := range ms {
			os.RemoveAll(m)
		}
	}
}

func f8Scenario(t *testing.T, mixed string) {
	dir := ".tmp/f8_" + mixed
	f8Clean()
	defer f8Clean()
	os.RemoveAll(dir)
	os.MkdirAll(dir, 0755)
	defer os.RemoveAll(dir)
	f8Child(t, mixed, dir) // first run
	before, err := ioutil.ReadFile(dir + "/consumed.txt")
	if err != nil || string(before) != "hello\n" {
		t.Fatalf("first run: consumed.txt = %q, %v", before, err)
	}
	st1, _ := os.Stat(dir + "/consumed.txt")
	f8Child(t, mixed, dir) // re-run of the completed workflow
	st2, _ := os.Stat(dir + "/consumed.txt")
	if !st1.ModTime().Equal(st2.ModTime()) {
		t.Fatalf("consumer output was modified by the re-run")
	}
	if _, err := os.Stat(dir + "/streamed.txt.fifo"); err == nil {
		t.Fatalf("FIFO left behind")
	}
}

func TestDemoF8StreamRerunTerminates(t *testing.T)        { f8Scenario(t, "pure") }
func TestDemoF8MixedProducerRerunTerminates(t *testing.T) { f8Scenario(t, "mixed") }
