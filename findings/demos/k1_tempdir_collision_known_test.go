package scipipe

// Demonstration for known finding K1 (C14): the temp-dir pre-image is strings.Join(pieces, ""), so
// different task identities collide. Copy to /repo; go test -vet=off -run TestDemoK1 .
import "testing"

func TestDemoK1TempDirCollisions(t *testing.T) {
	initTestLogs()
	wf := NewWorkflow("k1wf", 1)
	p := NewProc(wf, "proc", "cat {i:in} > {o:out} # {p:x} {p:y}")
	mk := func(inPath string, params map[string]string) string {
		ip, err := NewFileIP(inPath)
		if err != nil {
			t.Fatal(err)
		}
		tk := NewTask(wf, p, "proc", "cat {i:in} > {o:out} # {p:x} {p:y}", map[string]*FileIP{"in": ip},
			map[string]func(*Task) string{"out": func(*Task) string { return "o.txt" }},
			map[string]*PortInfo{"in": {portType: "i"}, "out": {portType: "o"}, "x": {portType: "p"}, "y": {portType: "p"}},
			params, map[string]string{}, "", nil, 1)
		return tk.TempDir()
	}
	same := map[string]string{"x": "1", "y": "2"}
	if a, b := mk("ab/c", same), mk("a/bc", same); a == b {
		t.Errorf("different input paths ab/c and a/bc give the same temp dir %s", a)
	}
	if a, b := mk("in.txt", map[string]string{"x": "1y_2", "y": "3"}), mk("in.txt", map[string]string{"x": "1", "y": "2y_3"}); a == b {
		t.Errorf("different parameter maps {x=1y_2,y=3} and {x=1,y=2y_3} give the same temp dir %s", a)
	}
}
