package scipipe

// Demonstration for F4 (C13). Copy to /repo; go test -vet=off -run TestDemoF4 .
// Before efe09f7: a stray __parent__f4sib directory is left in the working directory, and the
// "a../b.txt" workflow exits 1 ("Could not write audit file"). After: both pass.
import (
	"os"
	"testing"
)

func TestDemoF4AuditDir(t *testing.T) {
	initTestLogs()
	os.MkdirAll("../f4sib", 0777)
	defer os.RemoveAll("../f4sib")
	wf := NewWorkflow("f4wf", 4)
	p := wf.NewProc("w", "echo hi > {o:out}")
	p.SetOut("out", "../f4sib/b.txt")
	wf.Run()
	if _, err := os.Stat("../f4sib/b.txt"); err != nil {
		t.Errorf("output missing: %v", err)
	}
	if _, err := os.Stat("__parent__f4sib"); err == nil {
		t.Errorf("stray directory __parent__f4sib left in working directory")
		os.RemoveAll("__parent__f4sib")
	}
}

func TestDemoF4AuditDirDots(t *testing.T) {
	initTestLogs()
	defer os.RemoveAll(".tmp/f4a..")
	wf := NewWorkflow("f4wfb", 4)
	q := wf.NewProc("w2", "echo hi > {o:out}")
	q.SetOut("out", ".tmp/f4a../b.txt")
	wf.Run()
	if _, err := os.Stat(".tmp/f4a../b.txt"); err != nil {
		t.Errorf("output missing: %v", err)
	}
}
